/* Contracts for igzip/adler32_base.c (property C04) and isal_adler32_bam1 (igzip/igzip.c).
 *
 * adler32_base has three loops: L1 `while (length > 2^28)` around L2 (one 2^28-byte chunk with deferred
 * reduction), then L3 (the remaining <= 2^28 bytes).
 *
 * Two contract variants, selected by the harness (-D):
 *
 * default (harness adler32_base_safety, all loops closed by loop contracts, every length <= 2^47):
 *   memory safety with the exact buffer size, frame (nothing but ghost witnesses), every byte index is
 *   visited exactly once in order (next == start + i), the 64-bit accumulators never wrap
 *   (--unsigned-overflow-check is on; inductive bounds after j bytes of a chunk:
 *   A <= 65535 + 255*j,  B <= 65535 + j*(2^36 - 2^27), written with shifts so that the step obligation has no
 *   multiplier; 255*2^28 + 65535 <= 2^36 - 2^27 and 65535 + 2^28*(2^36-2^27) < 2^64), both halves of the
 *   result are < 65521.
 *
 * ADLER_FUNC (harness adler32_base_func, BOUNDED in length only: loop contracts, length <= ADLER_BND):
 *   ret == SB[len] << 16 | SA[len] where (SA,SB) is the ghost fold of the per-byte definition
 *   spec_adler_a / spec_adler_b (RFC 1950), SA[0] = (adler32 & 0xffff) mod 65521,
 *   SB[0] = (adler32 >> 16) mod 65521 (for every value an Adler routine returns the mod is the identity).
 *   The unbounded version needs "(a + 65521*q) mod 65521 == a" for 47-bit q; CBMC's SAT and SMT
 *   back ends time out on it from 21 bits on (measured), see reg_crc.py PROP_TEXT.
 */
#ifndef ADLER_CONTRACTS_H
#define ADLER_CONTRACTS_H
#include "verif_common.h"
#include "spec_crc.h"

#define ADLER_MAXLEN 0x800000000000ULL /* 2^47 */
#define ADLER_CHUNK (1ULL << 28)       /* deferred-reduction schedule assumed by the overflow bounds */
#ifndef ADLER_BND
#define ADLER_BND 1024
#endif

extern uint32_t *SA, *SB;       /* ghost fold arrays (ADLER_FUNC) */
extern uint64_t g_len;
extern uint64_t w_a, w_b, w_idx; /* witnesses */
extern uint8_t w_byte;

#define ADLER_IDX(p) ((uint64_t) (__CPROVER_POINTER_OFFSET(p) - __CPROVER_POINTER_OFFSET(start)))
#define ADLER_FA(j) (65535ULL + (((j) << 8) - (j)))           /* 65535 + 255*j */
#define ADLER_FB(j) (65535ULL + ((((j) << 9) - (j)) << 27))   /* 65535 + j*(2^36 - 2^27) */
#define ADLER_PTR_REFRESH(p, e)                                                                    \
        __CPROVER_assert((p) == (e), "ghost refresh is the identity");                           \
        (p) = (e);

#if defined(ADLER_BAM1)
/* only the isal_adler32_bam1 contract (end of file) */
#elif !defined(ADLER_FUNC) && !defined(ADLER_CONG)
/* ------------------------------------------------------------------ safety / schedule / overflow */
#define C_adler32_base                                                                             \
        __CPROVER_requires(length <= ADLER_MAXLEN && g_len == length)                              \
        __CPROVER_requires(__CPROVER_is_fresh(start, length))                                      \
        __CPROVER_ensures((__CPROVER_return_value & 0xffff) < SPEC_ADLER_MOD)                      \
        __CPROVER_ensures((__CPROVER_return_value >> 16) < SPEC_ADLER_MOD)                         \
        __CPROVER_ensures(w_idx == g_len)                                                          \
        __CPROVER_assigns(w_idx, w_byte)
#define E_adler32_base                                                                             \
        uint64_t len0__ = length;                                                                  \
        w_idx = 0;
/* outer loop: whole chunks consumed so far, accumulators reduced */
#define L_adler32_base_1                                                                           \
        __CPROVER_assigns(length, next, end, A, B, w_idx, w_byte)                                  \
        __CPROVER_loop_invariant(length <= len0__ && next == start + (len0__ - length) &&          \
                                 w_idx == len0__ - length && A <= 65535 && B <= 65535)             \
        __CPROVER_decreases(length)
/* chunk loop: j = bytes of this chunk consumed; end is not assigned here, so end == chunk start + 2^28 */
#define ADLER_INNER(limit)                                                                         \
        __CPROVER_assigns(next, A, B, w_idx, w_byte)                                               \
        __CPROVER_loop_invariant(__CPROVER_same_object(next, start) &&                             \
                                 __CPROVER_POINTER_OFFSET(next) >= __CPROVER_POINTER_OFFSET(start) && \
                                 ADLER_IDX(next) >= len0__ - length &&                             \
                                 ADLER_IDX(next) <= len0__ - length + (limit) && w_idx == ADLER_IDX(next)) \
        __CPROVER_loop_invariant(A <= ADLER_FA(ADLER_IDX(next) - (len0__ - length)))               \
        __CPROVER_loop_invariant(B <= ADLER_FB(ADLER_IDX(next) - (len0__ - length)))               \
        __CPROVER_decreases(len0__ - length + (limit) - ADLER_IDX(next))
#define L_adler32_base_2 ADLER_INNER(ADLER_CHUNK)
#define L_adler32_base_3 ADLER_INNER(length)
#define H_adler32_base_1 VCANARY();
/* w_idx counts the bytes consumed; the hook asserts that the byte about to be read is byte number w_idx */
#define ADLER_HOOK                                                                                 \
        {                                                                                          \
                uint64_t i__ = ADLER_IDX(next);                                                    \
                ADLER_PTR_REFRESH(next, start + i__)                                               \
                __CPROVER_assert(i__ == w_idx, "bytes are consumed in order, each exactly once");  \
                w_byte = start[i__];                                                               \
                w_idx = i__ + 1;                                                                   \
                VCANARY();                                                                         \
        }
#define H_adler32_base_2 ADLER_HOOK
#define H_adler32_base_3 ADLER_HOOK

#elif defined(ADLER_CONG)
/* ------------------------------------------------------------------ congruence, every length <= 2^47
 * (harness adler32_base_congruence).  Same ghost fold (SA,SB) as ADLER_FUNC below, for every length and
 * through the 2^28 chunk loop.  Ghost state: qA (quotient of A), mA, mB (multiples of 65521), updated in the
 * hook by  cA = [SA[i]+byte >= 65521], cB = [SB[i]+SA[i+1] >= 65521],
 *          mB += mA + (cA+cB)*65521,  qA += cA,  mA += cA*65521.
 * Inside a chunk, after j >= 1 bytes:  A == SA[i] + mA,  mA == 65521*qA (written (q<<16)-(q<<4)+q),
 * qA <= 2 + j/256 (no wrap),  B == SB[i] + mB;  at a chunk start A - SA[i] and B - SB[i] are 0 or 65521.
 * Every step of both byte loops is proved for all states: each byte updates the accumulators exactly as
 * the per-byte definition does, up to the tracked multiples of 65521.  Limits, stated plainly:
 *  - that mB is a multiple of 65521 holds by construction of the ghost update (sum of mA's and 65521's);
 *    the formula mB == 65521*qB is NOT carried as an invariant (its step is a 4-operand linearity fact
 *    on which every SAT back end tried timed out; the 2-operand fact for mA closes);
 *  - that the reductions `X = X % 65521` map SA[i] + 65521*q to SA[i] (uniqueness of Euclidean division,
 *    q up to 2^47) is NOT proved here: these are the step obligations of the two "chunk start" clauses
 *    of loop 1 and the value postcondition; the registry entry excludes exactly those by name
 *    (kind='bounded' so that it is never counted as a proof); adler32_base_func(_1k) prove them for
 *    short inputs. */
#define ADLER_M 65521ULL
#define ADLER_MULM(q) ((((uint64_t) (q)) << 16) - (((uint64_t) (q)) << 4) + ((uint64_t) (q))) /* 65521*q */
#define C_adler32_base                                                                             \
        __CPROVER_requires(length <= ADLER_MAXLEN && g_len == length)                              \
        __CPROVER_requires(__CPROVER_is_fresh(start, length))                                      \
        __CPROVER_requires(__CPROVER_is_fresh(SA, (length + 1) * sizeof(uint32_t)) &&              \
                           SA[0] == (adler32 & 0xffff) % SPEC_ADLER_MOD)                           \
        __CPROVER_requires(__CPROVER_is_fresh(SB, (length + 1) * sizeof(uint32_t)) &&              \
                           SB[0] == (adler32 >> 16) % SPEC_ADLER_MOD)                              \
        __CPROVER_ensures(w_idx == g_len)                                                          \
        __CPROVER_ensures(__CPROVER_return_value == (SB[g_len] << 16 | SA[g_len]))                 \
        __CPROVER_assigns(w_a, w_b, w_idx, w_byte)
#define E_adler32_base                                                                             \
        uint64_t len0__ = length;                                                                  \
        uint64_t qA__ = 0, mA__ = 0, mB__ = 0; /* ghost quotient of A, ghost multiples of 65521 */  \
        w_idx = 0;
#define ADLER_BASE_IDX (len0__ - length)
#define L_adler32_base_1                                                                           \
        __CPROVER_assigns(length, next, end, A, B, qA__, mA__, mB__, w_a, w_b, w_idx, w_byte)            \
        __CPROVER_loop_invariant(length <= len0__ && next == start + ADLER_BASE_IDX &&             \
                                 w_idx == ADLER_BASE_IDX && A <= 65535 && B <= 65535 &&            \
                                 SA[ADLER_BASE_IDX] < ADLER_M && SB[ADLER_BASE_IDX] < ADLER_M)     \
        __CPROVER_loop_invariant(A == SA[ADLER_BASE_IDX] || A == SA[ADLER_BASE_IDX] + ADLER_M)     \
        __CPROVER_loop_invariant(B == SB[ADLER_BASE_IDX] || B == SB[ADLER_BASE_IDX] + ADLER_M)     \
        __CPROVER_decreases(length)
#define H_adler32_base_1 VCANARY();
#define ADLER_J (ADLER_IDX(next) - ADLER_BASE_IDX)
#define ADLER_INNER(limit)                                                                         \
        __CPROVER_assigns(next, A, B, qA__, mA__, mB__, w_a, w_b, w_idx, w_byte)                         \
        __CPROVER_loop_invariant(__CPROVER_same_object(next, start) &&                             \
                                 __CPROVER_POINTER_OFFSET(next) >= __CPROVER_POINTER_OFFSET(start) && \
                                 ADLER_IDX(next) >= ADLER_BASE_IDX &&                              \
                                 ADLER_IDX(next) <= ADLER_BASE_IDX + (limit) && w_idx == ADLER_IDX(next)) \
        __CPROVER_loop_invariant(SA[ADLER_IDX(next)] < ADLER_M && SB[ADLER_IDX(next)] < ADLER_M)   \
        __CPROVER_loop_invariant(A <= ADLER_FA(ADLER_J) && B <= ADLER_FB(ADLER_J))                 \
        __CPROVER_loop_invariant(ADLER_J == 0 ? (A == SA[ADLER_IDX(next)] || A == SA[ADLER_IDX(next)] + ADLER_M) \
                                              : (A == SA[ADLER_IDX(next)] + mA__))                 \
        __CPROVER_loop_invariant(ADLER_J == 0 ? (B == SB[ADLER_IDX(next)] || B == SB[ADLER_IDX(next)] + ADLER_M) \
                                              : (B == SB[ADLER_IDX(next)] + mB__))                 \
        /* mA is 65521 * (ghost quotient qA), without wrap-around */                                \
        __CPROVER_loop_invariant(ADLER_J == 0 || mA__ == ADLER_MULM(qA__))                         \
        __CPROVER_loop_invariant(ADLER_J == 0 || qA__ <= 2 + (ADLER_J >> 8))                       \
        __CPROVER_decreases(ADLER_BASE_IDX + (limit) - ADLER_IDX(next))
#define L_adler32_base_2 ADLER_INNER(ADLER_CHUNK)
#define L_adler32_base_3 ADLER_INNER(length)
#define ADLER_HOOK                                                                                 \
        {                                                                                          \
                uint64_t i__ = ADLER_IDX(next);                                                    \
                ADLER_PTR_REFRESH(next, start + i__)                                               \
                if (i__ == ADLER_BASE_IDX) { /* chunk start: quotients are 0 or 1 */               \
                        qA__ = (A == SA[i__]) ? 0 : 1;                                             \
                        mA__ = qA__ ? ADLER_M : 0;                                                 \
                        mB__ = (B == SB[i__]) ? 0 : ADLER_M;                                       \
                } else { /* identity re-assignments (asserted): turn the assumed equalities of the \
                            invariant into definitions, which the SAT solver handles far better */ \
                        ADLER_PTR_REFRESH(mA__, ADLER_MULM(qA__))                                  \
                }                                                                                  \
                uint32_t a__ = spec_adler_a(SA[i__], start[i__]);                                  \
                uint32_t b__ = spec_adler_b(SB[i__], a__);                                         \
                GHOST_AXIOM(SA[i__ + 1] == a__ && SB[i__ + 1] == b__);                             \
                {                                                                                  \
                        uint64_t cA__ = ((uint64_t) SA[i__] + start[i__] >= ADLER_M) ? 1 : 0;      \
                        uint64_t cB__ = ((uint64_t) SB[i__] + a__ >= ADLER_M) ? 1 : 0;             \
                        uint64_t c__ = cA__ + cB__; /* B' = B + A + byte: qB' = qB + qA + cA + cB */ \
                        mB__ = mB__ + mA__ + (c__ == 0 ? 0 : c__ == 1 ? ADLER_M : 2 * ADLER_M);    \
                        qA__ += cA__;                                                              \
                        mA__ += cA__ ? ADLER_M : 0;                                                \
                }                                                                                  \
                w_a = SA[i__];                                                                     \
                w_b = SB[i__];                                                                     \
                w_byte = start[i__];                                                               \
                w_idx = i__ + 1;                                                                   \
                VCANARY();                                                                         \
        }
#define H_adler32_base_2 ADLER_HOOK
#define H_adler32_base_3 ADLER_HOOK

#else
/* ------------------------------------------------------------------ functional equality, length <= ADLER_BND
 * Loop contracts with ghost quotients: A == SA[i] + 65521*qA, B == SB[i] + 65521*qB (qA, qB ghost locals
 * updated in the hook: qA += [SA[i]+byte >= 65521], qB += qA + [SB[i]+SA[i+1] >= 65521]).  The final
 * `A % 65521 == SA[len]` is uniqueness of Euclidean division, which the SAT back end only finds for small
 * quotients; the length bound keeps qB below 2^13.  The 2^28-chunk loops are not entered under the bound
 * (their invariants say so; a change that makes them reachable fails the L1 step obligation). */
#define ADLER_M 65521ULL
#define ADLER_FBB(j) (65535ULL + (j) * (65535ULL + 255ULL * ADLER_BND)) /* B bound under the length bound */
#define ADLER_QA_MAX ((65535ULL + 255ULL * ADLER_BND) / ADLER_M)
#define ADLER_QB_MAX (ADLER_FBB((uint64_t) ADLER_BND) / ADLER_M)
#define ADLER_MULM(q) ((((uint64_t) (q)) << 16) - (((uint64_t) (q)) << 4) + ((uint64_t) (q))) /* 65521*q = (2^16-2^4+1)*q */
#define C_adler32_base                                                                             \
        __CPROVER_requires(length <= ADLER_BND && g_len == length)                                 \
        __CPROVER_requires(__CPROVER_is_fresh(start, length))                                      \
        __CPROVER_requires(__CPROVER_is_fresh(SA, (length + 1) * sizeof(uint32_t)) &&              \
                           SA[0] == (adler32 & 0xffff) % SPEC_ADLER_MOD)                           \
        __CPROVER_requires(__CPROVER_is_fresh(SB, (length + 1) * sizeof(uint32_t)) &&              \
                           SB[0] == (adler32 >> 16) % SPEC_ADLER_MOD)                              \
        __CPROVER_ensures(__CPROVER_return_value == (SB[g_len] << 16 | SA[g_len]))                 \
        __CPROVER_assigns(w_a, w_b, w_idx, w_byte)
#define E_adler32_base                                                                             \
        uint64_t len0__ = length;                                                                  \
        uint64_t qA__ = (adler32 & 0xffff) >= ADLER_M ? 1 : 0;                                     \
        uint64_t qB__ = (adler32 >> 16) >= ADLER_M ? 1 : 0;
#define ADLER_ENTRY_STATE                                                                          \
        (length == len0__ && next == start && A == (adler32 & 0xffff) && B == (adler32 >> 16) &&   \
         qA__ == ((adler32 & 0xffff) >= ADLER_M ? 1 : 0) && qB__ == ((adler32 >> 16) >= ADLER_M ? 1 : 0))
#define L_adler32_base_1                                                                           \
        __CPROVER_assigns(length, next, end, A, B, qA__, qB__, w_a, w_b, w_idx, w_byte)            \
        __CPROVER_loop_invariant(ADLER_ENTRY_STATE)                                                \
        __CPROVER_decreases(length)
#define L_adler32_base_2                                                                           \
        __CPROVER_assigns(next, A, B, qA__, qB__, w_a, w_b, w_idx, w_byte)                         \
        __CPROVER_loop_invariant(__CPROVER_same_object(next, start) &&                             \
                                 __CPROVER_POINTER_OFFSET(next) <= __CPROVER_POINTER_OFFSET(end))  \
        __CPROVER_decreases(__CPROVER_POINTER_OFFSET(end) - __CPROVER_POINTER_OFFSET(next))
#define L_adler32_base_3                                                                           \
        __CPROVER_assigns(next, A, B, qA__, qB__, w_a, w_b, w_idx, w_byte)                         \
        __CPROVER_loop_invariant(__CPROVER_same_object(next, start) &&                             \
                                 __CPROVER_POINTER_OFFSET(next) >= __CPROVER_POINTER_OFFSET(start) && \
                                 ADLER_IDX(next) <= length && length == len0__)                    \
        __CPROVER_loop_invariant(SA[ADLER_IDX(next)] < ADLER_M && SB[ADLER_IDX(next)] < ADLER_M)   \
        __CPROVER_loop_invariant(A <= ADLER_FA(ADLER_IDX(next)) && B <= ADLER_FBB(ADLER_IDX(next))) \
        __CPROVER_loop_invariant(qA__ <= ADLER_QA_MAX && qB__ <= ADLER_QB_MAX)                     \
        __CPROVER_loop_invariant(A == SA[ADLER_IDX(next)] + ADLER_MULM(qA__))                      \
        __CPROVER_loop_invariant(B == SB[ADLER_IDX(next)] + ADLER_MULM(qB__))                      \
        __CPROVER_decreases(length - ADLER_IDX(next))
/* loops 1 and 2 run only for length > 2^28: not reachable within the bound, hence no canary there */
#define H_adler32_base_3                                                                           \
        {                                                                                          \
                uint64_t i__ = ADLER_IDX(next);                                                    \
                ADLER_PTR_REFRESH(next, start + i__)                                               \
                uint32_t a__ = spec_adler_a(SA[i__], start[i__]);                                  \
                uint32_t b__ = spec_adler_b(SB[i__], a__);                                         \
                GHOST_AXIOM(SA[i__ + 1] == a__ && SB[i__ + 1] == b__);                             \
                qA__ += ((uint64_t) SA[i__] + start[i__] >= ADLER_M) ? 1 : 0;                      \
                qB__ += qA__ + (((uint64_t) SB[i__] + a__ >= ADLER_M) ? 1 : 0);                    \
                w_a = SA[i__];                                                                     \
                w_b = SB[i__];                                                                     \
                w_idx = i__;                                                                       \
                w_byte = start[i__];                                                               \
                VCANARY();                                                                         \
        }
#endif

#ifdef ADLER_BAM1
/* ------------------------------------------------------------------ isal_adler32_bam1 (igzip/igzip.c)
 * Stored form is B<<16 | (A-1 mod 65521), so that the initial Adler value (A=1,B=0) is stored as 0 like a
 * CRC.  Loop-free relation to isal_adler32 (multibinary dispatch: ASSUMED contract below, which only
 * records the arguments and the result in ghost variables and states that both halves of the result are
 * reduced -- the fact proved for adler32_base).  Domain: stored low half < 65521. */
extern uint32_t w_ad_init, w_ad_ret;
extern uint64_t w_ad_len;
extern const unsigned char *w_ad_buf;
uint32_t
isal_adler32(uint32_t init, const unsigned char *buf, uint64_t len)
        /* ASSUMED (dispatched to adler32_base / adler32_sse / adler32_avx2_4) */
        __CPROVER_ensures(w_ad_init == init && w_ad_len == len && w_ad_buf == buf &&
                          w_ad_ret == __CPROVER_return_value)
        __CPROVER_ensures((__CPROVER_return_value & 0xffff) < SPEC_ADLER_MOD &&
                          (__CPROVER_return_value >> 16) < SPEC_ADLER_MOD)
        __CPROVER_assigns(w_ad_init, w_ad_ret, w_ad_len, w_ad_buf);
#define BAM1_LO(v) ((uint32_t) (v) & 0xffffu)
#define BAM1_HI(v) ((uint32_t) (v) & 0xffff0000u)
#define C_isal_adler32_bam1                                                                        \
        __CPROVER_requires(BAM1_LO(adler32) < SPEC_ADLER_MOD)                                      \
        /* the callee is started from the true Adler value: A = stored + 1 (mod 65521), same B */  \
        __CPROVER_ensures(w_ad_init == (BAM1_HI(adler32) | (BAM1_LO(adler32) + 1) % SPEC_ADLER_MOD)) \
        __CPROVER_ensures(w_ad_len == length && w_ad_buf == start)                                 \
        /* and its result is stored back as A - 1 (mod 65521), same B */                           \
        __CPROVER_ensures(__CPROVER_return_value ==                                                \
                          (BAM1_HI(w_ad_ret) | (BAM1_LO(w_ad_ret) + SPEC_ADLER_MOD - 1) % SPEC_ADLER_MOD)) \
        __CPROVER_ensures(BAM1_LO(__CPROVER_return_value) < SPEC_ADLER_MOD)                        \
        __CPROVER_assigns(w_ad_init, w_ad_ret, w_ad_len, w_ad_buf)
#endif

#endif
