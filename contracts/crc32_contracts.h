/* Contracts for crc/crc_base.c (property C04): crc16_t10dif_base, crc16_t10dif_copy_base,
 * crc32_iscsi_base, crc32_ieee_base, crc32_gzip_refl_base.
 *
 * Same fold representation as crc64_contracts.h: ghost array S of len+1 states, S[0] = init(seed);
 * the hook at the top of the real loop body adds S[i+1] == spec_step(S[i], buf0[i]) for the iteration
 * being executed (buf0 = value of the buffer pointer at function entry, snapshot by assignment in E_);
 * loop invariant: acc == S[i] and the moving pointer == buf0 + i; postcondition ret == fin(S[len]).
 *
 * Conventions (from include/crc.h and the catalogue of parametrised CRC algorithms; they are what the
 * base/post obligations pin):
 *   crc16_t10dif(_copy)  poly 0x8BB7 MSB first,  init = seed,  fin = crc    (CRC-16/T10-DIF with seed 0)
 *   crc32_iscsi          poly 0x1EDC6F41 LSB first, init = seed, fin = crc  (raw: caller inverts; CRC-32C)
 *   crc32_ieee           poly 0x04C11DB7 MSB first, init = ~seed, fin = ~crc
 *   crc32_gzip_refl      poly 0x04C11DB7 LSB first, init = ~seed, fin = ~crc (CRC-32/ISO-HDLC with seed 0)
 * Lengths: every uint64_t len <= 2^47 (pointer-offset width of the verifier, --object-bits 12 leaves
 * 52 bits; (len+1)*4 must fit as well); crc32_iscsi takes `int len`: every 0 <= len <= INT_MAX. */
#ifndef CRC32_CONTRACTS_H
#define CRC32_CONTRACTS_H
#include "verif_common.h"
#include "spec_crc.h"

#define CRC_MAXLEN 0x800000000000ULL /* 2^47 */

extern uint16_t *S16;            /* ghost fold arrays */
extern uint32_t *S32;
extern uint64_t g_len;           /* ghost copy of len */
extern uint64_t g_i;             /* ghost byte position (copy form) */
extern uint64_t w_state, w_next; /* witness variables for replay */
extern uint8_t w_byte;
extern uint8_t w_src_old;        /* src[g_i] at entry (copy form) */

/* Value-set refresh: after the loop-contract havoc a moving pointer is "any object" for the symbolic
 * executor, and a store through it is encoded as an update of every object (the copy form ran out of
 * memory).  The hook first ASSERTS that the pointer equals base + index (a proof obligation, it is the
 * invariant) and then assigns exactly that value, which is the identity on the program state. */
#define PTR_REFRESH(p, e)                                                                          \
        __CPROVER_assert((p) == (e), "pointer refresh is the identity");                           \
        (p) = (e);

#define CRC_WITNESS(st, by, nx)                                                                    \
        w_state = (st);                                                                            \
        w_byte = (by);                                                                             \
        w_next = (nx);

/* ------------------------------------------------------------------ crc16_t10dif_base */
#define C_crc16_t10dif_base                                                                        \
        __CPROVER_requires(len <= CRC_MAXLEN && g_len == len)                                      \
        __CPROVER_requires(__CPROVER_is_fresh(buf, len))                                           \
        __CPROVER_requires(__CPROVER_is_fresh(S16, (len + 1) * sizeof(uint16_t)) && S16[0] == seed) \
        __CPROVER_ensures(__CPROVER_return_value == S16[g_len])                                    \
        __CPROVER_assigns(w_state, w_next, w_byte)
#define E_crc16_t10dif_base uint8_t *buf0__ = buf;
#define L_crc16_t10dif_base_1                                                                      \
        __CPROVER_assigns(i, crc, buf, w_state, w_next, w_byte)                                    \
        __CPROVER_loop_invariant(0 <= i && i <= len && buf == buf0__ + i && crc == S16[i])         \
        __CPROVER_decreases(len - i)
#define H_crc16_t10dif_base_1                                                                      \
        PTR_REFRESH(buf, buf0__ + i)                                                               \
        {                                                                                          \
                uint16_t spec__ = spec_crc16_step_norm(POLY_CRC16_T10DIF, S16[i], buf0__[i]);      \
                GHOST_AXIOM(S16[i + 1] == spec__);                                                 \
                CRC_WITNESS(S16[i], buf0__[i], spec__)                                             \
                VCANARY();                                                                         \
        }

/* ------------------------------------------------------------------ crc16_t10dif_copy_base
 * additionally: dst[g_i] == src[g_i] for the ghost position g_i (arbitrary, so: for every position),
 * frame = dst[0..len) only, src[g_i] unchanged.  src and dst are separate objects (is_fresh). */
#define C_crc16_t10dif_copy_base                                                                   \
        __CPROVER_requires(len <= CRC_MAXLEN && g_len == len)                                      \
        __CPROVER_requires(__CPROVER_is_fresh(src, len))                                           \
        __CPROVER_requires(__CPROVER_is_fresh(dst, len))                                           \
        __CPROVER_requires(__CPROVER_is_fresh(S16, (len + 1) * sizeof(uint16_t)) && S16[0] == seed) \
        __CPROVER_ensures(__CPROVER_return_value == S16[g_len])                                    \
        __CPROVER_ensures(g_i < g_len ==> dst[g_i] == w_src_old)                                   \
        __CPROVER_ensures(g_i < g_len ==> src[g_i] == w_src_old)                                   \
        __CPROVER_assigns(w_state, w_next, w_byte, w_src_old, __CPROVER_object_upto(dst, len))
#define E_crc16_t10dif_copy_base                                                                   \
        uint8_t *src0__ = src, *dst0__ = dst;                                                      \
        w_src_old = (g_i < len) ? src[g_i] : 0;
#define L_crc16_t10dif_copy_base_1                                                                 \
        __CPROVER_assigns(i, crc, src, dst, w_state, w_next, w_byte, __CPROVER_object_whole(dst0__)) \
        __CPROVER_loop_invariant(0 <= i && i <= len && src == src0__ + i && dst == dst0__ + i)     \
        __CPROVER_loop_invariant(crc == S16[i])                                                    \
        __CPROVER_loop_invariant((g_i < len && g_i < i) ==> dst0__[g_i] == w_src_old)              \
        __CPROVER_decreases(len - i)
#define H_crc16_t10dif_copy_base_1                                                                 \
        PTR_REFRESH(src, src0__ + i)                                                               \
        PTR_REFRESH(dst, dst0__ + i)                                                               \
        {                                                                                          \
                uint16_t spec__ = spec_crc16_step_norm(POLY_CRC16_T10DIF, S16[i], src0__[i]);      \
                GHOST_AXIOM(S16[i + 1] == spec__);                                                 \
                CRC_WITNESS(S16[i], src0__[i], spec__)                                             \
                VCANARY();                                                                         \
        }

/* ------------------------------------------------------------------ crc32_iscsi_base
 * int len; negative len is outside the domain (buffer + len would leave the object). */
#define C_crc32_iscsi_base                                                                         \
        __CPROVER_requires(len >= 0 && g_len == (uint64_t) len)                                    \
        __CPROVER_requires(__CPROVER_is_fresh(buffer, (uint64_t) len))                             \
        __CPROVER_requires(__CPROVER_is_fresh(S32, ((uint64_t) len + 1) * sizeof(uint32_t)) &&     \
                           S32[0] == crc_init)                                                     \
        __CPROVER_ensures(__CPROVER_return_value == S32[g_len])                                    \
        __CPROVER_assigns(w_state, w_next, w_byte)
#define CRC32_PTR_IDX(p, base) ((uint64_t) (__CPROVER_POINTER_OFFSET(p) - __CPROVER_POINTER_OFFSET(base)))
#define L_crc32_iscsi_base_1                                                                       \
        __CPROVER_assigns(p_buf, crc, w_state, w_next, w_byte)                                     \
        __CPROVER_loop_invariant(__CPROVER_same_object(p_buf, buffer) &&                           \
                                 __CPROVER_POINTER_OFFSET(p_buf) >= __CPROVER_POINTER_OFFSET(buffer) && \
                                 CRC32_PTR_IDX(p_buf, buffer) <= (uint64_t) len)                   \
        __CPROVER_loop_invariant(crc == S32[CRC32_PTR_IDX(p_buf, buffer)])                         \
        __CPROVER_decreases((uint64_t) len - CRC32_PTR_IDX(p_buf, buffer))
#define H_crc32_iscsi_base_1                                                                       \
        {                                                                                          \
                uint64_t i__ = CRC32_PTR_IDX(p_buf, buffer);                                       \
                PTR_REFRESH(p_buf, buffer + i__)                                                   \
                uint32_t spec__ = spec_crc32_step_refl(POLY_CRC32_ISCSI_REFL, S32[i__], buffer[i__]); \
                GHOST_AXIOM(S32[i__ + 1] == spec__);                                               \
                CRC_WITNESS(S32[i__], buffer[i__], spec__)                                         \
                VCANARY();                                                                         \
        }

/* ------------------------------------------------------------------ crc32_ieee_base
 * `while (len--)`: len counts down and buf moves; position = len0 - len at the loop head and
 * len0 - len - 1 inside the body (len already decremented). */
#define C_crc32_ieee_base                                                                          \
        __CPROVER_requires(len <= CRC_MAXLEN && g_len == len)                                      \
        __CPROVER_requires(__CPROVER_is_fresh(buf, len))                                           \
        __CPROVER_requires(__CPROVER_is_fresh(S32, (len + 1) * sizeof(uint32_t)) && S32[0] == ~seed) \
        __CPROVER_ensures(__CPROVER_return_value == ~S32[g_len])                                   \
        __CPROVER_assigns(w_state, w_next, w_byte)
#define E_crc32_ieee_base                                                                          \
        uint8_t *buf0__ = buf;                                                                     \
        uint64_t len0__ = len;
#define L_crc32_ieee_base_1                                                                        \
        __CPROVER_assigns(len, buf, crc, w_state, w_next, w_byte)                                  \
        __CPROVER_loop_invariant(len <= len0__ && buf == buf0__ + (len0__ - len) &&                \
                                 crc == S32[len0__ - len])                                         \
        __CPROVER_decreases(len)
#define H_crc32_ieee_base_1                                                                        \
        {                                                                                          \
                uint64_t i__ = len0__ - len - 1;                                                   \
                PTR_REFRESH(buf, buf0__ + i__)                                                     \
                uint32_t spec__ = spec_crc32_step_norm(POLY_CRC32_IEEE, S32[i__], buf0__[i__]);    \
                GHOST_AXIOM(S32[i__ + 1] == spec__);                                               \
                CRC_WITNESS(S32[i__], buf0__[i__], spec__)                                         \
                VCANARY();                                                                         \
        }

/* ------------------------------------------------------------------ crc32_gzip_refl_base */
#define C_crc32_gzip_refl_base                                                                     \
        __CPROVER_requires(len <= CRC_MAXLEN && g_len == len)                                      \
        __CPROVER_requires(__CPROVER_is_fresh(buf, len))                                           \
        __CPROVER_requires(__CPROVER_is_fresh(S32, (len + 1) * sizeof(uint32_t)) && S32[0] == ~seed) \
        __CPROVER_ensures(__CPROVER_return_value == ~S32[g_len])                                   \
        __CPROVER_assigns(w_state, w_next, w_byte)
#define L_crc32_gzip_refl_base_1                                                                   \
        __CPROVER_assigns(p_buf, crc, w_state, w_next, w_byte)                                     \
        __CPROVER_loop_invariant(__CPROVER_same_object(p_buf, buf) &&                              \
                                 __CPROVER_POINTER_OFFSET(p_buf) >= __CPROVER_POINTER_OFFSET(buf) && \
                                 CRC32_PTR_IDX(p_buf, buf) <= len)                                 \
        __CPROVER_loop_invariant(crc == S32[CRC32_PTR_IDX(p_buf, buf)])                            \
        __CPROVER_decreases(len - CRC32_PTR_IDX(p_buf, buf))
#define H_crc32_gzip_refl_base_1                                                                   \
        {                                                                                          \
                uint64_t i__ = CRC32_PTR_IDX(p_buf, buf);                                          \
                PTR_REFRESH(p_buf, buf + i__)                                                      \
                uint32_t spec__ = spec_crc32_step_refl(POLY_CRC32_IEEE_REFL, S32[i__], buf[i__]);  \
                GHOST_AXIOM(S32[i__ + 1] == spec__);                                               \
                CRC_WITNESS(S32[i__], buf[i__], spec__)                                            \
                VCANARY();                                                                         \
        }
#endif
