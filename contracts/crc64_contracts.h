/* Contracts for crc/crc64_base.c (property C04).
 *
 * Fold representation (DESIGN.md 4.3): S is a ghost array of len+1 states, S[0] = init(seed); the
 * ghost statement H_<fn>_1 at the top of the real loop body adds the defining equation
 * S[i+1] == spec_step(S[i], buf[i]) for the iteration being executed; the loop invariant is
 * crc == S[i]; the postcondition is ret == fin(S[len]).  All eight crc64 variants use init = ~seed,
 * fin = ~crc (that convention is part of what is proved). */
#ifndef CRC64_CONTRACTS_H
#define CRC64_CONTRACTS_H
#include "verif_common.h"
#include "spec_crc.h"

extern uint64_t *S64;   /* ghost fold array */
extern uint64_t g_len;  /* ghost copy of len (scalars may be tied by ==) */
extern uint64_t w_state, w_next; /* witness variables for replay */
extern uint8_t w_byte;

#define CRC64_CONTRACT                                                                             \
        __CPROVER_requires(len <= 0xffffffffffffULL && g_len == len)                               \
        __CPROVER_requires(__CPROVER_is_fresh(buf, len))                                           \
        __CPROVER_requires(__CPROVER_is_fresh(S64, (len + 1) * sizeof(uint64_t)) && S64[0] == ~seed) \
        __CPROVER_ensures(__CPROVER_return_value == ~S64[g_len])                                   \
        __CPROVER_assigns(w_state, w_next, w_byte)
#define CRC64_LOOP                                                                                 \
        __CPROVER_assigns(i, crc, w_state, w_next, w_byte)                                         \
        __CPROVER_loop_invariant(i <= len && crc == S64[i])                                        \
        __CPROVER_decreases(len - i)
#define CRC64_HOOK(STEP, POLY)                                                                     \
        {                                                                                          \
                uint64_t spec__ = STEP(POLY, S64[i], buf[i]);                                      \
                GHOST_AXIOM(S64[i + 1] == spec__);                                                 \
                w_state = S64[i];                                                                  \
                w_byte = buf[i];                                                                   \
                w_next = spec__;                                                                   \
                VCANARY();                                                                         \
        }

#define C_crc64_ecma_refl_base CRC64_CONTRACT
#define L_crc64_ecma_refl_base_1 CRC64_LOOP
#define H_crc64_ecma_refl_base_1 CRC64_HOOK(spec_crc64_step_refl, POLY_CRC64_ECMA_REFL)
#define C_crc64_ecma_norm_base CRC64_CONTRACT
#define L_crc64_ecma_norm_base_1 CRC64_LOOP
#define H_crc64_ecma_norm_base_1 CRC64_HOOK(spec_crc64_step_norm, POLY_CRC64_ECMA)
#define C_crc64_iso_refl_base CRC64_CONTRACT
#define L_crc64_iso_refl_base_1 CRC64_LOOP
#define H_crc64_iso_refl_base_1 CRC64_HOOK(spec_crc64_step_refl, POLY_CRC64_ISO_REFL)
#define C_crc64_iso_norm_base CRC64_CONTRACT
#define L_crc64_iso_norm_base_1 CRC64_LOOP
#define H_crc64_iso_norm_base_1 CRC64_HOOK(spec_crc64_step_norm, POLY_CRC64_ISO)
#define C_crc64_jones_refl_base CRC64_CONTRACT
#define L_crc64_jones_refl_base_1 CRC64_LOOP
#define H_crc64_jones_refl_base_1 CRC64_HOOK(spec_crc64_step_refl, POLY_CRC64_JONES_REFL)
#define C_crc64_jones_norm_base CRC64_CONTRACT
#define L_crc64_jones_norm_base_1 CRC64_LOOP
#define H_crc64_jones_norm_base_1 CRC64_HOOK(spec_crc64_step_norm, POLY_CRC64_JONES)
#define C_crc64_rocksoft_refl_base CRC64_CONTRACT
#define L_crc64_rocksoft_refl_base_1 CRC64_LOOP
#define H_crc64_rocksoft_refl_base_1 CRC64_HOOK(spec_crc64_step_refl, POLY_CRC64_ROCKSOFT_REFL)
#define C_crc64_rocksoft_norm_base CRC64_CONTRACT
#define L_crc64_rocksoft_norm_base_1 CRC64_LOOP
#define H_crc64_rocksoft_norm_base_1 CRC64_HOOK(spec_crc64_step_norm, POLY_CRC64_ROCKSOFT)
#endif
