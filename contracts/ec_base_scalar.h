/* Contracts for the scalar GF(2^8) layer of erasure_code/ec_base.c (property C12).
 * C_<fn> is spliced in front of the body of <fn>, L_<fn>_<n> after the header of its n-th loop. */
#ifndef EC_BASE_SCALAR_H
#define EC_BASE_SCALAR_H
#include "verif_common.h"
#include "spec_gf.h"

/* gf_mul: field product for all 65536 operand pairs; writes nothing */
#define C_gf_mul                                                                                   \
        __CPROVER_ensures(__CPROVER_return_value == spec_gf_mul(a, b))                             \
        __CPROVER_assigns()

/* gf_inv: 0 -> 0, otherwise the multiplicative inverse */
#define C_gf_inv                                                                                   \
        __CPROVER_ensures(a == 0 ? __CPROVER_return_value == 0                                     \
                                 : spec_gf_mul(a, __CPROVER_return_value) == 1)                    \
        __CPROVER_assigns()

/* gf_vect_mul_init: the 32-byte expansion of c; ghost index g_ti in 0..15 */
extern unsigned g_ti;
#define C_gf_vect_mul_init                                                                         \
        __CPROVER_requires(__CPROVER_is_fresh(tbl, 32))                                            \
        __CPROVER_requires(g_ti < 16)                                                              \
        __CPROVER_ensures(tbl[g_ti] == spec_gf_mul(c, (unsigned char) g_ti))                       \
        __CPROVER_ensures(tbl[16 + g_ti] == spec_gf_mul(c, (unsigned char) (g_ti << 4)))           \
        __CPROVER_assigns(__CPROVER_object_upto(tbl, 32))

#endif
