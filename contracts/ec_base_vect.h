/* Contracts for the portable vector layer of erasure_code/ec_base.c
 *   C03: gf_vect_dot_prod_base, ec_encode_data_base   (encode = GF(2^8) matrix product)
 *   C13: gf_vect_mad_base, ec_encode_data_update_base, gf_vect_mul_base (incremental update)
 *   C12: ec_init_tables_base (placement of the 32-byte expansions)
 * gf_mul / gf_vect_mul_init are used through their proved contracts (ec_base_scalar.h).
 *
 * Ghost position: row g_l, byte g_i.  Fold over the sources (DESIGN.md 4.3): S_ec[0] = 0,
 * S_ec[j+1] = S_ec[j] ^ EC_TERM(src[j][g_i], v, g_l, srcs, j), one defining equation per executed
 * iteration of the real j-loop (GHOST_AXIOM in H_..._3 / H_..._2). */
#ifndef EC_BASE_VECT_H
#define EC_BASE_VECT_H
#include "verif_common.h"
#include "spec_gf.h"
#include "ec_base_scalar.h"

#ifdef VERIF_THOROUGH
#define EC_KMAX 8
#define EC_RMAX 4
#else
#define EC_KMAX 4
#define EC_RMAX 3
#endif

/* the coefficient the tables were built from sits at byte 1 of its 32-byte block (c*1);
 * block index = row*k + column */
#define EC_COEF(v, l, k, j) ((v)[((l) * (k) + (j)) * 32 + 1])
#define EC_TERM(byte, v, l, k, j) spec_gf_mul((byte), EC_COEF(v, l, k, j))

extern int g_l, g_i, g_srcs;
extern unsigned char *S_ec;                          /* ghost fold array, srcs+1 bytes */
extern unsigned char w_src[EC_KMAX], w_coef[EC_KMAX]; /* replay witnesses */
extern unsigned char w_old, w_term;
extern int g_b;                                      /* ghost table block */

#if EC_RMAX == 3
#define EC_DEST_OBJS(d) __CPROVER_object_whole((d)[0]), __CPROVER_object_whole((d)[1]), __CPROVER_object_whole((d)[2])
#else
#define EC_DEST_OBJS(d) __CPROVER_object_whole((d)[0]), __CPROVER_object_whole((d)[1]), __CPROVER_object_whole((d)[2]), __CPROVER_object_whole((d)[3])
#endif
/* CBMC dereferences a pointer that a loop contract havocked by a case split over every object of the
 * program (no value-set information survives the havoc): 60x larger formulas.  This ghost statement
 * first PROVES that the pointer already has the stated value and then re-assigns that same value,
 * which is a no-op in every execution in which the assertion holds; it only refreshes CBMC's points-to
 * information.  It is not an assumption. */
#define GHOST_SAME_VALUE(p, e)                                                                     \
        do {                                                                                       \
                __CPROVER_assert((p) == (e), "ghost: " #p " already equals " #e);                  \
                (p) = (e);                                                                         \
        } while (0)
/* canary inside loop hooks; switched off for the *_empty harnesses, whose loops never iterate */
#ifdef EC_NO_HOOK_CANARY
#define HCANARY() ((void) 0)
#else
#define HCANARY() VCANARY()
#endif
#define EC_GHOST_IN(rows, len) (0 <= g_l && g_l < (rows) && 0 <= g_i && g_i < (len))

/* ------------------------------------------------------------------ C03: ec_encode_data_base */
/* src / dest pointer arrays are built by the harness (srcs <= EC_KMAX, dests <= EC_RMAX, each block
 * exactly len bytes, unused dest slots alias a scratch block); v is exactly 32*srcs*dests bytes */
#define C_ec_encode_data_base                                                                      \
        __CPROVER_requires(0 <= len && 0 <= srcs && srcs <= EC_KMAX && 0 <= dests && dests <= EC_RMAX) \
        __CPROVER_requires(g_srcs == srcs)                                                         \
        __CPROVER_requires(__CPROVER_is_fresh(v, (size_t) 32 * srcs * dests))                      \
        __CPROVER_requires(__CPROVER_is_fresh(S_ec, srcs + 1) && S_ec[0] == 0)                     \
        __CPROVER_ensures(EC_GHOST_IN(dests, len) ==> dest[g_l][g_i] == S_ec[g_srcs])              \
        __CPROVER_assigns(EC_DEST_OBJS(dest), __CPROVER_object_whole(w_src), __CPROVER_object_whole(w_coef))
#define L_ec_encode_data_base_1                                                                    \
        __CPROVER_assigns(l, i, j, s, EC_DEST_OBJS(dest), __CPROVER_object_whole(w_src), __CPROVER_object_whole(w_coef)) \
        __CPROVER_loop_invariant(0 <= l && l <= dests)                                             \
        __CPROVER_loop_invariant((EC_GHOST_IN(dests, len) && g_l < l) ==> dest[g_l][g_i] == S_ec[srcs]) \
        __CPROVER_decreases(dests - l)
#define L_ec_encode_data_base_2                                                                    \
        __CPROVER_assigns(i, j, s, __CPROVER_object_whole(dest[l]), __CPROVER_object_whole(w_src), __CPROVER_object_whole(w_coef)) \
        __CPROVER_loop_invariant(0 <= i && i <= len)                                               \
        __CPROVER_loop_invariant((l == g_l && 0 <= g_i && g_i < i) ==> dest[g_l][g_i] == S_ec[srcs]) \
        __CPROVER_decreases(len - i)
#define L_ec_encode_data_base_3                                                                    \
        __CPROVER_assigns(j, s, __CPROVER_object_whole(w_src), __CPROVER_object_whole(w_coef))     \
        __CPROVER_loop_invariant(0 <= j && j <= srcs)                                              \
        __CPROVER_loop_invariant((l == g_l && i == g_i) ==> s == S_ec[j])                          \
        __CPROVER_decreases(srcs - j)
#define H_ec_encode_data_base_1 HCANARY();
#define H_ec_encode_data_base_2 HCANARY();
#define H_ec_encode_data_base_3                                                                    \
        if (l == g_l && i == g_i) {                                                                \
                unsigned char t__ = EC_TERM(src[j][g_i], v, g_l, srcs, j);                         \
                GHOST_AXIOM(S_ec[j + 1] == (unsigned char) (S_ec[j] ^ t__));                       \
                w_src[j] = src[j][g_i];                                                            \
                w_coef[j] = EC_COEF(v, g_l, srcs, j);                                              \
        }                                                                                          \
        HCANARY();

/* ---------------------------------------------------------------- C03: gf_vect_dot_prod_base */
/* one output row: coefficient j is v[j*32+1]; src[] built by the harness (vlen <= EC_KMAX) */
#define C_gf_vect_dot_prod_base                                                                    \
        __CPROVER_requires(0 <= len && 0 <= vlen && vlen <= EC_KMAX && g_srcs == vlen)             \
        __CPROVER_requires(__CPROVER_is_fresh(v, (size_t) 32 * vlen))                              \
        __CPROVER_requires(__CPROVER_is_fresh(dest, len))                                          \
        __CPROVER_requires(__CPROVER_is_fresh(S_ec, vlen + 1) && S_ec[0] == 0)                     \
        __CPROVER_ensures((0 <= g_i && g_i < len) ==> dest[g_i] == S_ec[g_srcs])                   \
        __CPROVER_assigns(__CPROVER_object_upto(dest, len), __CPROVER_object_whole(w_src), __CPROVER_object_whole(w_coef))
#define L_gf_vect_dot_prod_base_1                                                                  \
        __CPROVER_assigns(i, j, s, __CPROVER_object_upto(dest, len), __CPROVER_object_whole(w_src), __CPROVER_object_whole(w_coef)) \
        __CPROVER_loop_invariant(0 <= i && i <= len)                                               \
        __CPROVER_loop_invariant((0 <= g_i && g_i < i) ==> dest[g_i] == S_ec[vlen])                \
        __CPROVER_decreases(len - i)
#define L_gf_vect_dot_prod_base_2                                                                  \
        __CPROVER_assigns(j, s, __CPROVER_object_whole(w_src), __CPROVER_object_whole(w_coef))     \
        __CPROVER_loop_invariant(0 <= j && j <= vlen)                                              \
        __CPROVER_loop_invariant((i == g_i) ==> s == S_ec[j])                                      \
        __CPROVER_decreases(vlen - j)
#define H_gf_vect_dot_prod_base_1 HCANARY();
#define H_gf_vect_dot_prod_base_2                                                                  \
        if (i == g_i) {                                                                            \
                unsigned char t__ = EC_TERM(src[j][g_i], v, 0, vlen, j);                           \
                GHOST_AXIOM(S_ec[j + 1] == (unsigned char) (S_ec[j] ^ t__));                       \
                w_src[j] = src[j][g_i];                                                            \
                w_coef[j] = EC_COEF(v, 0, vlen, j);                                                \
        }                                                                                          \
        HCANARY();

/* --------------------------------------------------------------------- C13: gf_vect_mad_base */
/* dest[g_i] ^= src[g_i] * coefficient vec_i.  The ghost byte is required in range (len >= 1) so that
 * __CPROVER_old(dest[g_i]) is defined and the contract can be used by replacement in the lemmas;
 * len <= 0 is covered by harness gf_vect_mad_base_empty. */
#define C_gf_vect_mad_base                                                                         \
        __CPROVER_requires(0 <= g_i && g_i < len && 0 <= vec_i && vec_i < vec && vec <= 255)       \
        __CPROVER_requires(__CPROVER_is_fresh(v, (size_t) 32 * vec))                               \
        __CPROVER_requires(__CPROVER_is_fresh(src, len) && __CPROVER_is_fresh(dest, len))          \
        __CPROVER_ensures(dest[g_i] == (unsigned char) (__CPROVER_old(dest[g_i]) ^ EC_TERM(src[g_i], v, 0, vec, vec_i))) \
        __CPROVER_assigns(__CPROVER_object_upto(dest, len), w_old, w_term)
#define E_gf_vect_mad_base                                                                         \
        if (0 <= g_i && g_i < len) {                                                               \
                w_old = dest[g_i];                                                                 \
                w_term = EC_TERM(src[g_i], v, 0, vec, vec_i);                                      \
        }
#define L_gf_vect_mad_base_1                                                                       \
        __CPROVER_assigns(i, s, __CPROVER_object_upto(dest, len))                                  \
        __CPROVER_loop_invariant(0 <= i && i <= len)                                               \
        __CPROVER_loop_invariant(dest[g_i] == (g_i < i ? (unsigned char) (w_old ^ w_term) : w_old)) \
        __CPROVER_decreases(len - i)
#define H_gf_vect_mad_base_1 HCANARY();

/* ----------------------------------------------------------- C13: ec_encode_data_update_base */
#define C_ec_encode_data_update_base                                                               \
        __CPROVER_requires(EC_GHOST_IN(rows, len) && rows <= EC_RMAX && 0 <= vec_i && vec_i < k && k <= 255) \
        __CPROVER_requires(__CPROVER_is_fresh(v, (size_t) 32 * k * rows))                          \
        __CPROVER_requires(__CPROVER_is_fresh(data, len))                                          \
        __CPROVER_ensures(dest[g_l][g_i] ==                                                        \
                          (unsigned char) (__CPROVER_old(dest[g_l][g_i]) ^ EC_TERM(data[g_i], v, g_l, k, vec_i))) \
        __CPROVER_assigns(EC_DEST_OBJS(dest), w_old, w_term)
#define E_ec_encode_data_update_base                                                               \
        if (EC_GHOST_IN(rows, len)) {                                                              \
                w_old = dest[g_l][g_i];                                                            \
                w_term = EC_TERM(data[g_i], v, g_l, k, vec_i);                                     \
        }
#define L_ec_encode_data_update_base_1                                                             \
        __CPROVER_assigns(l, i, s, EC_DEST_OBJS(dest))                                             \
        __CPROVER_loop_invariant(0 <= l && l <= rows)                                              \
        __CPROVER_loop_invariant(dest[g_l][g_i] == (g_l < l ? (unsigned char) (w_old ^ w_term) : w_old)) \
        __CPROVER_decreases(rows - l)
#define L_ec_encode_data_update_base_2                                                             \
        __CPROVER_assigns(i, s, __CPROVER_object_whole(dest[l]))                                   \
        __CPROVER_loop_invariant(0 <= i && i <= len)                                               \
        __CPROVER_loop_invariant(dest[g_l][g_i] ==                                                 \
                                 ((g_l < l || (g_l == l && g_i < i)) ? (unsigned char) (w_old ^ w_term) : w_old)) \
        __CPROVER_decreases(len - i)
#define H_ec_encode_data_update_base_1 HCANARY();
#define H_ec_encode_data_update_base_2 HCANARY();

/* --------------------------------------------------------------------- C13: gf_vect_mul_base */
/* constant multiply: the constant is a[1]; len not a multiple of 32 -> -1 and nothing written */
#define EC_POS(n) ((n) > 0 ? (size_t) (n) : (size_t) 0)
#define C_gf_vect_mul_base                                                                         \
        __CPROVER_requires(len > -2147483647 - 1) /* `len--` on INT_MIN is signed overflow */      \
        __CPROVER_requires(__CPROVER_is_fresh(a, 32))                                              \
        __CPROVER_requires(__CPROVER_is_fresh(src, EC_POS(len)) && __CPROVER_is_fresh(dest, EC_POS(len))) \
        __CPROVER_ensures((len % 32 != 0) ==> __CPROVER_return_value == -1)                        \
        __CPROVER_ensures((len % 32 == 0) ==> __CPROVER_return_value == 0)                         \
        __CPROVER_ensures((len % 32 == 0 && 0 <= g_i && g_i < len) ==> dest[g_i] == spec_gf_mul(a[1], src[g_i])) \
        __CPROVER_assigns(len > 0 && len % 32 == 0 : __CPROVER_object_upto(dest, len); w_term)
#define E_gf_vect_mul_base                                                                         \
        unsigned char *const gh_d0 = dest, *const gh_s0 = src;                                     \
        const int gh_n0 = len;                                                                     \
        if (len % 32 == 0 && 0 <= g_i && g_i < len)                                                \
                w_term = spec_gf_mul(a[1], src[g_i]);
#define L_gf_vect_mul_base_1                                                                       \
        __CPROVER_assigns(len, dest, src, __CPROVER_object_whole(dest))                            \
        __CPROVER_loop_invariant(0 <= len && len <= __CPROVER_loop_entry(len))                     \
        __CPROVER_loop_invariant(dest == __CPROVER_loop_entry(dest) + (__CPROVER_loop_entry(len) - len)) \
        __CPROVER_loop_invariant(src == __CPROVER_loop_entry(src) + (__CPROVER_loop_entry(len) - len)) \
        __CPROVER_loop_invariant((0 <= g_i && g_i < __CPROVER_loop_entry(len) - len) ==>           \
                                 __CPROVER_loop_entry(dest)[g_i] == w_term)                        \
        __CPROVER_decreases(len)
#define H_gf_vect_mul_base_1                                                                       \
        GHOST_SAME_VALUE(dest, gh_d0 + (gh_n0 - len - 1));                                         \
        GHOST_SAME_VALUE(src, gh_s0 + (gh_n0 - len - 1));                                          \
        HCANARY();

/* ------------------------------------------------------------------ C12: ec_init_tables_base */
/* Block n of g_tbls is the 32-byte expansion of a[n] for every n < k*rows (n = i*k+j enumerates exactly
 * 0..k*rows-1, so this is the statement "block (i*k+j) expands a[i*k+j]").  Ghost block g_b, ghost
 * entry g_ti < 16.  The proof counts blocks with ghost locals (gh_n done, gh_rest = (rows-i)*k still to
 * come) so that the only non-linear fact the solver needs is (x-1)*k == x*k-k. */
#ifndef EC_TBL_MAX
#define EC_TBL_MAX 255
#endif
#define EC_TBL_IN (0 <= g_b && g_b < k * rows)
#define EC_TBL_LO(t) ((t)[(size_t) g_b * 32 + g_ti])
#define EC_TBL_HI(t) ((t)[(size_t) g_b * 32 + 16 + g_ti])
#define C_ec_init_tables_base                                                                      \
        __CPROVER_requires(0 <= k && k <= EC_TBL_MAX && 0 <= rows && rows <= EC_TBL_MAX && g_ti < 16)          \
        __CPROVER_requires(__CPROVER_is_fresh(a, (size_t) k * rows))                               \
        __CPROVER_requires(__CPROVER_is_fresh(g_tbls, (size_t) 32 * k * rows))                     \
        __CPROVER_ensures(EC_TBL_IN ==> EC_TBL_LO(g_tbls) == spec_gf_mul(a[g_b], (unsigned char) g_ti)) \
        __CPROVER_ensures(EC_TBL_IN ==> EC_TBL_HI(g_tbls) == spec_gf_mul(a[g_b], (unsigned char) (g_ti << 4))) \
        __CPROVER_assigns(__CPROVER_object_upto(g_tbls, (size_t) 32 * k * rows))
#define E_ec_init_tables_base                                                                      \
        unsigned char *const gh_a0 = a, *const gh_t0 = g_tbls; /* entry snapshots */               \
        const int gh_N = k * rows;                                                                 \
        int gh_n = 0, gh_rest = k * rows;                                                          \
        unsigned char gh_lo = 0, gh_hi = 0;                                                        \
        if (EC_TBL_IN) {                                                                           \
                gh_lo = spec_gf_mul(a[g_b], (unsigned char) g_ti);                                 \
                gh_hi = spec_gf_mul(a[g_b], (unsigned char) (g_ti << 4));                          \
        }
#define EC_TBL_DONE ((0 <= g_b && g_b < gh_n) ==> (EC_TBL_LO(gh_t0) == gh_lo && EC_TBL_HI(gh_t0) == gh_hi))
#define L_ec_init_tables_base_1                                                                    \
        __CPROVER_assigns(i, j, a, g_tbls, gh_n, gh_rest, __CPROVER_object_whole(gh_t0))           \
        __CPROVER_loop_invariant(0 <= i && i <= rows)                                              \
        __CPROVER_loop_invariant(0 <= gh_n && gh_n <= gh_N && 0 <= gh_rest && gh_rest <= gh_N)     \
        __CPROVER_loop_invariant(gh_n + gh_rest == gh_N && gh_rest == (rows - i) * k)              \
        __CPROVER_loop_invariant(a == gh_a0 + gh_n && g_tbls == gh_t0 + (size_t) 32 * gh_n)        \
        __CPROVER_loop_invariant(EC_TBL_DONE)                                                      \
        __CPROVER_decreases(rows - i)
#define H_ec_init_tables_base_1                                                                    \
        gh_rest -= k;                                                                              \
        HCANARY();
#define L_ec_init_tables_base_2                                                                    \
        __CPROVER_assigns(j, a, g_tbls, gh_n, __CPROVER_object_whole(gh_t0))                       \
        __CPROVER_loop_invariant(0 <= j && j <= k)                                                 \
        __CPROVER_loop_invariant(0 <= gh_n && gh_n <= gh_N && 0 <= gh_rest && gh_rest <= gh_N)     \
        __CPROVER_loop_invariant(gh_n + gh_rest + (k - j) == gh_N)                                 \
        __CPROVER_loop_invariant(a == gh_a0 + gh_n && g_tbls == gh_t0 + (size_t) 32 * gh_n)        \
        __CPROVER_loop_invariant(EC_TBL_DONE)                                                      \
        __CPROVER_decreases(k - j)
#define H_ec_init_tables_base_2                                                                    \
        GHOST_SAME_VALUE(a, gh_a0 + gh_n);                                                         \
        GHOST_SAME_VALUE(g_tbls, gh_t0 + (size_t) 32 * gh_n);                                      \
        gh_n++;                                                                                    \
        HCANARY();

#endif
