/* Contracts for the C row-batching glue of erasure_code/ec_highlevel_func.c (properties C03, C13) and for
 * ec_init_tables_gfni (C12/C03).
 *
 * Glue statement (DESIGN.md section 7, C03/C13): the kernels are assembly and get ASSUMED contracts
 * (stubs_ec_kernels.h).  PROVED about ec_encode_data_<isa> / ec_encode_data_update_<isa>, for every ghost
 * row g_l < rows, every 1 <= k <= 255, 0 <= rows <= 255, every len >= 0 (loop closed by contract):
 *   - len below the vector width of the ISA: exactly one call of the portable ec_encode_data[_update]_base
 *     with all arguments unchanged, no kernel call;
 *   - otherwise: no fallback call, and exactly one kernel call produces row g_l (g_hits == 1); that call
 *     uses the table g_tbls + g_l*k*STRIDE (g_hit_tbl) and the destination block coding[g_l] (g_hit_dst);
 *     every kernel call gets the caller's len, k, (vec_i,) data (stub requires, checked per call site),
 *     reads only slots inside coding[0..rows) and table bytes inside g_tbls[0 .. rows*k*STRIDE)
 *     (stub r_ok requires against exact is_fresh sizes), and a 1-row call writes one of the caller's blocks;
 *   - the glue itself writes nothing but ghost state (assigns clause).
 * The output blocks must be pairwise distinct (requires; stated for the ghost row). */
#ifndef EC_GLUE_H
#define EC_GLUE_H
#include <limits.h>
#include "verif_common.h"
#include "spec_gf.h"
#include "stubs_ec_kernels.h"

/* ---------------------------------------------------------------- glue */

/* ghost snapshots; runs as first statement of the function body */
#define EG_ENTRY                                                                                   \
        g_t0 = g_tbls;                                                                             \
        g_c0 = coding;                                                                             \
        g_data = (void *) data;                                                                    \
        g_dst = (g_l < rows) ? coding[g_l] : (unsigned char *) 0;                                  \
        g_hits = 0;                                                                                \
        g_base_calls = 0;

#define EG_TBL_MAX(STRIDE) ((size_t) EG_MAXROWS * 255 * (STRIDE))
#define EG_GHOSTS g_t0, g_c0, g_data, g_dst, g_hits, g_hit_tbl, g_base_calls

#ifdef EG_NOQ
#define EG_DISTINCT
#else
#define EG_DISTINCT                                                                                \
        __CPROVER_requires(__CPROVER_forall {                                                      \
                int r_;                                                                            \
                (0 <= r_ && r_ < EG_MAXROWS) ==>                                                   \
                        ((r_ < rows && g_l < rows && r_ != g_l) ==> coding[r_] != coding[g_l])     \
        })
#endif
#define EG_CONTRACT(STRIDE, THR, DATA_BYTES, EXTRA_REQ)                                            \
        __CPROVER_requires(0 <= len && 1 <= k && k <= 255 && 0 <= rows && rows <= EG_MAXROWS)      \
        __CPROVER_requires(0 <= g_l && g_l < EG_MAXROWS)                                           \
        __CPROVER_requires(g_len == len && g_k == k && g_rows == rows)                             \
        __CPROVER_requires(EXTRA_REQ)                                                              \
        __CPROVER_requires(g_toff == EG_PROD(g_l, k) * (STRIDE))                                   \
        __CPROVER_requires(g_tsize >= EG_TBL_MAX(STRIDE) && g_tsize <= 0xffffffffUL)              \
        __CPROVER_requires(__CPROVER_is_fresh(g_tbls, g_tsize))                                    \
        __CPROVER_requires(__CPROVER_is_fresh(data, (DATA_BYTES)))                                 \
        EG_DISTINCT                                                                                \
        __CPROVER_assigns(EG_GHOSTS)                                                               \
        __CPROVER_ensures(len < (THR) ==> (g_base_calls == 1 && g_hits == 0))                      \
        __CPROVER_ensures(len >= (THR) ==> g_base_calls == 0)                                      \
        __CPROVER_ensures((len >= (THR) && g_l < rows) ==> g_hits == 1)                            \
        __CPROVER_ensures((len >= (THR) && g_l < rows) ==>                                         \
                          g_hit_tbl == g_tbls + g_toff)

#define EG_ENC(STRIDE, THR) EG_CONTRACT(STRIDE, THR, (size_t) k * sizeof(*data), 1)
#define EG_UPD(STRIDE, THR)                                                                        \
        EG_CONTRACT(STRIDE, THR, (size_t) len, 0 <= vec_i && vec_i < k && g_vec_i == vec_i)

/* the batching loop: rows already handled = g_rows - rows */
#define EG_LOOP(STRIDE)                                                                            \
        __CPROVER_assigns(rows, g_tbls, coding, g_hits, g_hit_tbl)                                 \
        __CPROVER_loop_invariant(0 <= rows && rows <= g_rows)                                      \
        __CPROVER_loop_invariant(__CPROVER_same_object(coding, __CPROVER_loop_entry(coding)) &&    \
                                 __CPROVER_same_object(g_tbls, __CPROVER_loop_entry(g_tbls)))      \
        __CPROVER_loop_invariant(__CPROVER_POINTER_OFFSET(coding) ==                               \
                                 (size_t) (g_rows - rows) * sizeof(*coding))                       \
        __CPROVER_loop_invariant(__CPROVER_POINTER_OFFSET(g_tbls) <=                               \
                                 (size_t) (g_rows - rows) * (255 * (STRIDE)))                      \
        __CPROVER_loop_invariant(g_l >= g_rows - rows ==>                                          \
                                 __CPROVER_POINTER_OFFSET(g_tbls) +                                \
                                                 EG_PROD(g_l - (g_rows - rows), k) * (STRIDE) ==   \
                                         g_toff)                                                   \
        __CPROVER_loop_invariant(g_hits == ((g_l < g_rows - rows) ? 1 : 0))                        \
        __CPROVER_loop_invariant(g_l < g_rows - rows ==>                                           \
                                 g_hit_tbl == __CPROVER_loop_entry(g_tbls) + g_toff)               \
        __CPROVER_decreases(rows)
#define EG_HOOK                                                                                    \
        {                                                                                          \
                VCANARY();                                                                         \
        }

#define C_ec_encode_data_sse EG_ENC(32, 16)
#define E_ec_encode_data_sse EG_ENTRY
#define L_ec_encode_data_sse_1 EG_LOOP(32)
#define H_ec_encode_data_sse_1 EG_HOOK
#define C_ec_encode_data_avx EG_ENC(32, 16)
#define E_ec_encode_data_avx EG_ENTRY
#define L_ec_encode_data_avx_1 EG_LOOP(32)
#define H_ec_encode_data_avx_1 EG_HOOK
#define C_ec_encode_data_avx2 EG_ENC(32, 32)
#define E_ec_encode_data_avx2 EG_ENTRY
#define L_ec_encode_data_avx2_1 EG_LOOP(32)
#define H_ec_encode_data_avx2_1 EG_HOOK
#define C_ec_encode_data_avx512 EG_ENC(32, 64)
#define E_ec_encode_data_avx512 EG_ENTRY
#define L_ec_encode_data_avx512_1 EG_LOOP(32)
#define H_ec_encode_data_avx512_1 EG_HOOK
#define C_ec_encode_data_avx512_gfni EG_ENC(8, 0)
#define E_ec_encode_data_avx512_gfni EG_ENTRY
#define L_ec_encode_data_avx512_gfni_1 EG_LOOP(8)
#define H_ec_encode_data_avx512_gfni_1 EG_HOOK
#define C_ec_encode_data_avx2_gfni EG_ENC(8, 0)
#define E_ec_encode_data_avx2_gfni EG_ENTRY
#define L_ec_encode_data_avx2_gfni_1 EG_LOOP(8)
#define H_ec_encode_data_avx2_gfni_1 EG_HOOK

#define C_ec_encode_data_update_sse EG_UPD(32, 16)
#define E_ec_encode_data_update_sse EG_ENTRY
#define L_ec_encode_data_update_sse_1 EG_LOOP(32)
#define H_ec_encode_data_update_sse_1 EG_HOOK
#define C_ec_encode_data_update_avx EG_UPD(32, 16)
#define E_ec_encode_data_update_avx EG_ENTRY
#define L_ec_encode_data_update_avx_1 EG_LOOP(32)
#define H_ec_encode_data_update_avx_1 EG_HOOK
#define C_ec_encode_data_update_avx2 EG_UPD(32, 32)
#define E_ec_encode_data_update_avx2 EG_ENTRY
#define L_ec_encode_data_update_avx2_1 EG_LOOP(32)
#define H_ec_encode_data_update_avx2_1 EG_HOOK
#define C_ec_encode_data_update_avx512 EG_UPD(32, 64)
#define E_ec_encode_data_update_avx512 EG_ENTRY
#define L_ec_encode_data_update_avx512_1 EG_LOOP(32)
#define H_ec_encode_data_update_avx512_1 EG_HOOK
#define C_ec_encode_data_update_avx512_gfni EG_UPD(8, 0)
#define E_ec_encode_data_update_avx512_gfni EG_ENTRY
#define L_ec_encode_data_update_avx512_gfni_1 EG_LOOP(8)
#define H_ec_encode_data_update_avx512_gfni_1 EG_HOOK
#define C_ec_encode_data_update_avx2_gfni EG_UPD(8, 0)
#define E_ec_encode_data_update_avx2_gfni EG_ENTRY
#define L_ec_encode_data_update_avx2_gfni_1 EG_LOOP(8)
#define H_ec_encode_data_update_avx2_gfni_1 EG_HOOK

/* ---------------------------------------------------------------- ec_init_tables_gfni
 * For every coefficient position n = i*k + j < rows*k and every byte x: the 8-byte little-endian word n of
 * g_tbls is the GF2P8AFFINEQB matrix of "multiply by a[n]" (stated with the bit-level spec of the
 * instruction, spec_gf_affine, and the polynomial product spec_gf_mul -- not with the table the code reads);
 * frame: exactly 8*k*rows bytes of g_tbls; a is read-only. */
extern int g_n;             /* ghost coefficient position */
extern unsigned char g_x;   /* ghost multiplicand */
extern unsigned char *g_a0; /* a at entry (snapshot by assignment) */

#define C_ec_init_tables_gfni                                                                      \
        __CPROVER_requires(0 <= k && k <= 255 && 0 <= rows && rows <= EG_MAXROWS)                  \
        __CPROVER_requires(g_k == k && g_rows == rows && 0 <= g_n)                                 \
        __CPROVER_requires(__CPROVER_is_fresh(a, (size_t) k * (size_t) rows))                      \
        __CPROVER_requires(__CPROVER_is_fresh(g_tbls, 8 * (size_t) k * (size_t) rows))             \
        __CPROVER_assigns(g_a0; __CPROVER_object_upto(g_tbls, 8 * (size_t) k * (size_t) rows))     \
        __CPROVER_ensures(g_n < k * rows ==>                                                       \
                          spec_gf_affine(((uint64_t *) g_tbls)[g_n], g_x) == spec_gf_mul(a[g_n], g_x))
#define E_ec_init_tables_gfni g_a0 = a;
#define L_ec_init_tables_gfni_1                                                                    \
        __CPROVER_assigns(i, j, a, g64, __CPROVER_object_upto(g_tbls, 8 * (size_t) k * (size_t) rows)) \
        __CPROVER_loop_invariant(0 <= i && i <= rows)                                              \
        __CPROVER_loop_invariant(__CPROVER_same_object(a, g_a0) && __CPROVER_same_object(g64, g_tbls)) \
        __CPROVER_loop_invariant(__CPROVER_POINTER_OFFSET(a) == (size_t) i * (size_t) k)           \
        __CPROVER_loop_invariant(__CPROVER_POINTER_OFFSET(g64) == 8 * (size_t) i * (size_t) k)     \
        __CPROVER_loop_invariant(g_n < i * k ==>                                                   \
                                 ((uint64_t *) g_tbls)[g_n] == gf_table_gfni[g_a0[g_n]])           \
        __CPROVER_decreases(rows - i)
#define H_ec_init_tables_gfni_1 VCANARY();
#define L_ec_init_tables_gfni_2                                                                    \
        __CPROVER_assigns(j, a, g64, __CPROVER_object_upto(g_tbls, 8 * (size_t) k * (size_t) rows)) \
        __CPROVER_loop_invariant(0 <= j && j <= k)                                                 \
        __CPROVER_loop_invariant(__CPROVER_same_object(a, g_a0) && __CPROVER_same_object(g64, g_tbls)) \
        __CPROVER_loop_invariant(__CPROVER_POINTER_OFFSET(a) == (size_t) i * (size_t) k + (size_t) j) \
        __CPROVER_loop_invariant(__CPROVER_POINTER_OFFSET(g64) ==                                  \
                                 8 * ((size_t) i * (size_t) k + (size_t) j))                       \
        __CPROVER_loop_invariant(g_n < i * k + j ==>                                               \
                                 ((uint64_t *) g_tbls)[g_n] == gf_table_gfni[g_a0[g_n]])           \
        __CPROVER_decreases(k - j)
#define H_ec_init_tables_gfni_2 VCANARY();

#endif
