/* Contracts for the C row-batching glue of erasure_code/ec_highlevel_func.c (properties C03, C13) and for
 * ec_init_tables_gfni (C12/C03).
 *
 * Glue statement (DESIGN.md section 7, C03/C13): the kernels are assembly and get ASSUMED contracts
 * (stubs_ec_kernels.h).  PROVED about ec_encode_data_<isa> / ec_encode_data_update_<isa>, for every ghost
 * row g_l < rows, every 1 <= k <= 255, 0 <= rows <= 255, every len >= 0 (loop closed by contract):
 *   - len below the vector width of the ISA: exactly one call of the portable ec_encode_data[_update]_base
 *     with all six/seven arguments unchanged, no kernel call;
 *   - otherwise: no fallback call, and exactly one kernel call produces row g_l (g_hits == 1), into the
 *     destination block coding[g_l] (N-row kernels: by slot position; 1-row kernels: by pointer value);
 *     the table that call uses for row 0 is g_tbls, and the tables used for rows g_l and g_l+1 are exactly
 *     k*STRIDE bytes apart (STRIDE 32, or 8 for *_gfni)  ==>  by induction on the row (mechanised as the lemma
 *     harness eg_stride_lemma) the table of row r is g_tbls + r*k*STRIDE;
 *     every kernel call gets the caller's len, k, (vec_i,) data (stub requires, checked per call site),
 *     touches only slots inside coding[0..rows), and a 1-row call writes one of the caller's `rows` blocks;
 *     consequently every table block a kernel reads is g_tbls + r*k*STRIDE for an r < rows;
 *   - the glue itself writes nothing but ghost state (assigns clause).
 * Input shaping (harness): the pointer array has 256 slots with block r = g_arena + r, i.e. pairwise distinct
 * block pointers with a computable row (the glue never inspects or modifies block pointers, so any injective
 * choice is representative); only the first `rows` slots count: a use of a slot >= rows violates a stub
 * precondition.  The table object is at least 65536*STRIDE bytes (the glue never dereferences it; this only
 * keeps its pointer arithmetic inside one object; the exact bound rows*k*STRIDE follows from the statement).
 *
 * Why "row 0 + constant stride" instead of the closed form r*k*STRIDE in the contract: with the closed form
 * the invariant step needs (a+W)*k == a*k + W*k for symbolic a,k (25..230 s of SAT per harness, minisat /
 * cadical / kissat), and the form offset == done*k*STRIDE needs the three-variable distributive law, which
 * no back end closed in 20 min.  The stride form is linear; the one multiplication lemma is proved once. */
#ifndef EC_GLUE_H
#define EC_GLUE_H
#include <limits.h>
#include "verif_common.h"
#include "spec_gf.h"
#include "stubs_ec_kernels.h"

/* ---------------------------------------------------------------- glue */

/* ghost snapshots; runs as first statement of the function body */
#define EG_ENTRY                                                                                   \
        g_t0 = g_tbls;                                                                             \
        g_c0 = coding;                                                                             \
        g_data = (void *) data;                                                                    \
        g_hits = 0;                                                                                \
        g_base_calls = 0;

#define EG_TBL_MAX(STRIDE) ((size_t) 65536 * (STRIDE))
#define EG_GHOSTS g_t0, g_c0, g_data, g_hits, g_hit_tbl, g_hit_tbl2, g_base_calls
#define EG_DONE (g_rows - rows) /* rows already handled, inside the loop */
#define EG_S(STRIDE) ((size_t) k * (STRIDE)) /* table bytes per row */

#define EG_CONTRACT(STRIDE, THR, DATA_BYTES, EXTRA_REQ)                                            \
        __CPROVER_requires(0 <= len && 1 <= k && k <= 255 && 0 <= rows && rows <= EG_MAXROWS)      \
        __CPROVER_requires(0 <= g_l && g_l < EG_MAXROWS)                                           \
        __CPROVER_requires(g_len == len && g_k == k && g_rows == rows)                             \
        __CPROVER_requires(EXTRA_REQ)                                                              \
        __CPROVER_requires(g_tsize >= EG_TBL_MAX(STRIDE) && g_tsize <= 0xffffffffUL)               \
        __CPROVER_requires(__CPROVER_is_fresh(g_tbls, g_tsize))                                    \
        __CPROVER_requires(__CPROVER_is_fresh(data, (DATA_BYTES)))                                 \
        __CPROVER_assigns(EG_GHOSTS)                                                               \
        __CPROVER_ensures(len < (THR) ==> (g_base_calls == 1 && g_hits == 0))                      \
        __CPROVER_ensures(len >= (THR) ==> g_base_calls == 0)                                      \
        __CPROVER_ensures((len >= (THR) && g_l < rows) ==> g_hits == 1)                            \
        __CPROVER_ensures((len >= (THR) && g_l == 0 && 0 < rows) ==> g_hit_tbl == g_tbls)          \
        __CPROVER_ensures((len >= (THR) && g_l + 1 < rows) ==>                                     \
                          EG_PTR_AT(g_hit_tbl2, g_hit_tbl, EG_S(STRIDE)))

#define EG_ENC(STRIDE, THR) EG_CONTRACT(STRIDE, THR, (size_t) k * sizeof(*data), 1)
#define EG_UPD(STRIDE, THR)                                                                        \
        EG_CONTRACT(STRIDE, THR, (size_t) len, 0 <= vec_i && vec_i < k && g_vec_i == vec_i)

/* the batching loop */
#define EG_LOOP(STRIDE)                                                                            \
        __CPROVER_assigns(rows, g_tbls, coding, g_hits, g_hit_tbl, g_hit_tbl2)                     \
        __CPROVER_loop_invariant(0 <= rows && rows <= g_rows)                                      \
        __CPROVER_loop_invariant(__CPROVER_same_object(coding, __CPROVER_loop_entry(coding)) &&    \
                                 __CPROVER_same_object(g_tbls, __CPROVER_loop_entry(g_tbls)))      \
        __CPROVER_loop_invariant(__CPROVER_POINTER_OFFSET(coding) ==                               \
                                 (size_t) EG_DONE * sizeof(*coding))                               \
        __CPROVER_loop_invariant(__CPROVER_POINTER_OFFSET(g_tbls) <=                               \
                                 (size_t) EG_DONE * (255 * (STRIDE)))                              \
        __CPROVER_loop_invariant(EG_DONE == 0 ==> g_tbls == __CPROVER_loop_entry(g_tbls))          \
        __CPROVER_loop_invariant(g_hits == ((g_l < EG_DONE) ? 1 : 0))                              \
        __CPROVER_loop_invariant((g_l == 0 && 0 < EG_DONE) ==>                                     \
                                 g_hit_tbl == __CPROVER_loop_entry(g_tbls))                        \
        __CPROVER_loop_invariant(g_l + 1 < EG_DONE ==>                                             \
                                 EG_PTR_AT(g_hit_tbl2, g_hit_tbl, EG_S(STRIDE)))                   \
        __CPROVER_loop_invariant(g_l + 1 == EG_DONE ==> EG_PTR_AT(g_tbls, g_hit_tbl, EG_S(STRIDE))) \
        __CPROVER_decreases(rows)
#define EG_HOOK                                                                                    \
        {                                                                                          \
                VCANARY();                                                                         \
        }

#define C_ec_encode_data_sse EG_ENC(32, 16)
#define E_ec_encode_data_sse EG_ENTRY
#define L_ec_encode_data_sse_1 EG_LOOP(32)
#define H_ec_encode_data_sse_1 EG_HOOK
#define C_ec_encode_data_avx EG_ENC(32, 16)
#define E_ec_encode_data_avx EG_ENTRY
#define L_ec_encode_data_avx_1 EG_LOOP(32)
#define H_ec_encode_data_avx_1 EG_HOOK
#define C_ec_encode_data_avx2 EG_ENC(32, 32)
#define E_ec_encode_data_avx2 EG_ENTRY
#define L_ec_encode_data_avx2_1 EG_LOOP(32)
#define H_ec_encode_data_avx2_1 EG_HOOK
#define C_ec_encode_data_avx512 EG_ENC(32, 64)
#define E_ec_encode_data_avx512 EG_ENTRY
#define L_ec_encode_data_avx512_1 EG_LOOP(32)
#define H_ec_encode_data_avx512_1 EG_HOOK
#define C_ec_encode_data_avx512_gfni EG_ENC(8, 0)
#define E_ec_encode_data_avx512_gfni EG_ENTRY
#define L_ec_encode_data_avx512_gfni_1 EG_LOOP(8)
#define H_ec_encode_data_avx512_gfni_1 EG_HOOK
#define C_ec_encode_data_avx2_gfni EG_ENC(8, 0)
#define E_ec_encode_data_avx2_gfni EG_ENTRY
#define L_ec_encode_data_avx2_gfni_1 EG_LOOP(8)
#define H_ec_encode_data_avx2_gfni_1 EG_HOOK

#define C_ec_encode_data_update_sse EG_UPD(32, 16)
#define E_ec_encode_data_update_sse EG_ENTRY
#define L_ec_encode_data_update_sse_1 EG_LOOP(32)
#define H_ec_encode_data_update_sse_1 EG_HOOK
#define C_ec_encode_data_update_avx EG_UPD(32, 16)
#define E_ec_encode_data_update_avx EG_ENTRY
#define L_ec_encode_data_update_avx_1 EG_LOOP(32)
#define H_ec_encode_data_update_avx_1 EG_HOOK
#define C_ec_encode_data_update_avx2 EG_UPD(32, 32)
#define E_ec_encode_data_update_avx2 EG_ENTRY
#define L_ec_encode_data_update_avx2_1 EG_LOOP(32)
#define H_ec_encode_data_update_avx2_1 EG_HOOK
#define C_ec_encode_data_update_avx512 EG_UPD(32, 64)
#define E_ec_encode_data_update_avx512 EG_ENTRY
#define L_ec_encode_data_update_avx512_1 EG_LOOP(32)
#define H_ec_encode_data_update_avx512_1 EG_HOOK
#define C_ec_encode_data_update_avx512_gfni EG_UPD(8, 0)
#define E_ec_encode_data_update_avx512_gfni EG_ENTRY
#define L_ec_encode_data_update_avx512_gfni_1 EG_LOOP(8)
#define H_ec_encode_data_update_avx512_gfni_1 EG_HOOK
#define C_ec_encode_data_update_avx2_gfni EG_UPD(8, 0)
#define E_ec_encode_data_update_avx2_gfni EG_ENTRY
#define L_ec_encode_data_update_avx2_gfni_1 EG_LOOP(8)
#define H_ec_encode_data_update_avx2_gfni_1 EG_HOOK

/* ---------------------------------------------------------------- ec_init_tables_gfni
 * For every coefficient position n < rows*k and every byte x: the 8-byte little-endian word n of g_tbls is the
 * GF2P8AFFINEQB matrix of "multiply by a[n]" (stated with the bit-level spec of the instruction,
 * spec_gf_affine, and the polynomial product spec_gf_mul -- not with the table the code reads);
 * frame: exactly 8*k*rows bytes of g_tbls; a (exactly k*rows bytes) is read-only.
 * Invariants are written in "bytes remaining" form so that the only product identity needed is
 * x*k == (x-1)*k + k (entry of the inner loop); positions are pointer offsets, not i*k+j. */
extern size_t g_n;          /* ghost coefficient position */
extern size_t g_asize;      /* k*rows */
extern unsigned char g_x;   /* ghost multiplicand */
extern unsigned char *g_a0; /* a at entry (snapshot by assignment) */

#define EGI_FRAME __CPROVER_object_upto(g_tbls, g_asize * sizeof(uint64_t))
#define EGI_LOOP_FRAME __CPROVER_object_whole(g_tbls)
#define EGI_COMMON                                                                                 \
        __CPROVER_loop_invariant(__CPROVER_same_object(a, g_a0) &&                                 \
                                 __CPROVER_same_object(g64, g_t0))                                 \
        __CPROVER_loop_invariant(__CPROVER_POINTER_OFFSET(a) <= g_asize)                           \
        __CPROVER_loop_invariant(__CPROVER_POINTER_OFFSET(g64) == 8 * __CPROVER_POINTER_OFFSET(a)) \
        __CPROVER_loop_invariant(g_n < __CPROVER_POINTER_OFFSET(a) ==>                             \
                                 ((uint64_t *) g_tbls)[g_n] == gf_table_gfni[g_a0[g_n]])

#define C_ec_init_tables_gfni                                                                      \
        __CPROVER_requires(0 <= k && k <= 255 && 0 <= rows && rows <= EG_MAXROWS)                  \
        __CPROVER_requires(g_asize == EG_PROD(rows, k))                                            \
        __CPROVER_requires(__CPROVER_is_fresh(a, g_asize))                                         \
        __CPROVER_requires(__CPROVER_is_fresh(g_tbls, g_asize * sizeof(uint64_t)))                                \
        __CPROVER_assigns(g_a0, g_t0; EGI_FRAME)                                                         \
        __CPROVER_ensures(g_n < g_asize ==>                                                        \
                          spec_gf_affine(((uint64_t *) g_tbls)[g_n], g_x) == spec_gf_mul(a[g_n], g_x))
#define E_ec_init_tables_gfni                                                                      \
        g_a0 = a;                                                                                  \
        g_t0 = g_tbls;
#define L_ec_init_tables_gfni_1                                                                    \
        __CPROVER_assigns(i, j, a, g64, EGI_LOOP_FRAME)                                                 \
        __CPROVER_loop_invariant(0 <= i && i <= rows)                                              \
        EGI_COMMON                                                                                 \
        __CPROVER_loop_invariant(g_asize - __CPROVER_POINTER_OFFSET(a) == EG_PROD(rows - i, k))    \
        __CPROVER_decreases(rows - i)
#define H_ec_init_tables_gfni_1 VCANARY();
#define L_ec_init_tables_gfni_2                                                                    \
        __CPROVER_assigns(j, a, g64, EGI_LOOP_FRAME)                                                    \
        __CPROVER_loop_invariant(0 <= j && j <= k)                                                 \
        EGI_COMMON                                                                                 \
        __CPROVER_loop_invariant(g_asize - __CPROVER_POINTER_OFFSET(a) ==                          \
                                 EG_PROD(rows - i - 1, k) + (size_t) (k - j))                      \
        __CPROVER_decreases(k - j)
/* Re-anchoring: after the loop-contract havoc CBMC no longer knows which object a and g64 point into and a
 * dereference fans out over every object of the program (136 M clauses).  The two assignments below are
 * identities -- asserted first, so they are proved not to change the program state -- that restore the
 * value sets from the entry snapshots. */
#define H_ec_init_tables_gfni_2                                                                    \
        {                                                                                          \
                size_t oa_ = __CPROVER_POINTER_OFFSET(a), og_ = __CPROVER_POINTER_OFFSET(g64);     \
                unsigned char *ra_ = g_a0 + oa_;                                                   \
                uint64_t *rg_ = (uint64_t *) (g_t0 + og_);                                         \
                __CPROVER_assert(a == ra_ && g64 == rg_, "ghost re-anchoring is the identity");    \
                a = ra_;                                                                           \
                g64 = rg_;                                                                         \
                VCANARY();                                                                         \
        }

#endif
