/* Contracts for the matrix layer of erasure_code/ec_base.c (property C09):
 *   gf_gen_cauchy1_matrix, gf_gen_rs_matrix  -- documented coefficient formulas, identity top block
 *   gf_invert_matrix                         -- memory safety, frame, termination, return codes
 * gf_mul / gf_inv are used through their proved contracts (ec_base_scalar.h).
 *
 * Ghost cell (g_r, g_c).  Non-linear index arithmetic (r*k+c) is what SAT is worst at, so the proofs
 * carry ghost counters that advance linearly and relate them to the ghost cell through ONE product
 * each ("distance" invariants): the solver then only needs (x+1)*k == x*k+k and |x*k| >= k for |x| >= 1. */
#ifndef EC_MATRIX_H
#define EC_MATRIX_H
#include "verif_common.h"
#include "spec_gf.h"
#include "ec_base_scalar.h"

/* a^254 = a^-1 in GF(2^8)* (Lagrange), 0 for a = 0; loop-free square-and-multiply */
static inline unsigned char
spec_gf_inv(unsigned char a)
{
        unsigned char a2 = spec_gf_mul(a, a);
        unsigned char a4 = spec_gf_mul(a2, a2);
        unsigned char a8 = spec_gf_mul(a4, a4);
        unsigned char a16 = spec_gf_mul(a8, a8);
        unsigned char a32 = spec_gf_mul(a16, a16);
        unsigned char a64 = spec_gf_mul(a32, a32);
        unsigned char a128 = spec_gf_mul(a64, a64);
        unsigned char r1 = spec_gf_mul(a2, a4);
        unsigned char r2 = spec_gf_mul(r1, a8);
        unsigned char r3 = spec_gf_mul(r2, a16);
        unsigned char r4 = spec_gf_mul(r3, a32);
        unsigned char r5 = spec_gf_mul(r4, a64);
        unsigned char r6 = spec_gf_mul(r5, a128);
        return r6;
}

/* 2^e for e in 0..254 (x is the generator 2 = 0x02), loop-free square-and-multiply */
static inline unsigned char
spec_gf_pow2(unsigned e)
{
        unsigned char c0 = 2;
        unsigned char c1 = spec_gf_mul(c0, c0);
        unsigned char c2 = spec_gf_mul(c1, c1);
        unsigned char c3 = spec_gf_mul(c2, c2);
        unsigned char c4 = spec_gf_mul(c3, c3);
        unsigned char c5 = spec_gf_mul(c4, c4);
        unsigned char c6 = spec_gf_mul(c5, c5);
        unsigned char c7 = spec_gf_mul(c6, c6);
        unsigned char r0 = (e & 1) ? c0 : 1;
        unsigned char r1 = (e & 2) ? spec_gf_mul(r0, c1) : r0;
        unsigned char r2 = (e & 4) ? spec_gf_mul(r1, c2) : r1;
        unsigned char r3 = (e & 8) ? spec_gf_mul(r2, c3) : r2;
        unsigned char r4 = (e & 16) ? spec_gf_mul(r3, c4) : r3;
        unsigned char r5 = (e & 32) ? spec_gf_mul(r4, c5) : r4;
        unsigned char r6 = (e & 64) ? spec_gf_mul(r5, c6) : r5;
        unsigned char r7 = (e & 128) ? spec_gf_mul(r6, c7) : r6;
        return r7;
}

#ifdef ISAL_VERIF
extern int g_r, g_c; /* ghost cell */
extern int g_n;      /* ghost copy of n (gf_invert_matrix) */

/* see ec_base_vect.h: proves equality, then re-assigns the same value to refresh points-to info */
#ifndef GHOST_SAME_VALUE
#define GHOST_SAME_VALUE(p, e)                                                                     \
        do {                                                                                       \
                __CPROVER_assert((p) == (e), "ghost: " #p " already equals " #e);                  \
                (p) = (e);                                                                         \
        } while (0)
#endif

/* ghost table gh_pow[t] = 2^t, t = 0..254, by the definition of a power (t-fold product) */
#define GP1(t) gh_pow[(t) + 1] = spec_gf_mul(gh_pow[(t)], 2);
#define GP2(t) GP1(t) GP1((t) + 1)
#define GP4(t) GP2(t) GP2((t) + 2)
#define GP8(t) GP4(t) GP4((t) + 4)
#define GP16(t) GP8(t) GP8((t) + 8)
#define GP32(t) GP16(t) GP16((t) + 16)
#define GP64(t) GP32(t) GP32((t) + 32)
#define GP128(t) GP64(t) GP64((t) + 64)
#define GHOST_POW2_TABLE                                                                           \
        unsigned char gh_pow[255];                                                                 \
        gh_pow[0] = 1;                                                                             \
        GP128(0) GP64(128) GP32(192) GP16(224) GP8(240) GP4(248) GP2(252)

/* -------------------------------------------------------- common shape of the two generators */
/* m x k matrix, k <= m <= 256 (a row index must fit the field: the code uses (unsigned char)(i ^ j),
 * and m < k would write the identity past the array); exact buffer of m*k bytes */
#ifndef MX_MMAX
#define MX_MMAX 256
#endif
#ifndef MX_KMAX
#define MX_KMAX 256
#endif
#define MX_IN (0 <= g_r && g_r < m && 0 <= g_c && g_c < k)
#define MX_CELL a[g_r * k + g_c]
#define MX_REQ                                                                                     \
        __CPROVER_requires(0 <= k && k <= m && m <= MX_MMAX && k <= MX_KMAX)                       \
        __CPROVER_requires(__CPROVER_is_fresh(a, (size_t) m * k))
#define MX_ENS_TOP __CPROVER_ensures((MX_IN && g_r < k) ==> MX_CELL == (g_r == g_c ? 1 : 0))
/* ghost locals common to both: gh_gr / gh_gb flat index of the ghost row / cell; gh_n = flat position
 * of the walk (row start k*i in loop 1 and loop 2, element k*i+j in loop 3); gh_rest = (m-i)*k elements
 * still to come.  All advance linearly in the hooks. */
#define MX_GHOST_LOCALS                                                                            \
        const int gh_in = MX_IN;                                                                   \
        const int gh_gr = gh_in ? g_r * k : 0;                                                     \
        const int gh_gb = gh_gr + (gh_in ? g_c : 0);                                               \
        int gh_n = 0, gh_rest = m * k;
#define MX_BOUNDS (0 <= gh_n && gh_n <= m * k && 0 <= gh_rest && gh_rest <= m * k)
#define MX_TOP_KEPT ((gh_in && g_r < k) ==> a[gh_gb] == (g_r == g_c ? 1 : 0))
/* loop 1: for (i = 0; i < k; i++) a[k * i + i] = 1;   (hook runs first: the body writes row gh_n - k) */
#define MX_LOOP1                                                                                   \
        __CPROVER_assigns(i, gh_n, gh_rest, __CPROVER_object_whole(a))                             \
        __CPROVER_loop_invariant(0 <= i && i <= k)                                                 \
        __CPROVER_loop_invariant(MX_BOUNDS)                                                        \
        __CPROVER_loop_invariant(gh_n == k * i && gh_n + gh_rest == m * k && gh_rest == (m - i) * k) \
        __CPROVER_loop_invariant(gh_in ==> gh_gr - gh_n == (g_r - i) * k)                          \
        __CPROVER_loop_invariant((gh_in && g_r < k) ==> a[gh_gb] == ((g_r == g_c && g_r < i) ? 1 : 0)) \
        __CPROVER_decreases(k - i)
#define MX_HOOK1                                                                                   \
        gh_n += k;                                                                                 \
        gh_rest -= k;                                                                              \
        VCANARY();
/* loops 2/3 walk rows k..m-1 in flat order */
#define MX_LOOP2_COMMON                                                                            \
        __CPROVER_loop_invariant(k <= i && i <= m)                                                 \
        __CPROVER_loop_invariant(MX_BOUNDS)                                                        \
        __CPROVER_loop_invariant(gh_n + gh_rest == m * k && gh_rest == (m - i) * k)                \
        __CPROVER_loop_invariant(gh_in ==> gh_gr - gh_n == (g_r - i) * k)                          \
        __CPROVER_loop_invariant(MX_TOP_KEPT)
#define MX_LOOP3_COMMON                                                                            \
        __CPROVER_loop_invariant(0 <= j && j <= k)                                                 \
        __CPROVER_loop_invariant(MX_BOUNDS)                                                        \
        __CPROVER_loop_invariant(gh_n + gh_rest + (k - j) == m * k)                                \
        __CPROVER_loop_invariant(gh_in ==> gh_gr - gh_n == (g_r - i) * k - j)                      \
        __CPROVER_loop_invariant(MX_TOP_KEPT)

/* ------------------------------------------------------------------ gf_gen_cauchy1_matrix */
/* rows >= k: a[r*k+c] is the inverse of (r xor c) (non-zero because c < k <= r <= 255) */
#define C_gf_gen_cauchy1_matrix                                                                    \
        MX_REQ                                                                                     \
        MX_ENS_TOP                                                                                 \
        __CPROVER_ensures((MX_IN && g_r >= k) ==> spec_gf_mul((unsigned char) (g_r ^ g_c), MX_CELL) == 1) \
        __CPROVER_assigns(__CPROVER_object_upto(a, (size_t) m * k))
#define E_gf_gen_cauchy1_matrix                                                                    \
        MX_GHOST_LOCALS                                                                            \
        const unsigned char gh_inv = spec_gf_inv((unsigned char) (g_r ^ g_c));
#define L_gf_gen_cauchy1_matrix_1 MX_LOOP1
#define H_gf_gen_cauchy1_matrix_1 MX_HOOK1
#define CAUCHY_DONE(cond) ((gh_in && g_r >= k && (cond)) ==> a[gh_gb] == gh_inv)
#define L_gf_gen_cauchy1_matrix_2                                                                  \
        __CPROVER_assigns(i, j, p, gh_n, gh_rest, __CPROVER_object_whole(a))                       \
        MX_LOOP2_COMMON                                                                            \
        __CPROVER_loop_invariant(p == a + gh_n)                                                    \
        __CPROVER_loop_invariant(CAUCHY_DONE(g_r < i))                                             \
        __CPROVER_decreases(m - i)
#define H_gf_gen_cauchy1_matrix_2                                                                  \
        gh_rest -= k;                                                                              \
        VCANARY();
#define L_gf_gen_cauchy1_matrix_3                                                                  \
        __CPROVER_assigns(j, p, gh_n, __CPROVER_object_whole(a))                                   \
        MX_LOOP3_COMMON                                                                            \
        __CPROVER_loop_invariant(p == a + gh_n)                                                    \
        __CPROVER_loop_invariant(CAUCHY_DONE(g_r < i || (g_r == i && g_c < j)))                    \
        __CPROVER_decreases(k - j)
#define H_gf_gen_cauchy1_matrix_3                                                                  \
        GHOST_SAME_VALUE(p, a + gh_n);                                                             \
        gh_n++;                                                                                    \
        VCANARY();

/* ----------------------------------------------------------------------- gf_gen_rs_matrix */
/* rows >= k: a[r*k+c] = (2^(r-k))^c = 2^((r-k)*c mod 255)   (2 has order 255 in GF(2^8)*) */
#define RS_EXP(r, c) ((unsigned) ((((r) - k) * (c)) % 255))
#define C_gf_gen_rs_matrix                                                                         \
        MX_REQ                                                                                     \
        MX_ENS_TOP                                                                                 \
        __CPROVER_ensures((MX_IN && g_r >= k) ==> MX_CELL == spec_gf_pow2(RS_EXP(g_r, g_c)))       \
        __CPROVER_assigns(__CPROVER_object_upto(a, (size_t) m * k))
#define E_gf_gen_rs_matrix                                                                         \
        MX_GHOST_LOCALS                                                                            \
        GHOST_POW2_TABLE                                                                           \
        const unsigned char gh_val = (gh_in && g_r >= k) ? gh_pow[RS_EXP(g_r, g_c)] : 0;           \
        int gh_e = 0, gh_eprev = 0;
#define L_gf_gen_rs_matrix_1 MX_LOOP1
#define H_gf_gen_rs_matrix_1 MX_HOOK1
#define RS_DONE(cond) ((gh_in && g_r >= k && (cond)) ==> a[gh_gb] == gh_val)
#define L_gf_gen_rs_matrix_2                                                                       \
        __CPROVER_assigns(i, j, p, gen, gh_n, gh_rest, gh_e, gh_eprev, __CPROVER_object_whole(a))  \
        MX_LOOP2_COMMON                                                                            \
        __CPROVER_loop_invariant(gh_n == k * i)                                                    \
        __CPROVER_loop_invariant(gen == gh_pow[(i - k) % 255])                                     \
        __CPROVER_loop_invariant(RS_DONE(g_r < i))                                                 \
        __CPROVER_decreases(m - i)
#define H_gf_gen_rs_matrix_2                                                                       \
        gh_rest -= k;                                                                              \
        gh_e = 0;                                                                                  \
        VCANARY();
#define L_gf_gen_rs_matrix_3                                                                       \
        __CPROVER_assigns(j, p, gh_n, gh_e, gh_eprev, __CPROVER_object_whole(a))                   \
        MX_LOOP3_COMMON                                                                            \
        __CPROVER_loop_invariant(gh_n == k * i + j)                                                \
        __CPROVER_loop_invariant(0 <= gh_e && gh_e < 255 && gh_e == ((i - k) * j) % 255 && p == gh_pow[gh_e]) \
        __CPROVER_loop_invariant(RS_DONE(g_r < i || (g_r == i && g_c < j)))                        \
        __CPROVER_decreases(k - j)
#define H_gf_gen_rs_matrix_3                                                                       \
        gh_n++;                                                                                    \
        gh_eprev = gh_e;                                                                           \
        gh_e = (gh_e + (i - k) % 255) % 255;                                                       \
        VCANARY();

/* ----------------------------------------------------------------------- gf_invert_matrix */
/* Proved for every n <= 128 and every content: memory safety (each of the i*n+k accesses stays inside
 * the two n*n arrays), frame = the two arrays, termination of all eight loops, result is 0 or -1.
 * The functional statement (in x out == I, -1 iff singular) is NOT inductive here; it is checked by the
 * bounded harness gf_invert_matrix_func.
 * Row starts are tracked by ghost counters that advance by n (gh_x == x*n, gh_xl == (n-x)*n); the hook
 * runs at the top of the body, so inside the body of the loop over x the row start is gh_x - n. */
#ifndef INV_NMAX
#define INV_NMAX 128
#endif
#define INV_ROWCTR(x, c, cl)                                                                       \
        (0 <= (x) && (x) <= n && 0 <= c && c <= gh_nn && 0 <= cl && cl <= gh_nn && c == (x) * n &&       \
         c + cl == gh_nn && cl == (n - (x)) * n)
#define C_gf_invert_matrix                                                                         \
        __CPROVER_requires(0 <= n && n <= INV_NMAX && g_n == n)                                        \
        __CPROVER_requires(__CPROVER_is_fresh(in_mat, (size_t) n * n))                             \
        __CPROVER_requires(__CPROVER_is_fresh(out_mat, (size_t) n * n))                            \
        __CPROVER_ensures(__CPROVER_return_value == 0 || __CPROVER_return_value == -1)             \
        __CPROVER_assigns(__CPROVER_object_upto(in_mat, (size_t) n * n), __CPROVER_object_upto(out_mat, (size_t) n * n))
#define E_gf_invert_matrix                                                                         \
        const int gh_nn = n * n;                                                                   \
        int gh_i = 0, gh_il = n * n, gh_r = 0, gh_rl = n * n;                                      \
        int gh_j = 0, gh_jl = 0, gh_j7 = 0, gh_j7l = 0;
#define INV_OBJS __CPROVER_object_whole(in_mat), __CPROVER_object_whole(out_mat)
#define L_gf_invert_matrix_1                                                                       \
        __CPROVER_assigns(i, __CPROVER_object_whole(out_mat))                                      \
        __CPROVER_loop_invariant(0 <= i && i <= n * n)                                             \
        __CPROVER_decreases(n * n - i)
#define H_gf_invert_matrix_1
#define L_gf_invert_matrix_2                                                                       \
        __CPROVER_assigns(i, gh_i, gh_il, __CPROVER_object_whole(out_mat))                         \
        __CPROVER_loop_invariant(0 <= i && i <= n)                                                 \
        __CPROVER_loop_invariant(INV_ROWCTR(i, gh_i, gh_il))                                       \
        __CPROVER_decreases(n - i)
#define H_gf_invert_matrix_2                                                                       \
        gh_i += n;                                                                                 \
        gh_il -= n;                                                                                \
        VCANARY();
/* loop 3 (pivot row i) has its own pair gh_r/gh_rl; its hook seeds the pairs of loop 4 (j from i+1)
 * and loop 7 (j from 0) */
#define L_gf_invert_matrix_3                                                                       \
        __CPROVER_assigns(i, j, k, temp, gh_r, gh_rl, gh_j, gh_jl, gh_j7, gh_j7l, INV_OBJS)        \
        __CPROVER_loop_invariant(0 <= i && i <= n)                                                 \
        __CPROVER_loop_invariant(INV_ROWCTR(i, gh_r, gh_rl))                                       \
        __CPROVER_decreases(n - i)
#define H_gf_invert_matrix_3                                                                       \
        gh_r += n;                                                                                 \
        gh_rl -= n;                                                                                \
        gh_j = gh_r;                                                                               \
        gh_jl = gh_rl;                                                                             \
        gh_j7 = 0;                                                                                 \
        gh_j7l = gh_nn;                                                                            \
        VCANARY();
#define L_gf_invert_matrix_4                                                                       \
        __CPROVER_assigns(j, gh_j, gh_jl)                                                          \
        __CPROVER_loop_invariant(i + 1 <= j && j <= n)                                             \
        __CPROVER_loop_invariant(INV_ROWCTR(j, gh_j, gh_jl))                                       \
        __CPROVER_decreases(n - j)
#define H_gf_invert_matrix_4                                                                       \
        gh_j += n;                                                                                 \
        gh_jl -= n;                                                                                \
        VCANARY();
#define L_gf_invert_matrix_5                                                                       \
        __CPROVER_assigns(k, temp, INV_OBJS)                                                       \
        __CPROVER_loop_invariant(0 <= k && k <= n)                                                 \
        __CPROVER_decreases(n - k)
#define H_gf_invert_matrix_5
#define L_gf_invert_matrix_6                                                                       \
        __CPROVER_assigns(j, INV_OBJS)                                                             \
        __CPROVER_loop_invariant(0 <= j && j <= n)                                                 \
        __CPROVER_decreases(n - j)
#define H_gf_invert_matrix_6
#define L_gf_invert_matrix_7                                                                       \
        __CPROVER_assigns(j, k, temp, gh_j7, gh_j7l, INV_OBJS)                                     \
        __CPROVER_loop_invariant(0 <= j && j <= n)                                                 \
        __CPROVER_loop_invariant(INV_ROWCTR(j, gh_j7, gh_j7l))                                     \
        __CPROVER_decreases(n - j)
#define H_gf_invert_matrix_7                                                                       \
        gh_j7 += n;                                                                                \
        gh_j7l -= n;                                                                               \
        VCANARY();
#define L_gf_invert_matrix_8                                                                       \
        __CPROVER_assigns(k, INV_OBJS)                                                             \
        __CPROVER_loop_invariant(0 <= k && k <= n)                                                 \
        __CPROVER_decreases(n - k)
/* Canaries only in the loops that carry ghost counters (2, 3, 4, 7) and after the call: dfcc peels each
 * loop once, every canary instance costs one SAT call on the whole formula (31 instances = 100 s), and
 * loops 1, 5, 6, 8 have nothing but the range invariant 0 <= x <= n.  In addition, for loop 8: dfcc peels the first iteration of each loop, and in the peeled copy i == 0, j == 0
 * the `if (j == i) continue;` makes loop 8 structurally unreachable (the canary could never fail there);
 * loop 8 carries no ghost axiom and only the range invariant, the canary of loop 7 covers the path */
#define H_gf_invert_matrix_8

#endif /* ISAL_VERIF */
#endif
