/* Contracts for the portable level-0 LZ77 bodies of igzip/igzip_base.c
 *   isal_deflate_body_base, isal_deflate_finish_base, isal_deflate_hash_base, update_state
 * (properties C01 component "every emitted match is a true match", C17 distance inside the window,
 *  C05 reads/writes in bounds, C10 output never passes next_out + avail_out).
 *
 * Model of the caller's memory (what the `requires` clauses say):
 *   - the input is ONE object g_in; stream->next_in points into it, next_in+avail_in is at offset g_inend, and
 *     the object has ISAL_LOOK_AHEAD more (never readable) bytes behind that: every read is checked against
 *     g_inend explicitly (stubs_body.h, loop hooks).  The slack only makes the C pointer `next_in +
 *     ISAL_LOOK_AHEAD` of the loop guard well defined: with fewer than ISAL_LOOK_AHEAD bytes left it points
 *     beyond one-past-the-end of the caller's buffer (C11 6.5.6p8; harmless on a flat address space);
 *   - total_in <= offset of next_in, i.e. the virtual `file_start = next_in - total_in` of the code lies inside
 *     the same object (g_F is its offset).  The code only uses differences `p - file_start`; with a file_start
 *     outside the object (streaming with a moved window) that is address arithmetic that CBMC's object model
 *     cannot express -- ASSUMPTION, listed in reg_igzip_body.py;
 *   - the output is one object of exactly avail_out >= 8 bytes (set_buf computes next_out + avail_out - 8);
 *   - dist_mask <= 32767 (set_dist_mask contract, igzip_lz.h), hash_mask <= IGZIP_LVL0_HASH_SIZE-1 (set_hash_mask),
 *     pending bits well formed (m_bit_count < 8, no bits above m_bit_count: every bit-writer contract ensures it);
 *   - WINDOW INVARIANT for every hash head, stated for the ghost head g_h (heads are independent): with
 *         d = (uint16_t)(position(next_in) - head[g_h])             (the candidate distance of the code)
 *     either d == 0, or d > dist_mask (both rejected by the code's guard `dist - 1 < hist_size`), or
 *     d <= number of readable bytes in front of next_in.  reset_match_history (all heads = total_in: d == 0)
 *     and isal_deflate_hash_base (postcondition below) establish it; the bodies PRESERVE it (loop invariants)
 *     and re-establish it on exit (postcondition), for any number of bytes, including the mod-2^16 wrap.
 * PROVED per function: see C_* below.  Look-back facts are proved "when the head used by the iteration is g_h"
 * (BD_HIT, stubs_body.h); since g_h is arbitrary this is every look-back.  The callees are replaced by the models
 * of stubs_body.h, whose assertions are the emission-site facts.  CBMC's own pointer-overflow
 * instrumentation is off in these harnesses (it would demand `next_in - dist` in bounds for heads other than
 * g_h, and flags `next_in + ISAL_LOOK_AHEAD` near the end of the input); dereference/bounds checks stay on. */
#ifndef IGZIP_BODY_H
#define IGZIP_BODY_H
#include "verif_common.h"
#include "stubs_body.h"

#define BDS stream->internal_state
#define BDB stream->internal_state.bitbuf
#define BD_OFF(p) __CPROVER_POINTER_OFFSET(p)
#define BD_OLD(e) __CPROVER_old(e)

extern size_t g_insz;   /* size of the input object g_in (= g_inend + ISAL_LOOK_AHEAD) */
extern size_t g_F;      /* offset of file_start inside it */
extern size_t g_off0;   /* offset of next_in at entry */

/* window invariant of head g_h when the next byte to process is at offset `off` of the input object */
#define BD_D16(off, HEAD) ((uint16_t) ((off) - g_F - (size_t) (HEAD)[g_h]))
#define BD_WIN(off, HEAD)                                                                          \
        (BD_D16(off, HEAD) == 0 || BD_D16(off, HEAD) > g_dmask || BD_D16(off, HEAD) <= (off))
#define BD_BB_WF(b) ((b).m_bit_count < 8 && ((b).m_bits >> (b).m_bit_count) == 0)

#define BD_PRE                                                                                     \
        __CPROVER_requires(__CPROVER_is_fresh(stream, sizeof(*stream)))                            \
        __CPROVER_requires(g_inend <= 0x7fffffffu && g_insz == g_inend + ISAL_LOOK_AHEAD &&        \
                           __CPROVER_is_fresh(g_in, g_insz))                                       \
        __CPROVER_requires(__CPROVER_pointer_in_range_dfcc(g_in, stream->next_in, g_in + g_inend)) \
        __CPROVER_requires(g_off0 == BD_OFF(stream->next_in) && stream->avail_in == g_inend - g_off0) \
        __CPROVER_requires(stream->total_in <= g_off0 && g_F == g_off0 - stream->total_in)         \
        __CPROVER_requires(stream->avail_out >= 8 && stream->avail_out <= 0x7fffffffu &&           \
                           g_avout == stream->avail_out)                                           \
        __CPROVER_requires(__CPROVER_is_fresh(stream->next_out, stream->avail_out))                \
        __CPROVER_requires(BDS.dist_mask <= 32767 && g_dmask == BDS.dist_mask)                     \
        __CPROVER_requires(BDS.hash_mask <= IGZIP_LVL0_HASH_SIZE - 1 && g_hmask == BDS.hash_mask && \
                           g_h <= g_hmask)                                                         \
        __CPROVER_requires(BD_BB_WF(BDB))                                                          \
        __CPROVER_requires(g_out == stream->next_out && g_huff == stream->hufftables && g_bb == &BDB) \
        __CPROVER_requires(BD_WIN(g_off0, BDS.head))

/* what the bodies may write: the six stream counters (next_in .. total_out are the first 32 bytes of
 * isal_zstream), the bit buffer, has_hist / has_eob / state, all hash heads; the output bytes go through
 * write_bits, whose stores are checked to lie inside [next_out, next_out+avail_out) but not modelled.
 * Few, larger targets on purpose: dfcc checks every assignment against every target. */
_Static_assert(__builtin_offsetof(struct isal_zstream, hufftables) == 32, "counters are the first 32 bytes");
#define BD_FRAME                                                                                   \
        w_it, __CPROVER_object_upto((uint8_t *) &stream->next_in, 32),                             \
                __CPROVER_object_upto((uint8_t *) &BDB, sizeof(struct BitBuf2)), BDS.has_hist, BDS.has_eob, \
                BDS.state, BDS.head

/* consumed / produced byte counts */
#define BD_C (BD_OFF(stream->next_in) - g_off0)
#define BD_W ((size_t) (g_avout - stream->avail_out))
#define BD_COUNTERS                                                                                \
        __CPROVER_ensures(__CPROVER_same_object(stream->next_in, g_in) && BD_OFF(stream->next_in) >= g_off0 && \
                          BD_OFF(stream->next_in) <= g_inend)                                       \
        __CPROVER_ensures(stream->avail_in == BD_OLD(stream->avail_in) - BD_C &&                   \
                          stream->total_in == (uint32_t) (BD_OLD(stream->total_in) + BD_C))        \
        __CPROVER_ensures(stream->avail_out <= g_avout && stream->avail_out >= 1)                  \
        __CPROVER_ensures(stream->next_out == BD_OLD(stream->next_out) + BD_W &&                   \
                          stream->total_out == (uint32_t) (BD_OLD(stream->total_out) + BD_W))      \
        __CPROVER_ensures(BDS.has_hist == (BD_C > 0 ? IGZIP_HIST : BD_OLD(BDS.has_hist)))          \
        __CPROVER_ensures(BD_BB_WF(BDB))                                                           \
        __CPROVER_ensures(BD_WIN(BD_OFF(stream->next_in), BDS.head))

/* ---------------------------------------------------------------------------------------------------
 * isal_deflate_body_base
 * avail_in == 0: only the state may change (to FLUSH_READ_BUFFER iff a flush or the end was requested).
 * otherwise: counters advance by exactly the consumed / produced bytes, 1 <= avail_out' (C10: at most
 * avail_out-1 bytes produced, every 8-byte store inside the output object: write_bits requires),
 * it stops with more than ISAL_LOOK_AHEAD input bytes left only if the output is full (< 8 bytes left),
 * window invariant and pending-bit well-formedness hold again.  Emission-site facts: assertions of the callee
 * models in stubs_body.h (length in 3..258 and == the compare258 result, 1 <= dist <= dist_mask <= 32767 and == the
 * compared look-back distance, literal == byte at next_in, read and store ranges) and the invariant of the inner
 * loop, whose head sits between compare258 and the emission (true match, look-back inside the input object).
 * ------------------------------------------------------------------------------------------------- */
#define BD_FLUSH_REQ (BD_OLD(stream->end_of_stream) || BD_OLD(stream->flush) != NO_FLUSH)
#define C_isal_deflate_body_base                                                                   \
        BD_PRE                                                                                     \
        __CPROVER_assigns(BD_FRAME)                                                                \
        __CPROVER_ensures(BD_OLD(stream->avail_in) == 0 ==>                                        \
                          (stream->next_in == BD_OLD(stream->next_in) && stream->avail_in == 0 &&  \
                           stream->avail_out == g_avout && stream->next_out == BD_OLD(stream->next_out) && \
                           stream->total_in == BD_OLD(stream->total_in) &&                         \
                           stream->total_out == BD_OLD(stream->total_out) &&                       \
                           BDS.has_hist == BD_OLD(BDS.has_hist) &&                                 \
                           BDS.state == (BD_FLUSH_REQ ? ZSTATE_FLUSH_READ_BUFFER : BD_OLD(BDS.state)))) \
        BD_COUNTERS                                                                                \
        __CPROVER_ensures((BD_OLD(stream->avail_in) != 0 && stream->avail_in > ISAL_LOOK_AHEAD) ==> \
                          (stream->avail_out < 8 && BDS.state == BD_OLD(BDS.state)))               \
        __CPROVER_ensures((BD_OLD(stream->avail_in) != 0 && stream->avail_out >= 8) ==>            \
                          (stream->avail_in <= ISAL_LOOK_AHEAD &&                                  \
                           BDS.state == (BD_FLUSH_REQ ? ZSTATE_FLUSH_READ_BUFFER : BD_OLD(BDS.state)))) \
        __CPROVER_ensures(BDS.has_eob == BD_OLD(BDS.has_eob))

/* re-anchoring (identity, asserted first): CBMC loses the points-to set of a pointer havocked by a loop contract */
#define BD_REANCHOR(p) BD_REANCHOR_TO(p, g_in)
#define BD_REANCHOR_TO(p, BASE)                                                                    \
        {                                                                                          \
                size_t o_ = BD_OFF(p);                                                             \
                uint8_t *r_ = (BASE) + o_;                                                         \
                __CPROVER_assert(p == r_, "ghost re-anchoring is the identity");                   \
                p = r_;                                                                            \
        }
#define BD_MAIN_HOOK                                                                               \
        {                                                                                          \
                BD_REANCHOR(next_in)                                                               \
                __CPROVER_assert(BD_OFF(next_in) < g_inend, "byte at next_in is inside the input"); \
                g_lit = *next_in;                                                                  \
                w_fresh = 1;                                                                       \
                VCANARY();                                                                         \
        }
#define BD_BB_HOT state->bitbuf.m_bits, state->bitbuf.m_bit_count, state->bitbuf.m_out_buf
#define BD_LOCALS literal, hash, dist, match_length, next_hash, end, code, code_len, code2, code_len2
#define BD_MAIN_ASSIGNS                                                                            \
        __CPROVER_assigns(next_in, BD_LOCALS, state->head, BD_BB_HOT, w_it)
#define BD_MAIN_INV                                                                                \
        __CPROVER_loop_invariant(__CPROVER_same_object(next_in, g_in) && BD_OFF(next_in) >= g_off0 && \
                                 BD_OFF(next_in) <= g_inend)                                       \
        __CPROVER_loop_invariant(__CPROVER_same_object(state->bitbuf.m_out_buf, g_out) &&          \
                                 BD_OFF(state->bitbuf.m_out_buf) <= g_avout - 1)                   \
        __CPROVER_loop_invariant(BD_BB_WF(state->bitbuf))                                          \
        __CPROVER_loop_invariant(BD_WIN(BD_OFF(next_in), state->head))                             \
        __CPROVER_decreases(g_inend - BD_OFF(next_in))

#define L_isal_deflate_body_base_1 BD_MAIN_ASSIGNS BD_MAIN_INV
#define H_isal_deflate_body_base_1 BD_MAIN_HOOK

/* inner loop (hash update of the positions covered by the match); its head is the program point between
 * compare258 and the emission, so its invariant carries the emission-site facts */
#define BD_POS2 (BD_OFF(next_in) + match_length) /* offset of next_in after the emission */
#define BD_INNER(ENDX)                                                                             \
        __CPROVER_assigns(next_hash, literal, hash, state->head, w_it)                            \
        __CPROVER_loop_invariant(__CPROVER_same_object(next_hash, g_in) &&                         \
                                 BD_OFF(next_hash) > BD_OFF(next_in) &&                            \
                                 BD_OFF(next_hash) <= BD_OFF(next_in) + 3)                         \
        __CPROVER_loop_invariant(w_it.fresh == 0 && w_it.hash == __CPROVER_loop_entry(w_it.hash) && \
                                 w_it.mlen == match_length && w_it.dist == dist)                   \
        __CPROVER_loop_invariant(match_length >= SHORTEST_MATCH && match_length <= 258 &&          \
                                 BD_POS2 <= g_inend && 1 <= dist && dist <= g_dmask &&             \
                                 (BD_HIT ==> (dist <= BD_OFF(next_in) &&                           \
                                              (g_k < match_length ==>                              \
                                               next_in[g_k] == (next_in - dist)[g_k]))))           \
        __CPROVER_loop_invariant(BD_WIN(BD_POS2, state->head))                                     \
        __CPROVER_decreases(BD_OFF(next_in) + 3 - BD_OFF(next_hash))
#define L_isal_deflate_body_base_2 BD_INNER(end)
#define H_isal_deflate_body_base_2                                                                 \
        {                                                                                          \
                BD_REANCHOR(next_hash)                                                             \
                VCANARY();                                                                         \
        }

/* ---------------------------------------------------------------------------------------------------
 * isal_deflate_finish_base: as the body, but consumes the input to its last byte (reads never pass
 * next_in + avail_in: compare258 is capped by the bytes left, the last 3 bytes go out as literals), then
 * writes the end-of-block symbol if 8 bytes of output are left; it stops early only when the output is full.
 * ------------------------------------------------------------------------------------------------- */
#define C_isal_deflate_finish_base                                                                 \
        BD_PRE                                                                                     \
        __CPROVER_assigns(BD_FRAME)                                                                \
        BD_COUNTERS                                                                                \
        __CPROVER_ensures(stream->avail_in != 0 ==>                                                \
                          (stream->avail_out < 8 && BDS.state == BD_OLD(BDS.state) &&              \
                           BDS.has_eob == BD_OLD(BDS.has_eob)))                                    \
        __CPROVER_ensures(BDS.state != BD_OLD(BDS.state) ==>                                       \
                          (stream->avail_in == 0 && BDS.has_eob == 1 &&                            \
                           BDS.state == (BD_OLD(stream->end_of_stream) == 1 ? ZSTATE_TRL : ZSTATE_SYNC_FLUSH))) \
        __CPROVER_ensures((stream->avail_in == 0 && stream->avail_out >= 8) ==> BDS.has_eob == 1)
#define L_isal_deflate_finish_base_1 BD_MAIN_ASSIGNS BD_MAIN_INV
#define H_isal_deflate_finish_base_1 BD_MAIN_HOOK
#define L_isal_deflate_finish_base_2 BD_INNER(end)
/* no canary: with ISAL_LIMIT_HASH_UPDATE (unconditionally defined in igzip_lib.h) end - 3 == next_in and
 * next_hash starts at next_in + 1, so this loop body is dead code in finish_base */
#define H_isal_deflate_finish_base_2                                                               \
        {                                                                                          \
                BD_REANCHOR(next_hash)                                                             \
        }
#define L_isal_deflate_finish_base_3                                                               \
        __CPROVER_assigns(next_in, literal, code, code_len, BD_BB_HOT, w_it)                       \
        BD_MAIN_INV
#define H_isal_deflate_finish_base_3 BD_MAIN_HOOK

/* ---------------------------------------------------------------------------------------------------
 * isal_deflate_hash_base(hash_table, hash_mask, current_index, dict, dict_len): every head either keeps its
 * value or ends up pointing at a position inside the dictionary, at a distance SHORTEST_MATCH..dict_len in
 * front of current_index (mod 2^16) -- which is the window invariant of the bodies for a stream whose next
 * byte is current_index and that has dict_len readable bytes in front of it.  Reads exactly dict[0..dict_len),
 * writes only heads 0..hash_mask.
 * ------------------------------------------------------------------------------------------------- */
extern uint16_t w_t0; /* hash_table[g_h] at entry */
#define HB_D16 ((uint16_t) (current_index - (uint32_t) hash_table[g_h]))
#define C_isal_deflate_hash_base                                                                   \
        __CPROVER_requires(hash_mask <= 0xffff && g_hmask == hash_mask && g_h <= hash_mask)        \
        __CPROVER_requires(SHORTEST_MATCH <= dict_len && dict_len <= IGZIP_HIST_SIZE)              \
        __CPROVER_requires(__CPROVER_is_fresh(dict, dict_len))                                     \
        __CPROVER_requires(g_in == dict && g_inend == dict_len)                                    \
        __CPROVER_requires(__CPROVER_is_fresh(hash_table, ((size_t) hash_mask + 1) * sizeof(uint16_t))) \
        __CPROVER_assigns(w_t0, w_it, __CPROVER_object_whole(hash_table))                      \
        __CPROVER_ensures(hash_table[g_h] == __CPROVER_old(hash_table[g_h]) ||                     \
                          (SHORTEST_MATCH <= HB_D16 && HB_D16 <= dict_len))
#define E_isal_deflate_hash_base w_t0 = hash_table[g_h];
#define L_isal_deflate_hash_base_1                                                                 \
        __CPROVER_assigns(next_in, literal, hash, index, w_it, __CPROVER_object_whole(hash_table))                                      \
        __CPROVER_loop_invariant(__CPROVER_same_object(next_in, dict) &&                           \
                                 BD_OFF(next_in) <= dict_len - SHORTEST_MATCH + 1)                 \
        __CPROVER_loop_invariant(index == (uint16_t) (current_index - dict_len + (uint32_t) BD_OFF(next_in))) \
        __CPROVER_loop_invariant(hash_table[g_h] == w_t0 ||                                        \
                                 (dict_len - BD_OFF(next_in) < HB_D16 && HB_D16 <= dict_len))      \
        __CPROVER_decreases(dict_len - BD_OFF(next_in))
#define H_isal_deflate_hash_base_1                                                                 \
        {                                                                                          \
                BD_REANCHOR_TO(next_in, dict)                                                      \
                VCANARY();                                                                         \
        }

/* ---------------------------------------------------------------------------------------------------
 * update_state: counters advance by exactly the bytes consumed (next_in - start_in) and produced
 * (m_out_buf - m_out_start); has_hist becomes IGZIP_HIST iff input was consumed; nothing else is written.
 * ------------------------------------------------------------------------------------------------- */
#define US_C (BD_OFF(next_in) - BD_OFF(start_in))
#define US_W ((uint32_t) BD_OFF(BDB.m_out_buf))
#define C_update_state                                                                             \
        __CPROVER_requires(__CPROVER_is_fresh(stream, sizeof(*stream)))                            \
        __CPROVER_requires(g_insz <= 0x7fffffffu && __CPROVER_is_fresh(start_in, g_insz))          \
        __CPROVER_requires(__CPROVER_pointer_in_range_dfcc(start_in, next_in, start_in + g_insz))  \
        __CPROVER_requires(__CPROVER_pointer_in_range_dfcc(next_in, end_in, start_in + g_insz))    \
        __CPROVER_requires(g_avout <= 0x7fffffffu && __CPROVER_is_fresh(stream->next_out, g_avout)) \
        __CPROVER_requires(__CPROVER_pointer_in_range_dfcc(stream->next_out, BDB.m_out_start, stream->next_out)) \
        __CPROVER_requires(__CPROVER_pointer_in_range_dfcc(stream->next_out, BDB.m_out_buf,        \
                                                           stream->next_out + g_avout))            \
        __CPROVER_assigns(stream->next_in, stream->avail_in, stream->total_in, stream->next_out,   \
                          stream->avail_out, stream->total_out, BDS.has_hist)                      \
        __CPROVER_ensures(stream->next_in == next_in && stream->avail_in == BD_OFF(end_in) - BD_OFF(next_in)) \
        __CPROVER_ensures(stream->total_in == (uint32_t) (BD_OLD(stream->total_in) + US_C))        \
        __CPROVER_ensures(stream->next_out == BD_OLD(stream->next_out) + US_W &&                   \
                          stream->total_out == BD_OLD(stream->total_out) + US_W &&                 \
                          stream->avail_out == BD_OLD(stream->avail_out) - US_W)                   \
        __CPROVER_ensures(BDS.has_hist == (US_C > 0 ? IGZIP_HIST : BD_OLD(BDS.has_hist)))

#endif
