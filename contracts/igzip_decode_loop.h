/* Contract and loop contracts for the portable Huffman decode loop
 *     int decode_huffman_code_block_stateless_base(struct inflate_state *state, uint8_t *start_out)
 * of igzip/igzip_inflate.c (properties C02 stretch, C05, C06, C07; DESIGN.md section 7).
 *
 * Callees: decode_next_lit_len / decode_next_dist are replaced by ASSUMED abstract contracts (arbitrary
 * symbols: the statement holds for arbitrary lookup-table contents and arbitrary input bytes);
 * inflate_in_load / inflate_in_read_bits / byte_copy are replaced by contracts PROVED on their bodies
 * (contracts/stubs_decode.h).  Both loops are closed by loop contracts.
 *
 * Memory layout (built by the harness): one output object `obj`; start_out == obj + S with
 * S >= 32768, next_out == start_out + H, avail_out == A, object size S + H + A.  The already produced
 * history is [start_out, next_out), the writable window [next_out, next_out + avail_out).  The frame
 * names only the window: a write into the history (or anywhere else) is a failed assigns obligation, an
 * access at/after next_out + avail_out leaves the object (failed pointer check).
 * Why S >= 32768: the code's own look-back test `state->next_out - look_back_dist < start_out` FORMS the
 * pointer next_out - look_back_dist.  With start_out at offset 0 of its object that pointer lies before
 * the object whenever the test is supposed to fire: undefined behaviour in ISO C, reported by CBMC as a
 * failed obligation ("pointer relation: pointer outside object bounds in state->next_out - look_back_dist")
 * on the UNCHANGED tree, and evaluated by CBMC like a wrapped address (the test then does not fire).  See
 * the report: possible defect (UB).  With 32 KiB of the same object below start_out the test is
 * well-defined; that look-back reads nevertheless stay >= start_out is then a LOGICAL statement of this
 * contract (invariant "the loop continues only past matches with distance <= produced history", and the
 * INVALID_LOOKBACK clauses), no longer a pointer-check by-product.
 *
 * Sources of the postconditions: include/igzip_lib.h (return codes, field meaning), RFC 1951 3.2.5
 * (distance codes 0..29, base/extra bits; 30,31 invalid), the property texts C05/C06/C07.  The
 * length-symbol convention "symbol s in 257..512 means match length s - 254" is the convention of the
 * (assumed) table builder make_inflate_huff_code_lit_len and is used only in the OUT_OVERFLOW clause.
 *
 * Ghost state
 *   g_A, g_H, g_T, g_IE   entry values: avail_out, offset of next_out, total_out, offset(next_in)+avail_in
 *   s_*                   output position at the start of the current symbol group (outer-loop hook)
 *   w_ld_*                bit-reader state right after the inflate_in_load that starts the group (stub)
 *   w_lits,w_lit,w_cnt,w_out0,w_avail0,w_total0   the symbol the inner loop is working on, and the
 *                         output position when it started (inner-loop hook)
 *   w_dist,w_len_d,w_extra,w_len_e,w_*_called     distance code / extra bits decoded for that symbol (stubs)
 */
#ifndef IGZIP_DECODE_LOOP_H
#define IGZIP_DECODE_LOOP_H
#include "stubs_decode.h"

extern uint32_t g_A, g_H, g_T;
extern uint64_t g_S; /* offset of start_out in its object (>= DL_MAX_LOOKBACK, see below) */
extern uint8_t *dl_in_base; /* ghost: base of the input object, snapshot taken at function entry (E_ hook) */
extern uint64_t g_IE;
#define s_next_out W.s_next_out
#define s_avail_out W.s_avail_out
#define s_total_out W.s_total_out
#define w_outer W.outer
#define w_in_inner W.in_inner
#define w_lits W.lits
#define w_lit W.lit
#define w_cnt W.cnt
#define w_out0 W.out0
#define w_avail0 W.avail0
#define w_total0 W.total0

/* RFC 1951 3.2.5 distance code d (0..29): extra bits and base distance, closed form */
#define SPEC_DIST_XBITS(d) ((d) < 4 ? 0u : (((unsigned) (d)) >> 1) - 1u)
#define SPEC_DIST_BASE(d) ((d) < 4 ? (unsigned) (d) + 1u : ((2u + ((d) & 1u)) << SPEC_DIST_XBITS(d)) + 1u)
/* rfc_lookup_table is a mutable static of igzip_inflate.c; dfcc starts from arbitrary static contents, so
 * the contract requires that its distance rows hold the RFC 1951 values (they are compile-time
 * initialisers, nothing in the library writes the table: every enforced frame in /verif excludes it). */
#define DL_RFC1(d)                                                                                 \
        (rfc_lookup_table.dist_start[d] == SPEC_DIST_BASE(d) &&                                    \
         rfc_lookup_table.dist_extra_bit_count[d] == SPEC_DIST_XBITS(d))
#define DL_RFC5(d) (DL_RFC1(d) && DL_RFC1((d) + 1) && DL_RFC1((d) + 2) && DL_RFC1((d) + 3) && DL_RFC1((d) + 4))
#define DL_RFC_TABLE_OK (DL_RFC5(0) && DL_RFC5(5) && DL_RFC5(10) && DL_RFC5(15) && DL_RFC5(20) && DL_RFC5(25))
#define DL_D8 ((uint8_t) w_dist)
#define DL_LB ((uint64_t) SPEC_DIST_BASE(DL_D8) + w_extra) /* look-back distance of the current match */
#define DL_MAX_LEN_SYM 512
#ifndef DL_MAX_LOOKBACK
#define DL_MAX_LOOKBACK 32768 /* RFC 1951: largest distance = base(29) + 2^13 - 1 */
#endif
#define DL_DIST_CODES 30

#define DL_GHOSTS W
#define DL_STATE_FRAME                                                                             \
        state->read_in, state->read_in_length, state->next_in, state->avail_in, state->next_out,   \
                state->avail_out, state->total_out, state->block_state, state->write_overflow_lits, \
                state->write_overflow_len, state->copy_overflow_length, state->copy_overflow_distance

/* output window accounting: next_out + avail_out is invariant, total_out counts the bytes produced */
#define DL_OUT_WF                                                                                  \
        (__CPROVER_same_object(state->next_out, start_out) && state->avail_out <= g_A &&           \
         __CPROVER_POINTER_OFFSET(state->next_out) == g_S + g_H + (g_A - state->avail_out) &&      \
         state->total_out == (uint32_t) (g_T + (g_A - state->avail_out)))
/* input window accounting */
#define DL_IN_WF0 ((uint64_t) __CPROVER_POINTER_OFFSET(state->next_in) + state->avail_in == g_IE)
/* in loop invariants: same object as at entry and the same end offset (that [next_in, next_in+avail_in)
 * is readable then follows from r_ok at entry; r_ok itself may not be applied to a havocked pointer) */
#define DL_IN_WF (__CPROVER_same_object(state->next_in, dl_in_base) && DL_IN_WF0)
#define DL_NO_OVERFLOW_REC                                                                         \
        (state->write_overflow_len == 0 && state->write_overflow_lits == 0)
#define DL_NO_COPY_REC (state->copy_overflow_length == 0 && state->copy_overflow_distance == 0)
/* "the match the inner loop just handled was valid" */
#define DL_MATCH_VALID                                                                             \
        (w_len_d >= 0 && DL_D8 < DL_DIST_CODES && w_rb_called && w_len_e >= 0 &&                   \
         w_rb_n == SPEC_DIST_XBITS(DL_D8) && DL_LB <= __CPROVER_POINTER_OFFSET(w_out0) - g_S)

/* literals of the current group that are decoded but not yet written (recorded for the caller) */
#define DL_PENDING_LITS ((uint64_t) (state->write_overflow_len > 0 ? state->write_overflow_len : 0))
#define DL_RET __CPROVER_return_value
#define DL_PRODUCED (__CPROVER_old(state->avail_out) - state->avail_out)

#define C_decode_huffman_code_block_stateless_base                                                 \
        __CPROVER_requires(__CPROVER_rw_ok(state, sizeof(*state)))                                 \
        __CPROVER_requires(__CPROVER_same_object(state->next_out, start_out) &&                    \
                           g_S == __CPROVER_POINTER_OFFSET(start_out) && g_S >= DL_MAX_LOOKBACK && \
                           __CPROVER_w_ok(state->next_out, state->avail_out))                      \
        __CPROVER_requires(g_A == state->avail_out && g_T == state->total_out &&                   \
                           g_S + g_H == __CPROVER_POINTER_OFFSET(state->next_out))                 \
        __CPROVER_requires(DL_IN_OK(state) && DL_IN_WF0 && DL_LEN_OK(state) && DL_RFC_TABLE_OK)    \
        /* isal_inflate consumes and zeroes the pending-literal record before it calls the decoder again */ \
        __CPROVER_requires(DL_NO_OVERFLOW_REC)                                                     \
        __CPROVER_requires(w_outer == 0 && w_in_inner == 0 && w_dist_called == 0 && w_rb_called == 0) \
        __CPROVER_assigns(DL_STATE_FRAME, DL_GHOSTS, dl_in_base)                                   \
        __CPROVER_assigns(__CPROVER_object_upto(state->next_out, state->avail_out))                \
        /* ---- (1) C05/C06 output accounting */                                                  \
        __CPROVER_ensures(state->avail_out <= __CPROVER_old(state->avail_out) &&                   \
                          state->next_out == __CPROVER_old(state->next_out) + DL_PRODUCED &&       \
                          state->total_out == (uint32_t) (__CPROVER_old(state->total_out) + DL_PRODUCED)) \
        __CPROVER_ensures(state->avail_in <= __CPROVER_old(state->avail_in) &&                     \
                          state->next_in == __CPROVER_old(state->next_in) +                        \
                                                    (__CPROVER_old(state->avail_in) - state->avail_in)) \
        /* ---- (2) documented return codes only */                                               \
        __CPROVER_ensures(DL_RET == 0 || DL_RET == ISAL_END_INPUT || DL_RET == ISAL_OUT_OVERFLOW || \
                          DL_RET == ISAL_INVALID_SYMBOL || DL_RET == ISAL_INVALID_LOOKBACK)        \
        __CPROVER_ensures(DL_RET == 0 ==> (state->block_state != ISAL_BLOCK_CODED &&               \
                                           DL_NO_OVERFLOW_REC && DL_NO_COPY_REC && DL_LEN_OK(state))) \
        /* which situation each error code reports */                                             \
        __CPROVER_ensures(DL_RET == ISAL_INVALID_LOOKBACK ==>                                      \
                          (w_in_inner && w_dist_called && DL_D8 < DL_DIST_CODES && w_rb_called &&  \
                           DL_LB > __CPROVER_POINTER_OFFSET(state->next_out) - g_S &&              \
                           state->next_out == w_out0 && state->avail_out == w_avail0 &&            \
                           state->total_out == w_total0))                                          \
        __CPROVER_ensures(DL_RET == ISAL_INVALID_SYMBOL ==>                                        \
                          ((!w_in_inner && w_nl_cnt == 0) ||                                       \
                           (w_in_inner && w_cnt == 1 && w_lit > DL_MAX_LEN_SYM) ||                 \
                           (w_in_inner && w_dist_called && w_len_d >= 0 && DL_D8 >= DL_DIST_CODES))) \
        /* ... and the bad situations are reported (for the symbol being handled at return; for symbols \
         * handled earlier the loop invariants say the loop only continues past valid ones) */      \
        __CPROVER_ensures((w_outer && !w_in_inner && w_nl_cnt == 0) ==> DL_RET == ISAL_INVALID_SYMBOL) \
        __CPROVER_ensures((w_in_inner && w_cnt == 1 && w_lit > DL_MAX_LEN_SYM) ==>                 \
                          DL_RET == ISAL_INVALID_SYMBOL)                                           \
        __CPROVER_ensures((w_in_inner && w_dist_called && w_len_d >= 0 && DL_D8 >= DL_DIST_CODES) ==> \
                          DL_RET == ISAL_INVALID_SYMBOL)                                           \
        __CPROVER_ensures((w_in_inner && w_dist_called && w_len_d >= 0 && DL_D8 < DL_DIST_CODES && \
                           w_rb_called && w_len_e >= 0 &&                                          \
                           DL_LB > __CPROVER_POINTER_OFFSET(w_out0) - g_S + DL_PENDING_LITS) ==>   \
                          DL_RET == ISAL_INVALID_LOOKBACK)                                         \
        /* ---- (3) C07 resumability */                                                           \
        __CPROVER_ensures(DL_RET == ISAL_END_INPUT ==>                                             \
                          (state->read_in == w_ld_read_in && state->read_in_length == w_ld_len &&  \
                           state->next_in == w_ld_next_in && state->avail_in == w_ld_avail_in &&   \
                           state->next_out == s_next_out && state->avail_out == s_avail_out &&     \
                           state->total_out == s_total_out && DL_NO_OVERFLOW_REC && DL_NO_COPY_REC && \
                           DL_LEN_OK(state) &&                                                     \
                           state->block_state == ISAL_BLOCK_CODED))                                \
        __CPROVER_ensures(DL_RET == ISAL_OUT_OVERFLOW ==>                                          \
                          (state->avail_out == 0 && DL_LEN_OK(state) &&                            \
                           (state->write_overflow_len > 0 || state->copy_overflow_length > 0)))    \
        /* pending literals: the packed symbols of the interrupted group and how many of them are literals */ \
        __CPROVER_ensures((DL_RET == ISAL_OUT_OVERFLOW && state->copy_overflow_length == 0) ==>    \
                          (state->write_overflow_lits == (int32_t) w_lits &&                       \
                           (state->write_overflow_len == (int32_t) w_cnt ||                        \
                            (state->write_overflow_len == (int32_t) w_cnt - 1 &&                   \
                             (w_lits >> (8 * (w_cnt - 1))) == 256 &&                               \
                             state->block_state != ISAL_BLOCK_CODED)) &&                           \
                           state->next_out == w_out0))                                             \
        /* pending copy: the unwritten rest of the match and its distance (RFC base + extra bits) */ \
        __CPROVER_ensures((DL_RET == ISAL_OUT_OVERFLOW && state->copy_overflow_length > 0) ==>     \
                          (w_dist_called && DL_D8 < DL_DIST_CODES && w_rb_called &&                \
                           (uint64_t) state->copy_overflow_distance == DL_LB &&                    \
                           w_lit >= 257 && w_lit <= DL_MAX_LEN_SYM &&                              \
                           (uint32_t) state->copy_overflow_length == (w_lit - 254) - w_avail0 &&   \
                           state->next_out == w_out0 + w_avail0 &&                                 \
                           state->write_overflow_len >= 0 && state->write_overflow_len <= 2))      \
        DL_STRICT_CLAUSE                                                                           \
        DL_M1_CLAUSE

/* RFC 1951: a distance is invalid iff it reaches before the start of the output produced so far -- which
 * includes literals of the same packed group that are decoded but still pending because the window is
 * full.  The code's test ignores the pending literals, so this clause FAILS on the unchanged tree
 * (valid stream, avail_out 0/1 inside a packed group [lit, lit, len]: ISAL_INVALID_LOOKBACK instead of
 * ISAL_OUT_OVERFLOW; native reproduction in replay/decode_loop.c).  It is therefore kept behind
 * -DDL_LOOKBACK_STRICT (registry entry decode_loop_lookback_strict); it is the LAST ensures clause so that
 * the numbering of the other obligations does not depend on it. */
/* Pending literals, exclusive form (audit round 2, M1): let top be the last packed symbol of the recorded
 * group.  top < 256: all cnt symbols are literals to replay, the block goes on.  top == 256 (end-of-block):
 * the cnt-1 symbols below it are the literals, the EOB is NOT replayed, and block_state is the
 * end-of-block successor.  top > 256 never returns here (it continues into the copy path).  Last ensures
 * clause(s) so that the numbering of the other obligations is unchanged. */
#ifdef DL_M1_STRICT
#define DL_TOP (w_lits >> (8 * (w_cnt - 1)))
#define DL_M1_CLAUSE                                                                               \
        __CPROVER_ensures((DL_RET == ISAL_OUT_OVERFLOW && state->copy_overflow_length == 0) ==>    \
                          (w_cnt >= 1 && DL_TOP <= 256 &&                                          \
                           (DL_TOP < 256 ==> (state->write_overflow_len == (int32_t) w_cnt &&      \
                                              state->block_state == ISAL_BLOCK_CODED)) &&          \
                           (DL_TOP == 256 ==> (state->write_overflow_len == (int32_t) w_cnt - 1 && \
                                               state->block_state == (state->bfinal ? ISAL_BLOCK_INPUT_DONE \
                                                                                    : ISAL_BLOCK_NEW_HDR)))))
#else
#define DL_M1_CLAUSE
#endif
#ifdef DL_LOOKBACK_STRICT
#define DL_STRICT_CLAUSE                                                                           \
        __CPROVER_ensures(DL_RET == ISAL_INVALID_LOOKBACK ==>                                      \
                          DL_LB > __CPROVER_POINTER_OFFSET(state->next_out) - g_S + DL_PENDING_LITS)
#else
#define DL_STRICT_CLAUSE
#endif

/* Value-set normalisation (ghost statement, semantically the identity): a loop contract havocs the
 * pointer fields state->next_out / state->next_in; CBMC then no longer knows which object they point to
 * and every access through them is encoded against every object of the program (the 82 KB state struct
 * included) -- symbolic execution alone took > 25 minutes.  The invariant says same_object(next_out,
 * start_out); the hook first ASSERTS that the pointer equals base + its own offset and only then assigns
 * exactly that value, which gives the symbolic executor a precise points-to set and changes nothing. */
#define E_decode_huffman_code_block_stateless_base                                                 \
        dl_in_base = state->next_in - __CPROVER_POINTER_OFFSET(state->next_in);
#define DL_NORMALISE                                                                               \
        size_t dl_oo__ = __CPROVER_POINTER_OFFSET(state->next_out) - __CPROVER_POINTER_OFFSET(start_out); \
        __CPROVER_assert(state->next_out == start_out + dl_oo__, "normalising next_out is the identity"); \
        state->next_out = start_out + dl_oo__;                                                     \
        DL_NORM_IN
#ifdef DL_NO_NORM_IN
#define DL_NORM_IN
#else
#define DL_NORM_IN                                                                                 \
        size_t dl_io__ = __CPROVER_POINTER_OFFSET(state->next_in);                                 \
        __CPROVER_assert(state->next_in == dl_in_base + dl_io__, "normalising next_in is the identity"); \
        state->next_in = dl_in_base + dl_io__;
#endif

/* ---- outer loop: while (state->block_state == ISAL_BLOCK_CODED) ------------------------------- */
#define L_decode_huffman_code_block_stateless_base_1                                               \
        __CPROVER_assigns(DL_STATE_FRAME, DL_GHOSTS, next_lit, next_dist, repeat_length, look_back_dist, \
                          read_in_tmp, read_in_length_tmp, next_in_tmp, next_out_tmp, avail_in_tmp, \
                          avail_out_tmp, total_out_tmp, next_lits, sym_count,                      \
                          __CPROVER_object_upto(state->next_out, state->avail_out))                \
        __CPROVER_loop_invariant(DL_OUT_WF && DL_IN_WF && DL_LEN_OK(state) && DL_NO_OVERFLOW_REC && \
                                 DL_NO_COPY_REC)                                                 \
        /* every completed symbol group ended with a valid symbol (witnesses of its last symbol) */ \
        __CPROVER_loop_invariant((w_outer ==> w_in_inner) &&                                       \
                                 (w_in_inner ==> (w_cnt > 1 || w_lit <= DL_MAX_LEN_SYM)) &&        \
                                 (w_dist_called ==> DL_MATCH_VALID))                               \
        __CPROVER_decreases(DL_BITS(state))
#define H_decode_huffman_code_block_stateless_base_1                                               \
        {                                                                                          \
                DL_NORMALISE                                                                       \
                s_next_out = state->next_out;                                                      \
                s_avail_out = state->avail_out;                                                    \
                s_total_out = state->total_out;                                                    \
                w_outer = 1;                                                                       \
                w_in_inner = 0;                                                                    \
                w_dist_called = 0;                                                                 \
                w_rb_called = 0;                                                                   \
                VCANARY();                                                                         \
        }

/* ---- inner loop: while (sym_count > 0) -------------------------------------------------------- */
#define L_decode_huffman_code_block_stateless_base_2                                               \
        __CPROVER_assigns(DL_STATE_FRAME, DL_GHOSTS, next_lit, next_dist, repeat_length, look_back_dist, \
                          next_lits, sym_count, __CPROVER_object_upto(state->next_out, state->avail_out)) \
        __CPROVER_loop_invariant(sym_count <= 3 &&                                                 \
                                 (sym_count == 0 || (next_lits >> (8 * (sym_count - 1))) < 1024))  \
        __CPROVER_loop_invariant(DL_OUT_WF && DL_IN_WF && DL_LEN_OK(state) && DL_NO_COPY_REC)      \
        /* the window only shrinks from its front (keeps every write inside the loop's own frame) */   \
        __CPROVER_loop_invariant(state->avail_out <= __CPROVER_loop_entry(state->avail_out))       \
        /* the group-start snapshots (ghost) are what the code saved in its *_tmp locals */           \
        __CPROVER_loop_invariant(w_outer && read_in_tmp == w_ld_read_in && read_in_length_tmp == w_ld_len && \
                                 next_in_tmp == w_ld_next_in && avail_in_tmp == w_ld_avail_in &&   \
                                 next_out_tmp == s_next_out && avail_out_tmp == s_avail_out &&     \
                                 total_out_tmp == s_total_out)                                     \
        /* end-of-block is the last symbol of its group */                                         \
        __CPROVER_loop_invariant(state->block_state == ISAL_BLOCK_CODED || sym_count == 0)         \
        /* bits are only consumed (termination measure of the outer loop) */                       \
        __CPROVER_loop_invariant(DL_BITS(state) <= (int64_t) __CPROVER_loop_entry(state->read_in_length) + \
                                                           8 * (int64_t) __CPROVER_loop_entry(state->avail_in)) \
        /* pending literals are recorded only on the way out: either none, or output is full and only the \
         * trailing length symbol of the group is left (that iteration returns) */                  \
        __CPROVER_loop_invariant(DL_NO_OVERFLOW_REC ||                                             \
                                 (state->avail_out == 0 && sym_count == 1 && next_lits > 256 &&    \
                                  state->write_overflow_len >= 1 && state->write_overflow_len <= 2)) \
        /* the loop continues only past valid symbols */                                           \
        __CPROVER_loop_invariant((w_in_inner || sym_count > 0) &&                                  \
                                 (w_in_inner ==> (w_cnt > 1 || w_lit <= DL_MAX_LEN_SYM)))          \
        __CPROVER_loop_invariant(w_dist_called ==> DL_MATCH_VALID)                                 \
        __CPROVER_decreases(sym_count)
#define H_decode_huffman_code_block_stateless_base_2                                               \
        {                                                                                          \
                DL_NORMALISE                                                                       \
                w_in_inner = 1;                                                                    \
                w_lits = next_lits;                                                                \
                w_lit = next_lits & 0xffff;                                                        \
                w_cnt = sym_count;                                                                 \
                w_out0 = state->next_out;                                                          \
                w_avail0 = state->avail_out;                                                       \
                w_total0 = state->total_out;                                                       \
                w_dist_called = 0;                                                                 \
                w_rb_called = 0;                                                                   \
                VCANARY();                                                                         \
        }

#endif
