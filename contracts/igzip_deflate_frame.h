/* Contracts for the framing code of the compressor: igzip/bitbuf2.h (bit writer) and the loop-free /
 * small-loop parts of igzip/igzip.c.  Properties C14 (flush points), C11 (trailers), C10 (output-space
 * contract, stored path), C07 (resumable helpers), C15 (init/reset, frames), C05 (exact buffer sizes).
 *
 * Where the postconditions come from
 *   RFC 1951 3.2.3/3.2.4  stored block: 3 header bits BFINAL,BTYPE=00, padding to a byte boundary,
 *                         LEN (LSB first), NLEN = one's complement of LEN, LEN bytes of data.
 *                         "empty stored block" = 00 00 FF FF after the padding (the sync-flush marker).
 *   RFC 1951 3.2.6        fixed-Huffman block holding only end-of-block: BFINAL=1, BTYPE=01, EOB = seven
 *                         zero bits: ten bits of value 0x003, LSB first.
 *   RFC 1951 3.1.1        bits are packed starting from the least significant bit of each byte.
 *   RFC 1952 2.3.1        gzip trailer CRC32 then ISIZE, both least significant byte first.
 *   RFC 1950 2.2          zlib trailer ADLER32, most significant byte first.
 *   include/igzip_lib.h   documented return codes / init values; properties.jsonl statements.
 *
 * Notation: "pending bits" = the m_bit_count low bits of m_bits; BB_WF = pending bits fit (everything
 * above m_bit_count is zero) and fewer than 8 are pending on function boundaries (DESIGN 4.5). */
#ifndef IGZIP_DEFLATE_FRAME_H
#define IGZIP_DEFLATE_FRAME_H
#include "verif_common.h"
#include "stubs_igzip.h"

#define OLD(e) __CPROVER_old(e)
#define RET __CPROVER_return_value
#define ST stream->internal_state
#define BB stream->internal_state.bitbuf
#define BB_WF(b) ((b).m_bit_count < 8 && ((b).m_bits >> (b).m_bit_count) == 0)
/* byte k of a 64-bit little-endian bit string */
#define BYTE(v, k) ((uint8_t) ((uint64_t) (v) >> (8 * (k))))

/* entry values of the stream fields the specifications talk about (history variables, evaluated by
 * the verifier at function entry).  No ghost globals are tied in `requires`: several of these contracts
 * are also used through --replace-call-with-contract, where a tie would be an obligation on the caller. */
#define O_BC OLD(BB.m_bit_count)
#define O_BITS OLD(BB.m_bits)
#define O_AVAIL OLD(stream->avail_out)
#define O_TOTAL OLD(stream->total_out)
#define O_HIST OLD(ST.has_hist)
#define O_FLUSH OLD(stream->flush)
#define O_EOBH OLD(ST.has_eob_hdr)
#define O_EOB OLD(ST.has_eob)
#define O_GZ OLD(stream->gzip_flag)
#define O_TIN OLD(stream->total_in)
#define O_CRC OLD(ST.crc)
#define O_ST OLD((uint32_t) ST.state)
#define O_CNT OLD(ST.count)
#define O_BN OLD(ST.block_next)
#define O_BE OLD(ST.block_end)
#define O_AIN OLD(stream->avail_in)
#define O_EOS OLD(stream->end_of_stream)
#define O_WRAP OLD(ST.has_wrap_hdr)
#define O_LVL OLD(stream->level)
#define O_HB OLD(stream->hist_bits)
extern size_t g_k; /* ghost byte index */

/* =====================================================================================================
 * (a) bitbuf2.h -- the bit writer.   Logical bit string = bytes already stored below m_out_buf, followed
 * by the pending bits.  Every operation below is stated as: the logical string grows by exactly the
 * `count` low bits of `code` (or stays the same), the bytes that moved to memory are the low bytes of
 * the 64-bit value V = pending | code << m_bit_count, and what stays pending is V shifted down.
 * Memory: exactly the 8 bytes at m_out_buf may be written (is_fresh(m_out_buf, 8): a ninth byte, or a
 * write anywhere else, is a failed obligation).
 * ===================================================================================================== */
#define BBV (OLD(me->m_bits) | (code << OLD(me->m_bit_count))) /* value after appending code */
#define BBN (OLD(me->m_bit_count) + count)              /* bits after appending code */
#define BB_OUT __CPROVER_old(me->m_out_buf)

#define C_init                                                                                     \
        __CPROVER_requires(__CPROVER_is_fresh(me, sizeof(*me)))                                    \
        __CPROVER_assigns(me->m_bits, me->m_bit_count)                                             \
        __CPROVER_ensures(me->m_bits == 0 && me->m_bit_count == 0)

/* len >= 8 is what every call site in igzip.c that goes on to write guarantees (`avail_out >= 8`);
 * write_trailer / flush_icf_block call it first and test afterwards -- see the write_trailer contract. */
#define C_set_buf                                                                                  \
        __CPROVER_requires(__CPROVER_is_fresh(me, sizeof(*me)))                                    \
        __CPROVER_requires(len >= 8 && __CPROVER_is_fresh(buf, len))                               \
        __CPROVER_assigns(me->m_out_buf, me->m_out_start, me->m_out_end)                           \
        __CPROVER_ensures(me->m_out_buf == buf && me->m_out_start == buf &&                        \
                          me->m_out_end == buf + (len - 8))                                        \
        __CPROVER_ensures(me->m_bits == OLD(me->m_bits) && me->m_bit_count == OLD(me->m_bit_count))

#define C_write_bits_unsafe                                                                        \
        __CPROVER_requires(__CPROVER_is_fresh(me, sizeof(*me)))                                    \
        __CPROVER_requires(1)                       \
        __CPROVER_requires(me->m_bit_count <= 63 && count <= 64 - me->m_bit_count)                 \
        __CPROVER_assigns(me->m_bits, me->m_bit_count)                                             \
        __CPROVER_ensures(me->m_bits == BBV && me->m_bit_count == BBN)

/* weakest precondition of the code: m_bit_count + count <= 63 (flush_bits shifts by the flushed bit
 * count, which would be 64).  MAX_BITBUF_BIT_WRITE = 56 with m_bit_count < 8 is the documented instance. */
/* DF_WB_COARSE (harnesses that use write_bits through --replace-call-with-contract and state nothing
 * about output *bytes*): the proved contract minus its byte clause; the eight output bytes are not in the
 * frame of this abstraction, but that they exist and are writable stays a precondition checked at
 * every call site (is_fresh(m_out_buf, 8)), as does "the bits fit". */
/* Meaning of the codes of the pre-computed constant-run block (igzip/repeated_char_result.h).  Derived by
 * parsing repeated_char_header[] as an RFC 1951 dynamic block header (3.2.7) with an independent parser:
 * HLIT = 286, HDIST = 1, 126 header bits followed by the 2-bit code of the literal (the first byte of the run);
 * literal/length code lengths: literal c (0x00 resp. 0xff) 2 bits, 256 (end of block) 4 bits, 264 3 bits,
 * 280 4 bits, 285 1 bit; the only distance symbol 0 (distance 1) has a 1-bit code.  Canonical codes, written
 * LSB first into the bit buffer:
 *     literal c      -> value 0x1, 2 bits                                  = CODE_LIT        : 1 byte
 *     264 + dist 0   -> 0x3 (3 bits) then 0          : 0x3, 4 bits         = CODE_10         : length 10 (RFC 3.2.5:
 *                                                                                               257..264 = 3..10)
 *     280 + e + dist -> 0xf (4 bits), e (4 extra bits), 0 : 0xf | e<<4, 9 bits = CODE_280    : length 115 + e
 *                                                                                               (277..280: 4 extra
 *                                                                                               bits, 280 = 115..130)
 *     285 + dist 0   -> 0, 0                         : two zero bits                         : length 258
 *     256            -> 0x7, 4 bits                                        = END_OF_BLOCK    : 0 bytes
 * w_run accumulates the bytes denoted by the codes passed to write_bits, w_runbits their bit count, w_run_bad
 * is set by any other (code, count). */
extern uint32_t w_run, w_runbits, w_run_bad;
#define RUN_IS_LIT(c, n) ((c) == 0x1 && (n) == 2)
#define RUN_IS_10(c, n) ((c) == 0x3 && (n) == 4)
#define RUN_IS_280(c, n) ((n) == 9 && ((c) & 0xf) == 0xf && ((c) >> 8) == 0)
#define RUN_IS_EOB(c, n) ((c) == 0x7 && (n) == 4)
#define RUN_KNOWN(c, n) (RUN_IS_LIT(c, n) || RUN_IS_10(c, n) || RUN_IS_280(c, n) || RUN_IS_EOB(c, n))
#define RUN_MEANING(c, n)                                                                          \
        (RUN_IS_LIT(c, n) ? 1u : (RUN_IS_10(c, n) ? 10u : (RUN_IS_280(c, n) ? 115u + (uint32_t) (((c) >> 4) & 0xf) : 0u)))
#ifdef DF_WB_COARSE
#define C_write_bits                                                                               \
        __CPROVER_requires(__CPROVER_is_fresh(me, sizeof(*me)))                                    \
        __CPROVER_requires(me->m_bit_count <= 63 && count <= 63 - me->m_bit_count)                 \
        __CPROVER_requires((me->m_bits >> me->m_bit_count) == 0)                                   \
        __CPROVER_requires(count == 0 ? code == 0 : (code >> count) == 0)                          \
        __CPROVER_requires(__CPROVER_is_fresh(me->m_out_buf, 8))                                   \
        __CPROVER_assigns(me->m_bits, me->m_bit_count, me->m_out_buf, w_run, w_runbits, w_run_bad) \
        /* pointer_in_range_dfcc places the havocked pointer by assignment (DESIGN 4.2); with a bare     \
         * equality the next call's is_fresh(m_out_buf, 8) cannot be resolved and the path is lost */     \
        __CPROVER_ensures(__CPROVER_pointer_in_range_dfcc(BB_OUT, me->m_out_buf, BB_OUT + 8))      \
        __CPROVER_ensures(me->m_out_buf == BB_OUT + BBN / 8)                                       \
        __CPROVER_ensures(me->m_bit_count == BBN % 8 && me->m_bits == (BBV >> (8 * (BBN / 8))))    \
        /* ghost interpretation of what was appended (constant-run block, see RUN_MEANING) */     \
        __CPROVER_ensures(w_runbits == OLD(w_runbits) + count &&                                   \
                          w_run == OLD(w_run) + RUN_MEANING(code, count) &&                        \
                          w_run_bad == (OLD(w_run_bad) || !RUN_KNOWN(code, count) ? 1u : 0u))      \
        __CPROVER_ensures(me->m_out_start == OLD(me->m_out_start) && me->m_out_end == OLD(me->m_out_end))
#else
#define C_write_bits                                                                               \
        __CPROVER_requires(__CPROVER_is_fresh(me, sizeof(*me)))                                    \
        __CPROVER_requires(g_k < 8)            \
        __CPROVER_requires(me->m_bit_count <= 63 && count <= 63 - me->m_bit_count)                 \
        __CPROVER_requires((me->m_bits >> me->m_bit_count) == 0)                                   \
        __CPROVER_requires(count == 0 ? code == 0 : (code >> count) == 0)                          \
        __CPROVER_requires(__CPROVER_is_fresh(me->m_out_buf, 8))                                   \
        __CPROVER_assigns(me->m_bits, me->m_bit_count, me->m_out_buf,                              \
                          __CPROVER_object_whole(me->m_out_buf))                                   \
        __CPROVER_ensures(me->m_out_buf == BB_OUT + BBN / 8)                                       \
        __CPROVER_ensures(g_k < BBN / 8 ==> BB_OUT[g_k] == BYTE(BBV, g_k))                         \
        __CPROVER_ensures(me->m_bit_count == BBN % 8 && me->m_bits == (BBV >> (8 * (BBN / 8))))    \
        __CPROVER_ensures(BB_WF(*me))
#endif

/* the same precondition as an assertion at the entry of the body: wherever write_bits is inlined into a
 * function under contract (all of igzip.c), "the bits fit" becomes an obligation of that call site */
#define E_write_bits                                                                               \
        __CPROVER_assert(me->m_bit_count <= 63 && count <= 63 - me->m_bit_count,                   \
                         "write_bits call site: pending bits + count <= 63 (no bits are lost)");
#define C_flush_bits                                                                               \
        __CPROVER_requires(__CPROVER_is_fresh(me, sizeof(*me)))                                    \
        __CPROVER_requires(g_k < 8)                                                  \
        __CPROVER_requires(me->m_bit_count <= 63 && (me->m_bits >> me->m_bit_count) == 0)          \
        __CPROVER_requires(__CPROVER_is_fresh(me->m_out_buf, 8))                                   \
        __CPROVER_assigns(me->m_bits, me->m_bit_count, me->m_out_buf,                              \
                          __CPROVER_object_whole(me->m_out_buf))                                   \
        __CPROVER_ensures(me->m_out_buf == BB_OUT + OLD(me->m_bit_count) / 8)                                     \
        __CPROVER_ensures(g_k < OLD(me->m_bit_count) / 8 ==> BB_OUT[g_k] == BYTE(OLD(me->m_bits), g_k))                   \
        __CPROVER_ensures(me->m_bit_count == OLD(me->m_bit_count) % 8 &&                                          \
                          me->m_bits == (OLD(me->m_bits) >> (8 * (OLD(me->m_bit_count) / 8))))                            \
        __CPROVER_ensures(BB_WF(*me))

/* flush: pad with zero bits to the next byte boundary; nothing is written when nothing is pending */
#define C_flush                                                                                    \
        __CPROVER_requires(__CPROVER_is_fresh(me, sizeof(*me)))                                    \
        __CPROVER_requires(g_k < 8)                                                  \
        __CPROVER_requires(me->m_bit_count <= 64 &&                                                \
                           (me->m_bit_count == 64 || (me->m_bits >> me->m_bit_count) == 0))        \
        __CPROVER_requires(__CPROVER_is_fresh(me->m_out_buf, 8))                                   \
        __CPROVER_assigns(me->m_bits, me->m_bit_count;                                             \
                          me->m_bit_count != 0: me->m_out_buf, __CPROVER_object_whole(me->m_out_buf)) \
        __CPROVER_ensures(me->m_out_buf == BB_OUT + (OLD(me->m_bit_count) + 7) / 8)                               \
        __CPROVER_ensures(g_k < (OLD(me->m_bit_count) + 7) / 8 ==> BB_OUT[g_k] == BYTE(OLD(me->m_bits), g_k))             \
        __CPROVER_ensures(me->m_bit_count == 0 && me->m_bits == 0)

#define C_write_bits_flush                                                                         \
        __CPROVER_requires(__CPROVER_is_fresh(me, sizeof(*me)))                                    \
        __CPROVER_requires(g_k < 8)            \
        __CPROVER_requires(me->m_bit_count <= 63 && count <= 64 - me->m_bit_count)                 \
        __CPROVER_requires((me->m_bits >> me->m_bit_count) == 0)                                   \
        __CPROVER_requires(count >= 64 || (code >> count) == 0)                                    \
        __CPROVER_requires(__CPROVER_is_fresh(me->m_out_buf, 8))                                   \
        __CPROVER_assigns(me->m_bits, me->m_bit_count;                                             \
                          me->m_bit_count + count != 0: me->m_out_buf, __CPROVER_object_whole(me->m_out_buf)) \
        __CPROVER_ensures(me->m_out_buf == BB_OUT + (BBN + 7) / 8)                                 \
        __CPROVER_ensures(g_k < (BBN + 7) / 8 ==> BB_OUT[g_k] == BYTE(BBV, g_k))                   \
        __CPROVER_ensures(me->m_bit_count == 0 && me->m_bits == 0)

/* check_space(n): afterwards n more bits fit below bit 63 (for n <= 56), the logical string is unchanged */
#define C_check_space                                                                              \
        __CPROVER_requires(__CPROVER_is_fresh(me, sizeof(*me)))                                    \
        __CPROVER_requires(g_k < 8)                                                  \
        __CPROVER_requires(me->m_bit_count <= 63 && (me->m_bits >> me->m_bit_count) == 0)          \
        __CPROVER_requires(__CPROVER_is_fresh(me->m_out_buf, 8))                                   \
        __CPROVER_assigns(63 - me->m_bit_count < num_bits: me->m_bits, me->m_bit_count, me->m_out_buf, \
                          __CPROVER_object_whole(me->m_out_buf))                                   \
        __CPROVER_ensures(num_bits <= 56 ==> 63 - me->m_bit_count >= num_bits)                     \
        __CPROVER_ensures(me->m_out_buf == BB_OUT || me->m_out_buf == BB_OUT + OLD(me->m_bit_count) / 8)          \
        __CPROVER_ensures(me->m_out_buf == BB_OUT ==>                                              \
                          (me->m_bits == OLD(me->m_bits) && me->m_bit_count == OLD(me->m_bit_count)))                     \
        __CPROVER_ensures(me->m_out_buf != BB_OUT ==>                                              \
                          (me->m_bit_count == OLD(me->m_bit_count) % 8 &&                                         \
                           me->m_bits == (OLD(me->m_bits) >> (8 * (OLD(me->m_bit_count) / 8))) &&                         \
                           (g_k < OLD(me->m_bit_count) / 8 ==> BB_OUT[g_k] == BYTE(OLD(me->m_bits), g_k))))

/* interior pointers of one buffer: allocated through the start pointer, the others placed by
 * __CPROVER_pointer_in_range_dfcc (an assignment, so dereferences and relations resolve, DESIGN 4.2) */
extern size_t g_len;
#define BB_BUF_PRE                                                                                 \
        __CPROVER_requires(__CPROVER_is_fresh(me, sizeof(*me)))                                    \
        __CPROVER_requires(g_len <= 0xffffffffu && __CPROVER_is_fresh(me->m_out_start, g_len))     \
        __CPROVER_requires(__CPROVER_pointer_in_range_dfcc(me->m_out_start, me->m_out_buf,         \
                                                           me->m_out_start + g_len))               \
        __CPROVER_requires(__CPROVER_pointer_in_range_dfcc(me->m_out_start, me->m_out_end,         \
                                                           me->m_out_start + g_len))
#define C_is_full                                                                                  \
        BB_BUF_PRE                                                                                 \
        __CPROVER_assigns()                                                                        \
        __CPROVER_ensures((RET != 0) == (__CPROVER_POINTER_OFFSET(me->m_out_buf) >                 \
                                         __CPROVER_POINTER_OFFSET(me->m_out_end)))

#define C_buffer_used                                                                              \
        BB_BUF_PRE                                                                                 \
        __CPROVER_assigns()                                                                        \
        __CPROVER_ensures(RET == (uint32_t) __CPROVER_POINTER_OFFSET(me->m_out_buf))

/* =====================================================================================================
 * (b) C14 -- flush points
 * ===================================================================================================== */
#define OUT0 __CPROVER_old(stream->next_out)
/* counters advance together by exactly n bytes */
#define ADV_IS(n)                                                                                  \
        (stream->next_out == OUT0 + (n) && stream->avail_out == O_AVAIL - (n) &&                  \
         stream->total_out == O_TOTAL + (n))
#define UNTOUCHED_STATE                                                                            \
        (BB.m_bits == O_BITS && BB.m_bit_count == O_BC && (uint32_t) ST.state == O_ST &&        \
         ST.has_eob == O_EOB && ST.has_eob_hdr == O_EOBH && ST.has_hist == O_HIST &&            \
         ST.count == O_CNT && ST.block_next == O_BN && ST.crc == O_CRC)

/* sync_flush (RFC 1951 empty stored block).  With bc pending bits (bc < 8) and at least 8 bytes of
 * space: the pending bits, BFINAL=0, BTYPE=00 and zero padding fill NB = ceil((bc+3)/8) bytes (1 when
 * bc <= 5, else 2), followed by 00 00 FF FF.  Less than 8 bytes of space: nothing at all changes
 * (conditional frame: not even the output buffer may be written). */
#define C_sync_flush                                                                               \
        __CPROVER_requires(__CPROVER_is_fresh(stream, sizeof(*stream)))                            \
        __CPROVER_requires(BB_WF(BB))                                                \
        __CPROVER_requires(__CPROVER_is_fresh(stream->next_out, stream->avail_out))                \
        __CPROVER_assigns(stream->avail_out >= 8: stream->next_out, stream->avail_out,             \
                          stream->total_out, BB, ST.state, ST.has_eob,                             \
                          __CPROVER_object_upto(stream->next_out, 8);                              \
                          stream->avail_out >= 8 && stream->flush == FULL_FLUSH: ST.has_hist)      \
        __CPROVER_ensures(O_AVAIL < 8 ==> (ADV_IS(0) && UNTOUCHED_STATE))                         \
        __CPROVER_ensures(O_AVAIL >= 8 ==>                                                        \
                          (BB.m_bit_count == 0 && BB.m_bits == 0 && ST.state == ZSTATE_NEW_HDR &&  \
                           ST.has_eob == 0 && ST.has_eob_hdr == O_EOBH &&                         \
                           ST.has_hist == ((O_FLUSH == FULL_FLUSH) ? IGZIP_NO_HIST : O_HIST)))   \
        __CPROVER_ensures((O_AVAIL >= 8 && O_BC <= 5) ==>                                        \
                          (ADV_IS(5) && OUT0[0] == (uint8_t) O_BITS && OUT0[1] == 0x00 &&         \
                           OUT0[2] == 0x00 && OUT0[3] == 0xff && OUT0[4] == 0xff))                 \
        __CPROVER_ensures((O_AVAIL >= 8 && O_BC >= 6) ==>                                        \
                          (ADV_IS(6) && OUT0[0] == (uint8_t) O_BITS && OUT0[1] == 0x00 &&         \
                           OUT0[2] == 0x00 && OUT0[3] == 0x00 && OUT0[4] == 0xff &&                \
                           OUT0[5] == 0xff))

/* flush_write_buffer: pending bits are padded out to a byte (one byte iff bc > 0), state NEW_HDR */
#define C_flush_write_buffer                                                                       \
        __CPROVER_requires(__CPROVER_is_fresh(stream, sizeof(*stream)))                            \
        __CPROVER_requires(BB_WF(BB))                                                \
        __CPROVER_requires(__CPROVER_is_fresh(stream->next_out, stream->avail_out))                \
        __CPROVER_assigns(stream->avail_out >= 8: stream->next_out, stream->avail_out,             \
                          stream->total_out, BB, ST.state;                                         \
                          stream->avail_out >= 8 && BB.m_bit_count != 0:                           \
                          __CPROVER_object_upto(stream->next_out, 8))                              \
        __CPROVER_ensures(O_AVAIL < 8 ==> (ADV_IS(0) && UNTOUCHED_STATE))                         \
        __CPROVER_ensures(O_AVAIL >= 8 ==>                                                        \
                          (BB.m_bit_count == 0 && BB.m_bits == 0 && ST.state == ZSTATE_NEW_HDR &&  \
                           ST.has_eob == O_EOB && ST.has_eob_hdr == O_EOBH &&                    \
                           ST.has_hist == O_HIST))                                                \
        __CPROVER_ensures((O_AVAIL >= 8 && O_BC == 0) ==> ADV_IS(0))                             \
        __CPROVER_ensures((O_AVAIL >= 8 && O_BC != 0) ==>                                        \
                          (ADV_IS(1) && OUT0[0] == (uint8_t) O_BITS))

/* =====================================================================================================
 * (c) C11 -- trailer
 * Abstract sequence still to be emitted when write_trailer is entered:
 *     pending bits (bc < 8)  ||  [ ten bits 0x003 unless a BFINAL header was already written ]
 *     ||  zero padding to a byte boundary  ||  trailer
 * = TR_NBY bytes taken from the TR_N low bits of TR_V, then TR_T trailer bytes:
 *     gzip (flag 1,2): CRC32 LSB first, then total_in LSB first      (RFC 1952)
 *     zlib (flag 3,4): Adler-32 MSB first; the running value is stored as B<<16 | (A-1), so the Adler-32
 *                      is SPEC_ADLER_FIN(crc) = B<<16 | ((A-1)+1) mod 65521          (RFC 1950)
 *     raw deflate    : nothing.
 * One call emits a prefix of that sequence (`adv` bytes) and leaves a state from which the rest is
 * emitted (progress contract, DESIGN 4.5):
 *     adv == 0 and not finished  => nothing changed at all;
 *     0 < adv < TR_NBY           => the EOB block is now marked written, the not yet stored bits are pending;
 *     adv >= TR_NBY              => bit buffer empty;
 *     state == ZSTATE_END  ==>  adv == TR_NBY + TR_T, i.e. only after the complete trailer; otherwise the
 *                                state is still ZSTATE_TRL and adv <= TR_NBY (no part of a trailer is ever
 *                                emitted without the whole of it);
 *     enough space (TR_NBY + 8 bytes: the bit writer's 8-byte slop rule)  =>  finished in this call.
 * Never more than avail_out bytes are touched (exact is_fresh size).
 * ===================================================================================================== */
#define SPEC_ADLER_FIN(s) (((s) & 0xffff0000u) | ((((s) & 0xffffu) + 1u) % 65521u))
#define TR_V (O_BITS | (O_EOBH ? (uint64_t) 0 : ((uint64_t) 0x003 << O_BC)))
#define TR_N (O_BC + (O_EOBH ? 0u : 10u))
#define TR_NBY ((TR_N + 7u) / 8u)
#define TR_GZ (O_GZ == IGZIP_GZIP || O_GZ == IGZIP_GZIP_NO_HDR)
#define TR_ZL (O_GZ == IGZIP_ZLIB || O_GZ == IGZIP_ZLIB_NO_HDR)
#define TR_T (TR_GZ ? 8u : (TR_ZL ? 4u : 0u))
#define TR_ADV (O_AVAIL - stream->avail_out)
#define TR_DONE (ST.state == ZSTATE_END)
#define TR_GZ_AT(n)                                                                                \
        (OUT0[(n) + 0] == BYTE(O_CRC, 0) && OUT0[(n) + 1] == BYTE(O_CRC, 1) &&                   \
         OUT0[(n) + 2] == BYTE(O_CRC, 2) && OUT0[(n) + 3] == BYTE(O_CRC, 3) &&                   \
         OUT0[(n) + 4] == BYTE(O_TIN, 0) && OUT0[(n) + 5] == BYTE(O_TIN, 1) &&                   \
         OUT0[(n) + 6] == BYTE(O_TIN, 2) && OUT0[(n) + 7] == BYTE(O_TIN, 3))
#define TR_ZL_AT(n)                                                                                \
        (OUT0[(n) + 0] == BYTE(SPEC_ADLER_FIN(O_CRC), 3) &&                                       \
         OUT0[(n) + 1] == BYTE(SPEC_ADLER_FIN(O_CRC), 2) &&                                       \
         OUT0[(n) + 2] == BYTE(SPEC_ADLER_FIN(O_CRC), 1) &&                                       \
         OUT0[(n) + 3] == BYTE(SPEC_ADLER_FIN(O_CRC), 0))
extern uint32_t w_trl_calls, w_trl_crc;
#define E_write_trailer                                                                            \
        w_trl_calls++;                                                                             \
        w_trl_crc = stream->internal_state.crc;
#ifdef DF_TRAILER_GE8
#define TR_EXTRA_REQ __CPROVER_requires(stream->avail_out >= 8)
#else
#define TR_EXTRA_REQ
#endif
#define C_write_trailer                                                                            \
        __CPROVER_requires(__CPROVER_is_fresh(stream, sizeof(*stream)))                            \
        TR_EXTRA_REQ                                                                               \
        __CPROVER_requires(BB_WF(BB))                                                \
        __CPROVER_requires(ST.state == ZSTATE_TRL && ST.has_eob_hdr <= 1)                          \
        __CPROVER_requires(__CPROVER_is_fresh(stream->next_out, stream->avail_out))                \
        __CPROVER_assigns(stream->next_out, stream->avail_out, stream->total_out, BB, ST.state,    \
                          ST.has_eob_hdr, w_trl_calls, w_trl_crc,                                  \
                          __CPROVER_object_whole(stream->next_out))                                \
        /* ghost record: the running checksum this call was made with (callers state that it is final) */ \
        __CPROVER_ensures(w_trl_calls == OLD(w_trl_calls) + 1 && w_trl_crc == O_CRC)               \
        /* counters move together and never past the space offered */                              \
        __CPROVER_ensures(stream->avail_out <= O_AVAIL && ADV_IS(TR_ADV))                         \
        __CPROVER_ensures(ST.state == ZSTATE_END || ST.state == ZSTATE_TRL)                        \
        /* ZSTATE_END only when the whole remainder, trailer included, went out */                 \
        __CPROVER_ensures(TR_DONE ==> (TR_ADV == TR_NBY + TR_T))                                   \
        __CPROVER_ensures(!TR_DONE ==> TR_ADV <= TR_NBY)                                           \
        /* the bytes of the final bits */                                                          \
        __CPROVER_ensures((TR_ADV > 0 && TR_NBY > 0) ==> OUT0[0] == BYTE(TR_V, 0))                 \
        __CPROVER_ensures((TR_ADV > 1 && TR_NBY > 1) ==> OUT0[1] == BYTE(TR_V, 1))                 \
        __CPROVER_ensures((TR_ADV > 2 && TR_NBY > 2) ==> OUT0[2] == BYTE(TR_V, 2))                 \
        /* what is left for the next call */                                                       \
        __CPROVER_ensures((TR_ADV == 0 && !TR_DONE) ==> UNTOUCHED_STATE)                           \
        __CPROVER_ensures(ST.has_eob_hdr == ((O_EOBH || TR_ADV > 0) ? 1 : 0))                     \
        __CPROVER_ensures((TR_ADV > 0 && TR_ADV < TR_NBY) ==>                                      \
                          (BB.m_bit_count == TR_N - 8 * TR_ADV && BB.m_bits == (TR_V >> (8 * TR_ADV)))) \
        __CPROVER_ensures(BB_WF(BB))                                                               \
        __CPROVER_ensures((TR_ADV >= TR_NBY && (TR_ADV > 0 || TR_DONE)) ==>                        \
                          (BB.m_bit_count == 0 && BB.m_bits == 0))                                 \
        /* the trailer itself */                                                                   \
        __CPROVER_ensures((TR_DONE && TR_GZ && TR_NBY == 0) ==> TR_GZ_AT(0))                       \
        __CPROVER_ensures((TR_DONE && TR_GZ && TR_NBY == 1) ==> TR_GZ_AT(1))                       \
        __CPROVER_ensures((TR_DONE && TR_GZ && TR_NBY == 2) ==> TR_GZ_AT(2))                       \
        __CPROVER_ensures((TR_DONE && TR_GZ && TR_NBY == 3) ==> TR_GZ_AT(3))                       \
        __CPROVER_ensures((TR_DONE && TR_ZL && TR_NBY == 0) ==> TR_ZL_AT(0))                       \
        __CPROVER_ensures((TR_DONE && TR_ZL && TR_NBY == 1) ==> TR_ZL_AT(1))                       \
        __CPROVER_ensures((TR_DONE && TR_ZL && TR_NBY == 2) ==> TR_ZL_AT(2))                       \
        __CPROVER_ensures((TR_DONE && TR_ZL && TR_NBY == 3) ==> TR_ZL_AT(3))                       \
        /* progress: with the slop the bit writer needs, the trailer is completed now */           \
        __CPROVER_ensures(O_AVAIL >= TR_NBY + 8 ==> TR_DONE)                                       \
        /* nothing pending (byte boundary, final block already marked): the trailer needs just its own size */ \
        __CPROVER_ensures((TR_NBY == 0 && O_AVAIL >= TR_T) ==> TR_DONE)

/* update_checksum: gzip flags -> CRC-32 routine, zlib flags -> Adler routine, exactly one call over
 * exactly (running value, start_in, length); result becomes the running value; raw deflate: no call.
 * The callees are recorded uninterpreted functions (stubs_igzip.h). */
#define CK_CRC_CALLS (w_crc_calls - OLD(w_crc_calls))
#define CK_AD_CALLS (w_ad_calls - OLD(w_ad_calls))
#define C_update_checksum                                                                          \
        __CPROVER_requires(__CPROVER_is_fresh(stream, sizeof(*stream)))                            \
        __CPROVER_requires((stream->gzip_flag == IGZIP_ZLIB || stream->gzip_flag == IGZIP_ZLIB_NO_HDR) ==> \
                           (ST.crc & 0xffff) < 65521)                                              \
        __CPROVER_assigns(ST.crc, w_crc_init, w_crc_len, w_crc_buf, w_crc_calls, w_ad_init,        \
                          w_ad_len, w_ad_buf, w_ad_calls)                                          \
        __CPROVER_ensures(TR_GZ ==> (CK_CRC_CALLS == 1 && CK_AD_CALLS == 0 && w_crc_init == O_CRC && \
                                     w_crc_buf == start_in && w_crc_len == length &&               \
                                     ST.crc == g_crc_ret))                                         \
        __CPROVER_ensures(TR_ZL ==> (CK_CRC_CALLS == 0 && CK_AD_CALLS == 1 && w_ad_buf == start_in && \
                                     w_ad_len == length && w_ad_init == SPEC_ADLER_FIN(O_CRC) &&   \
                                     (ST.crc & 0xffff) < 65521 &&                                  \
                                     SPEC_ADLER_FIN(ST.crc) == g_ad_ret))                          \
        __CPROVER_ensures((!TR_GZ && !TR_ZL) ==>                                                   \
                          (CK_CRC_CALLS == 0 && CK_AD_CALLS == 0 && ST.crc == O_CRC))

/* isal_adler32_bam1: conjugation of isal_adler32 with the storage map s -> SPEC_ADLER_FIN(s):
 * FIN(ret) == isal_adler32(FIN(init), start, length) and ret is again a valid stored value (A-1 < 65521),
 * which determines ret uniquely. */
#define C_isal_adler32_bam1                                                                        \
        __CPROVER_requires((adler32 & 0xffff) < 65521)                                             \
        __CPROVER_assigns(w_ad_init, w_ad_len, w_ad_buf, w_ad_calls)                               \
        __CPROVER_ensures(CK_AD_CALLS == 1 && w_ad_init == SPEC_ADLER_FIN(adler32) &&              \
                          w_ad_buf == start && w_ad_len == length)                                 \
        __CPROVER_ensures((RET & 0xffff) < 65521 && SPEC_ADLER_FIN(RET) == g_ad_ret)

/* =====================================================================================================
 * (d) C10 -- parameter checks
 * check_level_req (igzip_lib.h: ISAL_INVALID_LEVEL "Invalid Compression level set",
 * ISAL_INVALID_LEVEL_BUF "Invalid buffer specified for the compression level"; ISAL_DEF_LVLn_MIN):
 * pure function of (level, level_buf, level_buf_size); touches nothing. */
#define SPEC_LVL_MIN(l)                                                                            \
        ((l) == 1 ? (uint32_t) ISAL_DEF_LVL1_MIN                                                   \
                  : ((l) == 2 ? (uint32_t) ISAL_DEF_LVL2_MIN : (uint32_t) (ISAL_DEF_LVL3_MIN)))
#define SPEC_LEVEL_OK(l, buf, sz)                                                                  \
        ((l) == 0 || ((l) <= 3 && (buf) != NULL && (sz) >= SPEC_LVL_MIN(l)))
#define C_check_level_req                                                                          \
        __CPROVER_requires(__CPROVER_is_fresh(stream, sizeof(*stream)))                            \
        __CPROVER_assigns()                                                                        \
        __CPROVER_ensures((RET == 0) == SPEC_LEVEL_OK(stream->level, stream->level_buf,            \
                                                      stream->level_buf_size))                     \
        __CPROVER_ensures(RET == 0 || RET == ISAL_INVALID_LEVEL || RET == ISAL_INVALID_LEVEL_BUF)  \
        /* a level outside 0..3 with a buffer present is an invalid level; a valid level >= 1      \
         * without any buffer is an invalid level buffer (igzip_lib.h return-code texts) */        \
        __CPROVER_ensures((stream->level > 3 && stream->level_buf != NULL) ==>                     \
                          RET == ISAL_INVALID_LEVEL)                                               \
        __CPROVER_ensures((stream->level >= 1 && stream->level <= 3 && stream->level_buf == NULL) ==> \
                          RET == ISAL_INVALID_LEVEL_BUF)

/* -----------------------------------------------------------------------------------------------------
 * Stored blocks (RFC 1951 3.2.4).  T0_SZ = bytes of the current block [block_next, block_end) not yet
 * written; a stored block carries at most 65535 of them.  BFINAL is set exactly when this is the last
 * piece of the block, the caller announced end_of_stream and no input lies beyond the block.
 * Header = pending bits, BFINAL, BTYPE=00, zero padding (T0_NB bytes), LEN, NLEN = ~LEN (LSB first).
 * Space rule: 5 bytes suffice when the bit buffer is empty (this is what the stored-size bound of
 * isal_deflate_stateless -- 5 bytes per block -- rests on), otherwise the bit writer's 8 bytes.
 * No space: nothing is written and nothing changes. */
#define T0_SZ ((uint32_t) (O_BE - O_BN))
#define T0_LEN (T0_SZ > 65535u ? 65535u : T0_SZ)
#define T0_FINAL                                                                                   \
        ((T0_SZ <= 65535u && O_EOS != 0 && (uint32_t) (O_AIN + (uint32_t) (O_TIN - O_BN)) == T0_SZ) ? 1 : 0)
#define T0_NB(bc) (((bc) + 3u + 7u) / 8u)
#define T0_FITS(bc, av) (((bc) == 0 && (av) >= 5) || (av) >= 8)
#define T0_HL(bc) (T0_NB(bc) + 4u)
#define T0_B0 ((uint8_t) (O_BITS | ((uint64_t) T0_FINAL << O_BC)))
#define T0_LENBYTES(n)                                                                             \
        (OUT0[(n) + 0] == BYTE(T0_LEN, 0) && OUT0[(n) + 1] == BYTE(T0_LEN, 1) &&                   \
         OUT0[(n) + 2] == (uint8_t) ~BYTE(T0_LEN, 0) && OUT0[(n) + 3] == (uint8_t) ~BYTE(T0_LEN, 1))
#define C_write_type0_header                                                                       \
        __CPROVER_requires(__CPROVER_is_fresh(stream, sizeof(*stream)))                            \
        __CPROVER_requires(BB_WF(BB))                                                \
        __CPROVER_requires(ST.state == ZSTATE_TYPE0_HDR && ST.has_eob_hdr == 0)                    \
        __CPROVER_requires(__CPROVER_is_fresh(stream->next_out, stream->avail_out))                \
        __CPROVER_assigns(ST.has_eob_hdr;                                                          \
                          T0_FITS(BB.m_bit_count, stream->avail_out): stream->next_out,            \
                          stream->avail_out, stream->total_out, ST.state, ST.count;                \
                          BB.m_bit_count == 0 && stream->avail_out >= 5:                           \
                          __CPROVER_object_upto(stream->next_out, 5);                              \
                          BB.m_bit_count != 0 && stream->avail_out >= 8: BB,                       \
                          __CPROVER_object_upto(stream->next_out, 8))                              \
        __CPROVER_ensures(!T0_FITS(O_BC, O_AVAIL) ==> (ADV_IS(0) && UNTOUCHED_STATE))            \
        __CPROVER_ensures(T0_FITS(O_BC, O_AVAIL) ==>                                             \
                          (ADV_IS(T0_HL(O_BC)) && ST.state == ZSTATE_TYPE0_BODY &&                \
                           ST.count == T0_LEN && ST.has_eob_hdr == T0_FINAL &&                     \
                           BB.m_bit_count == 0 && BB.m_bits == 0 && ST.block_next == O_BN &&      \
                           ST.has_eob == O_EOB && ST.has_hist == O_HIST))                        \
        __CPROVER_ensures((T0_FITS(O_BC, O_AVAIL) && O_BC <= 5) ==>                             \
                          (OUT0[0] == T0_B0 && T0_LENBYTES(1)))                                    \
        __CPROVER_ensures((T0_FITS(O_BC, O_AVAIL) && O_BC >= 6) ==>                             \
                          (OUT0[0] == T0_B0 && OUT0[1] == 0 && T0_LENBYTES(2)))

/* -----------------------------------------------------------------------------------------------------
 * Wrapper headers written by the compressor itself (the generic ones; the full-featured writers are C19).
 * gzip (RFC 1952 2.3): 1f 8b 08 FLG=0 MTIME=0 XFL OS=ff(unknown); XFL = 4 "fastest algorithm" for level 0.
 * zlib (RFC 1950 2.2): CMF = CINFO<<4 | 8 with CINFO = window bits - 8 (window 2^15 when hist_bits is 0,
 *                      never below 2^8), FLG: FLEVEL = 0 for level 0 else 1, FDICT = 0, FCHECK makes
 *                      CMF*256+FLG a multiple of 31. */
#define SH_ZL (O_GZ == IGZIP_ZLIB)
#define SH_LEN (SH_ZL ? 2u : 10u)
#define SH_CINFO (O_HB == 0 ? 7u : (O_HB > 8 ? (uint32_t) O_HB - 8u : 0u))
#define SH_CMF ((SH_CINFO << 4) | 8u)
#define SH_FLG0 ((O_LVL == 0 ? 0u : 1u) << 6)
#define SH_FLG (SH_FLG0 + 31u - ((SH_CMF * 256u + SH_FLG0) % 31u))
/* byte k of the header (k < SH_LEN) */
#define SH_BYTE(k)                                                                                 \
        ((uint8_t) (SH_ZL ? ((k) == 0 ? SH_CMF : SH_FLG)                                           \
                          : ((k) == 0   ? 0x1f                                                     \
                             : (k) == 1 ? 0x8b                                                     \
                             : (k) == 2 ? 0x08                                                     \
                             : (k) == 8 ? (O_LVL == 0 ? 0x04 : 0x00)                              \
                             : (k) == 9 ? 0xff                                                     \
                                        : 0x00)))
#define SH_PRE                                                                                     \
        __CPROVER_requires(__CPROVER_is_fresh(stream, sizeof(*stream)))                            \
        __CPROVER_requires(stream->gzip_flag == IGZIP_GZIP || stream->gzip_flag == IGZIP_ZLIB)     \
        __CPROVER_requires(stream->hist_bits <= ISAL_DEF_MAX_HIST_BITS)                            \
        __CPROVER_requires(__CPROVER_is_fresh(stream->next_out, stream->avail_out))

/* one-shot variant: all or nothing; needs strictly more space than the header (something must follow) */
#define C_write_stream_header_stateless                                                            \
        SH_PRE                                                                                     \
        __CPROVER_assigns(!ST.has_wrap_hdr && ((stream->gzip_flag == IGZIP_ZLIB && stream->avail_out > 2) || \
                                               (stream->gzip_flag != IGZIP_ZLIB && stream->avail_out > 10)): \
                          stream->next_out,                                                        \
                          stream->avail_out, stream->total_out, ST.has_wrap_hdr, stream->gzip_flag; \
                          !ST.has_wrap_hdr && stream->gzip_flag == IGZIP_ZLIB && stream->avail_out > 2: \
                          __CPROVER_object_upto(stream->next_out, 2);                              \
                          !ST.has_wrap_hdr && stream->gzip_flag != IGZIP_ZLIB && stream->avail_out > 10: \
                          __CPROVER_object_upto(stream->next_out, 10))                             \
        __CPROVER_ensures(RET == COMP_OK || RET == STATELESS_OVERFLOW)                             \
        __CPROVER_ensures(O_WRAP ==> (RET == COMP_OK && ADV_IS(0) && stream->gzip_flag == O_GZ && \
                                       ST.has_wrap_hdr == O_WRAP))                                \
        __CPROVER_ensures((!O_WRAP && O_AVAIL > SH_LEN) ==>                                      \
                          (RET == COMP_OK && ADV_IS(SH_LEN) && ST.has_wrap_hdr == 1 &&             \
                           stream->gzip_flag == (SH_ZL ? IGZIP_ZLIB_NO_HDR : IGZIP_GZIP_NO_HDR)))  \
        __CPROVER_ensures((!O_WRAP && O_AVAIL > SH_LEN && g_k < SH_LEN) ==> OUT0[g_k] == SH_BYTE(g_k)) \
        __CPROVER_ensures((!O_WRAP && O_AVAIL <= SH_LEN) ==>                                     \
                          (RET == STATELESS_OVERFLOW && ADV_IS(0) && stream->gzip_flag == O_GZ && \
                           ST.has_wrap_hdr == 0))

/* streaming variant (C07 progress contract): state.count bytes of the header are out already; this call
 * emits exactly the next n = min(rest, avail_out) of them, for any split */
#define SHR_N ((SH_LEN - O_CNT) < O_AVAIL ? (SH_LEN - O_CNT) : O_AVAIL)
/* frame: exactly the n bytes emitted (ternaries are not allowed in frames: one group per case) */
#define SHR_FR(flag, len)                                                                          \
        !ST.has_wrap_hdr && stream->gzip_flag == (flag) && (len) - ST.count < stream->avail_out:   \
                __CPROVER_object_upto(stream->next_out, (len) - ST.count);                         \
        !ST.has_wrap_hdr && stream->gzip_flag == (flag) && (len) - ST.count >= stream->avail_out:  \
                __CPROVER_object_upto(stream->next_out, stream->avail_out)
#define C_write_stream_header                                                                      \
        SH_PRE                                                                                     \
        __CPROVER_requires(!ST.has_wrap_hdr ==> ST.count < (stream->gzip_flag == IGZIP_ZLIB ? 2u : 10u))                               \
        __CPROVER_assigns(!ST.has_wrap_hdr: stream->next_out, stream->avail_out, stream->total_out, \
                          ST.has_wrap_hdr, ST.count;                                               \
                          SHR_FR(IGZIP_ZLIB, 2u); SHR_FR(IGZIP_GZIP, 10u))                         \
        __CPROVER_ensures(stream->gzip_flag == O_GZ)                                              \
        __CPROVER_ensures(O_WRAP ==> (ADV_IS(0) && ST.count == O_CNT && ST.has_wrap_hdr == O_WRAP)) \
        __CPROVER_ensures(!O_WRAP ==> ADV_IS(SHR_N))                                              \
        __CPROVER_ensures((!O_WRAP && g_k < SHR_N) ==> OUT0[g_k] == SH_BYTE(O_CNT + g_k))        \
        __CPROVER_ensures((!O_WRAP && O_CNT + SHR_N == SH_LEN) ==>                               \
                          (ST.has_wrap_hdr == 1 && ST.count == 0))                                 \
        __CPROVER_ensures((!O_WRAP && O_CNT + SHR_N < SH_LEN) ==>                                \
                          (ST.has_wrap_hdr == 0 && ST.count == O_CNT + SHR_N && stream->avail_out == 0))

/* set_dist_mask (C17): window = 2^hist_bits, default / clamp 2^15; set_hash_mask: table size of the level */
#define C_set_dist_mask                                                                            \
        __CPROVER_requires(__CPROVER_is_fresh(stream, sizeof(*stream)))                            \
        __CPROVER_assigns(stream->hist_bits, ST.dist_mask)                                         \
        __CPROVER_ensures(stream->hist_bits == ((O_HB == 0 || O_HB > 15) ? 15 : O_HB))          \
        __CPROVER_ensures(ST.dist_mask == (1u << stream->hist_bits) - 1u && ST.dist_mask <= 32767u)
#define SPEC_HASH_MASK(l)                                                                          \
        ((l) == 0 ? (uint32_t) IGZIP_LVL0_HASH_SIZE - 1u                                           \
                  : ((l) == 1 ? (uint32_t) IGZIP_LVL1_HASH_SIZE - 1u                               \
                              : ((l) == 2 ? (uint32_t) IGZIP_LVL2_HASH_SIZE - 1u                   \
                                          : (uint32_t) IGZIP_LVL3_HASH_SIZE - 1u)))
#define C_set_hash_mask                                                                            \
        __CPROVER_requires(__CPROVER_is_fresh(stream, sizeof(*stream)))                            \
        __CPROVER_requires(stream->level <= 3)                                                     \
        __CPROVER_assigns(ST.hash_mask)                                                            \
        __CPROVER_ensures(ST.hash_mask == SPEC_HASH_MASK(stream->level))

/* =====================================================================================================
 * (f) C15 -- init / reset.  Frames name single fields of the caller's struct: next_in/avail_in/next_out/
 * avail_out, the history buffer, the hash heads and every library global are outside the frame.
 * ===================================================================================================== */
#define ZSTATE_FRESH                                                                               \
        (ST.block_next == 0 && ST.block_end == 0 && ST.b_bytes_valid == 0 &&                       \
         ST.b_bytes_processed == 0 && ST.total_in_start == 0 && ST.has_wrap_hdr == 0 &&            \
         ST.has_eob == 0 && ST.has_eob_hdr == 0 && ST.has_hist == IGZIP_NO_HIST &&                 \
         ST.has_level_buf_init == 0 && ST.state == ZSTATE_NEW_HDR && ST.count == 0 &&              \
         ST.tmp_out_start == 0 && ST.tmp_out_end == 0 && BB.m_bits == 0 && BB.m_bit_count == 0 &&  \
         ST.crc == 0)
#define ZSTATE_FRESH_FRAME                                                                         \
        ST.block_next, ST.block_end, ST.b_bytes_valid, ST.b_bytes_processed, ST.total_in_start,    \
                ST.has_wrap_hdr, ST.has_eob, ST.has_eob_hdr, ST.has_hist, ST.has_level_buf_init,   \
                ST.state, ST.count, ST.tmp_out_start, ST.tmp_out_end, BB.m_bits, BB.m_bit_count,   \
                ST.crc
#define ZSTREAM_DEFAULTS                                                                           \
        (stream->total_in == 0 && stream->total_out == 0 &&                                        \
         stream->hufftables == (struct isal_hufftables *) &hufftables_default &&                   \
         stream->level == 0 && stream->level_buf == NULL && stream->level_buf_size == 0 &&         \
         stream->end_of_stream == 0 && stream->flush == NO_FLUSH && stream->gzip_flag == 0 &&      \
         stream->hist_bits == 0)
#define ZSTREAM_DEFAULTS_FRAME                                                                     \
        stream->total_in, stream->total_out, stream->hufftables, stream->level, stream->level_buf, \
                stream->level_buf_size, stream->end_of_stream, stream->flush, stream->gzip_flag,   \
                stream->hist_bits
#define C_isal_deflate_init                                                                        \
        __CPROVER_requires(__CPROVER_is_fresh(stream, sizeof(*stream)))                            \
        __CPROVER_assigns(ZSTREAM_DEFAULTS_FRAME, ZSTATE_FRESH_FRAME)                              \
        __CPROVER_ensures(ZSTREAM_DEFAULTS && ZSTATE_FRESH)
/* reset: same as init except the user's settings (igzip_lib.h) */
#define C_isal_deflate_reset                                                                       \
        __CPROVER_requires(__CPROVER_is_fresh(stream, sizeof(*stream)))                            \
        __CPROVER_assigns(stream->total_in, stream->total_out, ZSTATE_FRESH_FRAME)                 \
        __CPROVER_ensures(stream->total_in == 0 && stream->total_out == 0 && ZSTATE_FRESH)
/* one-shot init: user settings, plus the two state fields isal_deflate_stateless does not set itself */
#define C_isal_deflate_stateless_init                                                              \
        __CPROVER_requires(__CPROVER_is_fresh(stream, sizeof(*stream)))                            \
        __CPROVER_assigns(ZSTREAM_DEFAULTS_FRAME, ST.has_wrap_hdr, ST.state)                       \
        __CPROVER_ensures(ZSTREAM_DEFAULTS && ST.has_wrap_hdr == 0 && ST.state == ZSTATE_NEW_HDR)
/* header structs: RFC 1952 defaults -- no optional field, MTIME 0, OS 255 = unknown; RFC 1950: no dictionary */
#define C_isal_gzip_header_init                                                                    \
        __CPROVER_requires(__CPROVER_is_fresh(gz_hdr, sizeof(*gz_hdr)))                            \
        __CPROVER_assigns(__CPROVER_object_whole(gz_hdr))                                          \
        __CPROVER_ensures(gz_hdr->text == 0 && gz_hdr->time == 0 && gz_hdr->xflags == 0 &&         \
                          gz_hdr->os == 0xff && gz_hdr->extra == NULL && gz_hdr->extra_buf_len == 0 && \
                          gz_hdr->extra_len == 0 && gz_hdr->name == NULL && gz_hdr->name_buf_len == 0 && \
                          gz_hdr->comment == NULL && gz_hdr->comment_buf_len == 0 &&               \
                          gz_hdr->hcrc == 0 && gz_hdr->flags == 0)
#define C_isal_zlib_header_init                                                                    \
        __CPROVER_requires(__CPROVER_is_fresh(z_hdr, sizeof(*z_hdr)))                              \
        __CPROVER_assigns(__CPROVER_object_whole(z_hdr))                                           \
        __CPROVER_ensures(z_hdr->info == 0 && z_hdr->level == 0 && z_hdr->dict_id == 0 &&          \
                          z_hdr->dict_flag == 0)

/* -----------------------------------------------------------------------------------------------------
 * reset_match_history (C14/C15): afterwards there is no match history and every hash head that the
 * current hash mask can select holds the current input position (low 16 bits of total_in), so a stale
 * entry can never produce a distance reaching back beyond the reset point.
 * The table is state.head for level 0 (and any level outside 1..3), else the level's table in level_buf.
 * Stated for one ghost pair of heads g_wm_i (unconstrained => every pair); the same ghost position is
 * the one the wmemset model writes.
 * hash_mask is 2^k - 1 within the level's table (set_hash_mask, possibly lowered to (1 << bsr(n)) - 1). */
#define RMH_LVLN (stream->level >= 1 && stream->level <= 3)
/* level_buf is the caller's byte buffer of level_buf_size bytes; check_level_req guarantees at least
 * ISAL_DEF_LVLn_MIN.  Allocated with exactly that minimum: touching a byte beyond it is a failure. */
/* the level is split over harness variants (default: level outside 1..3, state.head is the table;
 * -DDF_LVLN: level 1..3, level_buf holds the table) */
#if defined(DF_LVLN)
#define LVL_SPLIT __CPROVER_requires(RMH_LVLN)
#else
#define LVL_SPLIT __CPROVER_requires(!RMH_LVLN)
#endif
#define LB_PRE                                                                                     \
        LVL_SPLIT                                                                                  \
        __CPROVER_requires(RMH_LVLN ==> (stream->level_buf_size >= SPEC_LVL_MIN(stream->level) &&  \
                                         __CPROVER_is_fresh(stream->level_buf, SPEC_LVL_MIN(stream->level))))
#define RMH_LB ((struct level_buf *) stream->level_buf)
#define RMH_MASK_OK                                                                                \
        (((ST.hash_mask + 1u) & ST.hash_mask) == 0 &&                                              \
         ST.hash_mask <= (RMH_LVLN ? SPEC_HASH_MASK(stream->level) : SPEC_HASH_MASK(0)))
/* frame: exactly the heads 0..hash_mask (one wide character = two heads at least) */
#define RMH_FR(cond, tbl)                                                                          \
        (cond) && ST.hash_mask == 0: __CPROVER_object_upto((uint8_t *) (tbl), 4);                  \
        (cond) && ST.hash_mask != 0: __CPROVER_object_upto((uint8_t *) (tbl), 2 * ((size_t) ST.hash_mask + 1))
/* heads are looked at in pairs: one wide character g_wm_i = heads 2*g_wm_i and 2*g_wm_i+1 */
#define RMH_V ((uint16_t) stream->total_in)
#define RMH_IN (g_wm_i <= (size_t) ST.hash_mask / 2)
#define RMH_PAIR(t) ((t)[2 * g_wm_i] == RMH_V && (t)[2 * g_wm_i + 1] == RMH_V)
/* the three level tables are members of one union and start at the same byte of level_buf */
#define RMH_LBT ((uint16_t *) (stream->level_buf + offsetof(struct level_buf, lvl1.hash_table)))
/* DF_RMH_COARSE (harnesses that *use* this contract through --replace-call-with-contract): the frame is
 * widened to the whole table object -- implied by the exact frame proved in the reset_match_history
 * harnesses, and a typed havoc instead of a byte-slice havoc of an 80 KiB struct. */
#if defined(DF_RMH_COARSE) && defined(DF_LVLN)
#define RMH_FRAME __CPROVER_object_whole(stream->level_buf)
#define RMH_POST __CPROVER_ensures(RMH_IN ==> RMH_PAIR(RMH_LBT))
#elif defined(DF_RMH_COARSE)
#define RMH_FRAME ST.head
#define RMH_POST __CPROVER_ensures(RMH_IN ==> RMH_PAIR(ST.head))
#elif defined(DF_LVLN)
#define RMH_FRAME RMH_FR(1, RMH_LBT)
#define RMH_POST __CPROVER_ensures(RMH_IN ==> RMH_PAIR(RMH_LBT))
#else
#define RMH_FRAME RMH_FR(1, ST.head)
#define RMH_POST __CPROVER_ensures(RMH_IN ==> RMH_PAIR(ST.head))
#endif
#define C_reset_match_history                                                                      \
        __CPROVER_requires(__CPROVER_is_fresh(stream, sizeof(*stream)))                            \
        LB_PRE                                                                                     \
        __CPROVER_requires(RMH_MASK_OK)                                                            \
        __CPROVER_assigns(ST.has_hist; RMH_FRAME)                                                  \
        __CPROVER_ensures(ST.has_hist == IGZIP_NO_HIST)                                            \
        RMH_POST

/* -----------------------------------------------------------------------------------------------------
 * write_stored_block (C10, C07, C05): emits the not yet written part [block_next, block_end) of the
 * current block as stored blocks of at most 65535 bytes, as far as output space and available input
 * allow, and can be re-entered at any point (state TYPE0_HDR: next piece needs its header; TYPE0_BODY:
 * state.count bytes of the current piece are still to be copied).
 * Input: the block's bytes were consumed earlier, they lie SB_OFF = total_in - block_next bytes *before*
 * next_in; together with avail_in that is all the function may read:  exactly [next_in - SB_OFF,
 * next_in + avail_in)  (ghost base pointer g_in, allocated with exactly that size).
 * next_in / avail_in / total_in are outside the frame.
 * ----------------------------------------------------------------------------------------------------- */
extern uint8_t *g_in;      /* ghost: first byte of the readable input = the byte at block_next */
extern uint32_t w_nblk;    /* ghost: completed loop iterations */
extern size_t g_o;         /* ghost: output byte position (relative to next_out at entry) */
extern uint32_t w_base, w_bn, w_hdr, w_bc, w_av; /* ghost record of the piece that covers g_o */
extern uint64_t w_bits;
#define SB_OFF_NOW ((uint32_t) (stream->total_in - ST.block_next))
#define SB_REM_NOW ((uint32_t) (ST.block_end - ST.block_next))
#define SB_INTOT_NOW ((uint64_t) SB_OFF_NOW + stream->avail_in)
#define SB_OFF ((uint32_t) (O_TIN - O_BN))
#define SB_REM ((uint32_t) (O_BE - O_BN))
#define SB_INTOT ((uint64_t) SB_OFF + O_AIN)
#define SB_ADV (O_AVAIL - stream->avail_out)
#define SB_D ((uint32_t) (ST.block_next - O_BN)) /* data bytes written by this call */
/* stored size of n bytes starting at a byte boundary: n + 5 per started 65535-byte piece, at least one */
#define SPEC_STORED_LEN(n) ((uint64_t) (n) + 5u * ((n) == 0 ? 1u : (((uint64_t) (n) + 65534u) / 65535u)))
/* the flush mode is split over harness variants: default flush != FULL_FLUSH (the match history and the
 * hash tables are outside the frame, level_buf is not touched at all); -DDF_SB_FF: flush == FULL_FLUSH,
 * where completing the block clears the history (reset_match_history), table = state.head or, with
 * -DDF_LVLN, level_buf */
#if defined(DF_SB_FF)
/* level 3 keeps pointers to its match queue inside level_buf; that case is not covered */
#define SB_EXP __CPROVER_requires(stream->flush == FULL_FLUSH && RMH_MASK_OK && stream->level != 3) LB_PRE
#elif defined(DF_SB_BOUNDED)
/* bounded stand-in (quick tier): at most one stored block left, so the loop runs at most twice */
#define SB_EXP __CPROVER_requires(stream->flush != FULL_FLUSH && SB_REM_NOW <= 65535u)
#else
#define SB_EXP __CPROVER_requires(stream->flush != FULL_FLUSH)
#endif
#define SB_PRE                                                                                     \
        __CPROVER_requires(__CPROVER_is_fresh(stream, sizeof(*stream)))                            \
        SB_EXP                                                                                     \
        __CPROVER_requires(BB_WF(BB))                                                              \
        __CPROVER_requires(ST.state == ZSTATE_TYPE0_HDR || ST.state == ZSTATE_TYPE0_BODY)          \
        __CPROVER_requires(ST.state == ZSTATE_TYPE0_HDR ==> ST.has_eob_hdr == 0)                   \
        __CPROVER_requires(ST.state == ZSTATE_TYPE0_BODY ==>                                       \
                           (ST.count <= SB_REM_NOW && ST.has_eob_hdr <= 1 && BB.m_bit_count == 0 && \
                            (ST.has_eob_hdr == 1 ==> ST.count == SB_REM_NOW)))                     \
        /* the block consists of consumed input: block_end <= total_in (so everything that is copied lies \
         * before next_in; otherwise total_in - block_next would wrap inside the loop) */          \
        __CPROVER_requires(SB_REM_NOW <= SB_OFF_NOW)                                               \
        __CPROVER_requires(SB_INTOT_NOW <= 0xffffffffu)                                            \
        __CPROVER_requires(__CPROVER_is_fresh(g_in, SB_INTOT_NOW))                                 \
        __CPROVER_requires(__CPROVER_pointer_in_range_dfcc(g_in, stream->next_in, g_in + SB_INTOT_NOW)) \
        __CPROVER_requires(stream->next_in == g_in + SB_OFF_NOW)                                   \
        __CPROVER_requires(__CPROVER_is_fresh(stream->next_out, stream->avail_out))                \
        __CPROVER_requires(w_nblk == 0)
#if !defined(DF_SB_FF)
#define SB_TABLE_FRAME w_nblk
#define SB_EMPTY_IN 0
#elif defined(DF_LVLN)
#define SB_TABLE_FRAME ST.has_hist, __CPROVER_object_whole(stream->level_buf)
/* (level 3, whose "buffers empty" includes a match queue kept in level_buf, is excluded by SB_EXP) */
#define SB_EMPTY_IN (O_AIN == 0)
#else
#define SB_TABLE_FRAME ST.has_hist, ST.head
#define SB_EMPTY_IN (O_AIN == 0)
#endif
#define SB_FRAME                                                                                   \
        stream->next_out, stream->avail_out, stream->total_out, ST.state, ST.count, ST.block_next, \
                ST.has_eob_hdr, BB, SB_TABLE_FRAME,                                   \
                __CPROVER_object_whole(stream->next_out), w_nblk, w_base, w_bn, w_hdr, w_bc, w_av, w_bits,    \
                g_out, g_av0
#define SB_FIN_STATE (ST.state == ZSTATE_TRL || ST.state == ZSTATE_NEW_HDR)
#define C_write_stored_block                                                                       \
        SB_PRE                                                                                     \
        __CPROVER_assigns(SB_FRAME)                                                                \
        /* counters: output moves together, never beyond avail_out; data bytes <= output bytes */   \
        __CPROVER_ensures(stream->avail_out <= O_AVAIL && ADV_IS(SB_ADV))                          \
        __CPROVER_ensures(RET == (uint32_t) (ST.block_end - ST.block_next))                        \
        __CPROVER_ensures(SB_D <= SB_REM && SB_D <= SB_ADV && (uint64_t) SB_D <= SB_INTOT)         \
        /* where it stops */                                                                       \
        __CPROVER_ensures(ST.state == ZSTATE_TYPE0_HDR || ST.state == ZSTATE_TYPE0_BODY || SB_FIN_STATE) \
        __CPROVER_ensures(SB_FIN_STATE ==> ST.block_next == ST.block_end)                          \
        __CPROVER_ensures(ST.state == ZSTATE_TRL ==> ST.has_eob_hdr == 1)                          \
        __CPROVER_ensures(ST.state == ZSTATE_NEW_HDR ==> ST.has_eob_hdr == 0)                      \
        /* entered at a block header: the block ends the stream (BFINAL, ZSTATE_TRL) iff end_of_stream is  \
         * set and no input lies beyond the block */                                               \
        __CPROVER_ensures((O_ST == ZSTATE_TYPE0_HDR && SB_FIN_STATE) ==>                           \
                          ((ST.state == ZSTATE_TRL) == (O_EOS != 0 && SB_INTOT == (uint64_t) SB_REM))) \
        /* ... and the bit buffer is empty: every stored-block header ends on a byte boundary */   \
        __CPROVER_ensures((O_ST == ZSTATE_TYPE0_HDR && SB_FIN_STATE) ==>                           \
                          (BB.m_bit_count == 0 && BB.m_bits == 0))                                 \
        /* only for want of output space (header) / of space or input (body) */                   \
        __CPROVER_ensures(ST.state == ZSTATE_TYPE0_HDR ==>                                         \
                          (!T0_FITS(BB.m_bit_count, stream->avail_out) && ST.has_eob_hdr == 0))    \
        __CPROVER_ensures(ST.state == ZSTATE_TYPE0_BODY ==>                                        \
                          (ST.count > 0 && ST.count <= (uint32_t) (ST.block_end - ST.block_next) && \
                           (stream->avail_out == 0 || (uint64_t) SB_D == SB_INTOT) &&              \
                           (ST.has_eob_hdr == 1 ==> ST.count == (uint32_t) (ST.block_end - ST.block_next)))) \
        __CPROVER_ensures(BB_WF(BB))                                                               \
        /* C14: a completed FULL_FLUSH block with nothing buffered clears the match history */     \
        __CPROVER_ensures(ST.has_hist == ((ST.state == ZSTATE_NEW_HDR && O_FLUSH == FULL_FLUSH && SB_EMPTY_IN) \
                                                  ? IGZIP_NO_HIST : O_HIST))                       \
        /* C10: from a byte boundary, with the block's input present and SPEC_STORED_LEN(rest) bytes  \
         * of space, the whole rest is written, in exactly that many bytes */                      \
        __CPROVER_ensures((O_ST == ZSTATE_TYPE0_HDR && O_BC == 0 && SB_INTOT >= SB_REM &&          \
                           O_AVAIL >= SPEC_STORED_LEN(SB_REM)) ==>                                 \
                          (SB_FIN_STATE && SB_ADV == SPEC_STORED_LEN(SB_REM)))                     \
        SB_POST9

/* loop over the pieces.  Invariant at the head of an iteration (entry values are __CPROVER_loop_entry:
 * nothing is modified before the loop). */
#define LE(e) __CPROVER_loop_entry(e)
#define LSB_REM0 ((uint32_t) (LE(ST.block_end) - LE(ST.block_next)))
#define LSB_D ((uint32_t) (ST.block_next - LE(ST.block_next)))
#define LSB_ADV (LE(stream->avail_out) - stream->avail_out)
#define LSB_INTOT ((uint64_t) (uint32_t) (stream->total_in - LE(ST.block_next)) + stream->avail_in)
#define SB_J0 (w_nblk <= 65540 && (w_nblk >= 1 ==> (uint64_t) LSB_D >= 65535ull * (w_nblk - 1)))
#define SB_J8                                                                                      \
        ((LE(ST.state) == ZSTATE_TYPE0_HDR && LE(BB.m_bit_count) == 0) ==>                         \
         ((uint64_t) LSB_D == 65535ull * w_nblk && (uint64_t) LSB_ADV == 65540ull * w_nblk))
#define L_write_stored_block_1                                                                     \
        __CPROVER_assigns(SB_FRAME, copy_size, avail_in, block_next_offset, next_in)               \
        __CPROVER_loop_invariant(                                                                  \
                (ST.state == ZSTATE_TYPE0_HDR || (ST.state == ZSTATE_TYPE0_BODY && w_nblk == 0)) && \
                SB_J0 &&                                                                           \
                g_out == LE(stream->next_out) && g_av0 == LE(stream->avail_out) &&                 \
                /* first iteration: nothing has happened */                                        \
                (w_nblk == 0 ==>                                                                   \
                 (ST.block_next == LE(ST.block_next) && stream->avail_out == LE(stream->avail_out) && \
                  ST.count == LE(ST.count) && ST.has_eob_hdr == LE(ST.has_eob_hdr) &&              \
                  ST.state == LE(ST.state) && BB.m_bits == LE(BB.m_bits) &&                        \
                  BB.m_bit_count == LE(BB.m_bit_count))) &&                                        \
                /* later iterations start at a piece boundary with an empty bit buffer */          \
                (w_nblk >= 1 ==> (BB.m_bit_count == 0 && BB.m_bits == 0 && LSB_D < LSB_REM0)) &&   \
                (ST.state == ZSTATE_TYPE0_HDR ==> ST.has_eob_hdr == 0) &&                          \
                BB_WF(BB) && ST.has_hist == LE(ST.has_hist) &&                                     \
                /* counters */                                                                     \
                stream->avail_out <= LE(stream->avail_out) &&                                      \
                __CPROVER_same_object(stream->next_out, LE(stream->next_out)) &&                   \
                __CPROVER_POINTER_OFFSET(stream->next_out) == LSB_ADV &&                           \
                stream->total_out == LE(stream->total_out) + LSB_ADV &&                            \
                LSB_D <= LSB_REM0 && LSB_D <= LSB_ADV && (uint64_t) LSB_D <= LSB_INTOT &&          \
                /* space accounting from a byte boundary: k pieces = 65535 k data + 5 k header bytes */ \
                SB_J8 && SB_J9)                                                                    \
        __CPROVER_decreases((uint32_t) (ST.block_end - ST.block_next),                             \
                            (ST.state == ZSTATE_TYPE0_BODY ? 1 : 0))
/* Ghost statements.  Entry: snapshot of the output pointer (an assignment, so the verifier knows which
 * object it points to).  Loop head: stream->next_out has just been havocked by the loop contract and
 * the verifier's points-to analysis knows nothing about it any more (every store through it would be
 * encoded as a store to every object, 80 KiB structs included); it is re-based on the snapshot.  The
 * assertion in front proves that this assignment never changes the value. */
extern uint8_t *g_out;
extern uint32_t g_av0;
#define E_write_stored_block                                                                       \
        g_out = stream->next_out;                                                                  \
        g_av0 = stream->avail_out;
/* -DDF_SB_DATA: byte-level statement.  For one ghost output position g_o (unconstrained => every position)
 * the hook records, at the head of the iteration that is going to produce it, where that iteration starts
 * (w_base), which input position it starts at (w_bn), whether it begins with a header (w_hdr) and the
 * bit-buffer / space situation that determines the header's length.  Invariant / postcondition: the byte at
 * g_o is the matching byte of that piece's RFC 1951 header (pending bits | BFINAL, zero padding, LEN, ~LEN)
 * or the input byte at the matching offset -- i.e. the output is header || data || header || data ... */
#ifdef DF_SB_DATA
#define SB_RECORD                                                                                  \
        if (g_o >= (size_t) (g_av0 - stream->avail_out)) {                                         \
                w_base = g_av0 - stream->avail_out;                                                \
                w_bn = ST.block_next;                                                              \
                w_hdr = (ST.state == ZSTATE_TYPE0_HDR);                                            \
                w_bc = BB.m_bit_count;                                                             \
                w_bits = BB.m_bits;                                                                \
                w_av = stream->avail_out;                                                          \
        }
#define W_REM ((uint32_t) (ST.block_end - w_bn))
#define W_LEN (W_REM > 65535u ? 65535u : W_REM)
#define W_FIN                                                                                      \
        ((W_REM <= 65535u && stream->end_of_stream != 0 &&                                         \
          (uint32_t) (stream->avail_in + (uint32_t) (stream->total_in - w_bn)) == W_REM) ? 1 : 0)
#define W_HL (w_hdr ? (T0_FITS(w_bc, w_av) ? T0_HL(w_bc) : 0u) : 0u)
#define W_REL ((uint32_t) (g_o - w_base))
#define W_NB T0_NB(w_bc)
#define W_HDRBYTE                                                                                  \
        (W_REL == 0 ? (uint8_t) (w_bits | ((uint64_t) W_FIN << w_bc))                              \
         : (W_REL < W_NB ? (uint8_t) 0                                                             \
            : (W_REL == W_NB ? BYTE(W_LEN, 0)                                                      \
               : (W_REL == W_NB + 1 ? BYTE(W_LEN, 1)                                               \
                  : (W_REL == W_NB + 2 ? (uint8_t) ~BYTE(W_LEN, 0) : (uint8_t) ~BYTE(W_LEN, 1))))))
#define W_IDX(bn0) ((uint32_t) (w_bn - (bn0)) + (W_REL - W_HL))
#define SB_CORRECT(bn0, d)                                                                         \
        (w_base <= g_o && w_bc < 8 &&                                                              \
         (W_REL < W_HL ? g_out[g_o] == W_HDRBYTE                                                   \
                       : (W_IDX(bn0) < (d) && g_out[g_o] == g_in[W_IDX(bn0)])))
#define SB_J9 (g_o < LSB_ADV ==> SB_CORRECT(LE(ST.block_next), LSB_D))
#define SB_POST9 __CPROVER_ensures(g_o < SB_ADV ==> SB_CORRECT(O_BN, SB_D))
#else
#define SB_RECORD
#define SB_J9 1
#define SB_POST9
#endif
#define H_write_stored_block_1                                                                     \
        VCANARY();                                                                                 \
        SB_RECORD                                                                                  \
        __CPROVER_assert(stream->next_out == g_out + (g_av0 - stream->avail_out),                  \
                         "ghost re-basing of next_out is the identity");                           \
        stream->next_out = g_out + (g_av0 - stream->avail_out);                                    \
        w_nblk++;
/* reset_match_history is reached from the last iteration (its own contract is proved separately; here
 * its body runs, with the ghost-position wmemset model): loop contracts for its constant-trip loop and
 * for the loop in the branch that is dead on this platform (sizeof(wchar_t) == 4) */
#define L_reset_match_history_1                                                                    \
        __CPROVER_assigns(rep_bits, hash_init_val)                                                 \
        __CPROVER_loop_invariant((rep_bits == 16 && hash_init_val == (stream->total_in & 0xffff)) || \
                                 (rep_bits == 32 &&                                                \
                                  hash_init_val == (stream->total_in & 0xffff) * 0x10001u))        \
        __CPROVER_decreases(64 - rep_bits)
#define L_reset_match_history_2                                                                    \
        __CPROVER_assigns(i, __CPROVER_object_whole(hash_table))                                   \
        __CPROVER_loop_invariant(i >= 0)                                                           \
        __CPROVER_decreases((int) (hash_table_size / 2) - i)

/* =====================================================================================================
 * isal_deflate_set_hufftables (C18/C10 guard): tables may be exchanged only between blocks, i.e. in state
 * ZSTATE_NEW_HDR (igzip_lib.h: "before compression start or after the successful completion of a
 * SYNC_FLUSH or FULL_FLUSH"); otherwise, and for an unknown type or a NULL custom table, the stream is
 * left unmodified and ISAL_INVALID_OPERATION is returned.
 * ===================================================================================================== */
#define SHT_OK                                                                                     \
        (OLD((uint32_t) ST.state) == ZSTATE_NEW_HDR &&                                             \
         (type == IGZIP_HUFFTABLE_DEFAULT || type == IGZIP_HUFFTABLE_STATIC ||                     \
          (type == IGZIP_HUFFTABLE_CUSTOM && hufftables != NULL)))
#define C_isal_deflate_set_hufftables                                                              \
        __CPROVER_requires(__CPROVER_is_fresh(stream, sizeof(*stream)))                            \
        __CPROVER_assigns(ST.state == ZSTATE_NEW_HDR: stream->hufftables)                          \
        __CPROVER_ensures(RET == (SHT_OK ? COMP_OK : ISAL_INVALID_OPERATION))                      \
        __CPROVER_ensures(!SHT_OK ==> stream->hufftables == OLD(stream->hufftables))               \
        __CPROVER_ensures((SHT_OK && type == IGZIP_HUFFTABLE_DEFAULT) ==>                          \
                          stream->hufftables == (struct isal_hufftables *) &hufftables_default)    \
        __CPROVER_ensures((SHT_OK && type == IGZIP_HUFFTABLE_STATIC) ==>                           \
                          stream->hufftables == (struct isal_hufftables *) &hufftables_static)     \
        __CPROVER_ensures((SHT_OK && type == IGZIP_HUFFTABLE_CUSTOM) ==> stream->hufftables == hufftables)

/* =====================================================================================================
 * write_header (C07 progress contract, C01 BFINAL bookkeeping).  Emits, resumably:
 *     pending bits padded to a byte  ||  the deflate_hdr_count whole header bytes  ||  (pending) the
 *     extra_bits_count bits of the byte after them
 * state.count = header bytes already emitted.  toggle_end_of_stream flips BFINAL -- the least significant
 * bit of the first header byte (of the extra bits if there is no whole byte) -- and the flag
 * has_eob_hdr with it.  The flag must be armed for a header that has not started (count == 0 ==>
 * has_eob_hdr == 1: the stored header is a final-block header), so that afterwards
 *     has_eob_hdr == BFINAL bit actually emitted.
 * Covered case: no wrapper header pending (raw deflate, *_NO_HDR, or has_wrap_hdr set); the shared use of
 * state.count by a pending wrapper header is not covered here (write_stream_header has its own contract).
 * ===================================================================================================== */
#define WH_F (O_BC != 0)                                /* pending bits must be flushed first */
#define WH_BLOCKED (WH_F && O_AVAIL < 8)                  /* ... and cannot */
#define WH_NF (WH_F ? 1u : 0u)
#define WH_AV1 (O_AVAIL - WH_NF)
#define WH_REST (deflate_hdr_count - O_CNT)
#define WH_M (WH_REST < WH_AV1 ? WH_REST : WH_AV1)        /* header bytes emitted by this call */
#define WH_ALL (O_CNT + WH_M == deflate_hdr_count)
#define WH_XTRA (WH_ALL && WH_AV1 - WH_M >= 8)            /* the extra bits go into the bit buffer */
#define WH_TGL (toggle_end_of_stream != 0)
#define WH_FIRST_NOW (O_CNT == 0 && WH_M > 0)
#define C_write_header                                                                             \
        __CPROVER_requires(__CPROVER_is_fresh(stream, sizeof(*stream)))                            \
        __CPROVER_requires(BB_WF(BB))                                                              \
        __CPROVER_requires((stream->gzip_flag != IGZIP_GZIP && stream->gzip_flag != IGZIP_ZLIB) || \
                           ST.has_wrap_hdr)                                                        \
        __CPROVER_requires(deflate_hdr_count <= ISAL_DEF_MAX_HDR_SIZE && ST.count <= deflate_hdr_count) \
        __CPROVER_requires(__CPROVER_is_fresh(deflate_hdr, deflate_hdr_count + 1))                 \
        __CPROVER_requires(extra_bits_count < 8 &&                                                 \
                           (deflate_hdr[deflate_hdr_count] >> extra_bits_count) == 0)              \
        __CPROVER_requires(__CPROVER_is_fresh(stream->next_out, stream->avail_out))                \
        /* the flag is armed for a header that has not started */                                  \
        __CPROVER_requires(ST.count == 0 ==> ST.has_eob_hdr == 1)                                  \
        __CPROVER_requires(ST.has_eob_hdr <= 1)                                                    \
        __CPROVER_assigns(ST.state, stream->next_out, stream->avail_out, stream->total_out, BB,    \
                          ST.count, ST.has_eob_hdr, __CPROVER_object_whole(stream->next_out))      \
        __CPROVER_ensures(WH_BLOCKED ==> (ADV_IS(0) && ST.state == ZSTATE_HDR && ST.count == O_CNT && \
                                          ST.has_eob_hdr == O_EOBH && BB.m_bits == O_BITS &&       \
                                          BB.m_bit_count == O_BC))                                 \
        __CPROVER_ensures(!WH_BLOCKED ==> ADV_IS(WH_NF + WH_M))                                    \
        __CPROVER_ensures((!WH_BLOCKED && WH_F) ==> OUT0[0] == (uint8_t) O_BITS)                   \
        /* header bytes, in order, the first one with BFINAL toggled */                            \
        __CPROVER_ensures((!WH_BLOCKED && g_k < WH_M) ==>                                          \
                          OUT0[WH_NF + g_k] ==                                                     \
                                  (uint8_t) (deflate_hdr[O_CNT + g_k] ^                            \
                                             ((WH_TGL && O_CNT == 0 && g_k == 0) ? 1 : 0)))        \
        /* completion: extra bits pending in the bit buffer, next state, count reset */             \
        __CPROVER_ensures((!WH_BLOCKED && WH_XTRA) ==>                                             \
                          ((uint32_t) ST.state == next_state && ST.count == 0 &&                   \
                           BB.m_bit_count == extra_bits_count &&                                   \
                           BB.m_bits == ((uint64_t) deflate_hdr[deflate_hdr_count] ^               \
                                         ((WH_TGL && deflate_hdr_count == 0) ? 1 : 0))))           \
        __CPROVER_ensures((!WH_BLOCKED && !WH_XTRA) ==>                                            \
                          (ST.state == ZSTATE_HDR && ST.count == O_CNT + WH_M &&                   \
                           BB.m_bit_count == 0 && BB.m_bits == 0))                                 \
        /* BFINAL bookkeeping: flipped exactly when the byte carrying BFINAL is handled */         \
        __CPROVER_ensures(!WH_BLOCKED ==>                                                          \
                          ST.has_eob_hdr ==                                                        \
                                  (O_EOBH ^ ((WH_TGL && (WH_FIRST_NOW || (deflate_hdr_count == 0 && O_CNT == 0))) ? 1 : 0))) \
        /* for a stored final-block header (BFINAL = 1): the flag is the BFINAL bit that went out */ \
        __CPROVER_ensures((!WH_BLOCKED && WH_FIRST_NOW && (deflate_hdr[0] & 1) == 1) ==>           \
                          ST.has_eob_hdr == (OUT0[WH_NF] & 1))

/* =====================================================================================================
 * isal_deflate_pass (level 0 pass; C11 "the checksum is taken over exactly the input consumed by this
 * call", C01/C07 call-site obligations of the helpers).  write_header, sync_flush, flush_write_buffer,
 * write_trailer, update_checksum are used through their contracts above -- so their preconditions
 * (bit buffer well-formed, header flag armed, trailer only in ZSTATE_TRL, ...) are obligations of this
 * function at every call site -- and the NASM kernels through the ASSUMED stubs.
 * Covered case as for write_header: no wrapper header pending.
 * ===================================================================================================== */
#define HT_WF(h)                                                                                   \
        ((h)->deflate_hdr_count < ISAL_DEF_MAX_HDR_SIZE && (h)->deflate_hdr_extra_bits < 8 &&      \
         ((h)->deflate_hdr[(h)->deflate_hdr_count] >> (h)->deflate_hdr_extra_bits) == 0)
#define C_isal_deflate_pass                                                                        \
        __CPROVER_requires(__CPROVER_is_fresh(stream, sizeof(*stream)))                            \
        __CPROVER_requires(__CPROVER_is_fresh(stream->hufftables, sizeof(struct isal_hufftables)) && \
                           HT_WF(stream->hufftables))                                              \
        __CPROVER_requires(__CPROVER_is_fresh(stream->next_in, stream->avail_in))                  \
        __CPROVER_requires(__CPROVER_is_fresh(stream->next_out, stream->avail_out))                \
        __CPROVER_requires(BB_WF(BB) && ST.has_eob_hdr <= 1)                                       \
        __CPROVER_requires((stream->gzip_flag != IGZIP_GZIP && stream->gzip_flag != IGZIP_ZLIB) || \
                           ST.has_wrap_hdr)                                                        \
        __CPROVER_requires(ST.state == ZSTATE_NEW_HDR || ST.state == ZSTATE_HDR ||                 \
                           ST.state == ZSTATE_BODY || ST.state == ZSTATE_FLUSH_READ_BUFFER ||      \
                           ST.state == ZSTATE_SYNC_FLUSH || ST.state == ZSTATE_FLUSH_WRITE_BUFFER || \
                           ST.state == ZSTATE_TRL)                                                 \
        __CPROVER_requires(ST.state == ZSTATE_NEW_HDR ==> ST.count == 0)                           \
        __CPROVER_requires(ST.state == ZSTATE_HDR ==> ST.count <= stream->hufftables->deflate_hdr_count) \
        __CPROVER_requires((stream->gzip_flag == IGZIP_ZLIB || stream->gzip_flag == IGZIP_ZLIB_NO_HDR) ==> \
                           (ST.crc & 0xffff) < 65521)                                              \
        __CPROVER_assigns(stream->next_in, stream->avail_in, stream->total_in, stream->next_out,   \
                          stream->avail_out, stream->total_out, ST.state, ST.count, ST.has_eob_hdr, \
                          ST.has_eob, ST.has_hist, BB, ST.crc, w_crc_init, w_crc_len, w_crc_buf,   \
                          w_crc_calls, w_ad_init, w_ad_len, w_ad_buf, w_ad_calls, w_trl_calls,     \
                          w_trl_crc, __CPROVER_object_whole(stream->next_out))                     \
        /* order: a trailer is written only after the checksum of this call's input has been folded in -- \
         * the value the trailer call saw is the final running value */                            \
        __CPROVER_ensures(w_trl_calls != OLD(w_trl_calls) ==>                                      \
                          (w_trl_calls == OLD(w_trl_calls) + 1 && w_trl_crc == ST.crc))            \
        /* checksum: the routine selected by the wrapper, once, over exactly what this call consumed */ \
        __CPROVER_ensures(TR_GZ ==> (CK_CRC_CALLS == 1 && CK_AD_CALLS == 0 && w_crc_init == O_CRC && \
                                     w_crc_buf == OLD(stream->next_in) &&                          \
                                     w_crc_len == O_AIN - stream->avail_in && ST.crc == g_crc_ret)) \
        __CPROVER_ensures(TR_ZL ==> (CK_CRC_CALLS == 0 && CK_AD_CALLS == 1 &&                      \
                                     w_ad_buf == OLD(stream->next_in) &&                           \
                                     w_ad_len == O_AIN - stream->avail_in &&                       \
                                     w_ad_init == SPEC_ADLER_FIN(O_CRC)))                          \
        __CPROVER_ensures((!TR_GZ && !TR_ZL) ==> (CK_CRC_CALLS == 0 && CK_AD_CALLS == 0))          \
        /* counters only move forwards, together */                                                \
        __CPROVER_ensures(stream->avail_in <= O_AIN &&                                             \
                          stream->next_in == OLD(stream->next_in) + (O_AIN - stream->avail_in) &&  \
                          stream->total_in == O_TIN + (O_AIN - stream->avail_in))                  \
        __CPROVER_ensures(stream->avail_out <= O_AVAIL && ADV_IS(O_AVAIL - stream->avail_out))     \
        __CPROVER_ensures(BB_WF(BB) && ST.has_eob_hdr <= 1)                                        \
        /* ZSTATE_END is reached only through the trailer */                                       \
        __CPROVER_ensures(ST.state == ZSTATE_END ==> ST.has_eob_hdr == 1)

/* =====================================================================================================
 * isal_deflate_stateless (C10): the output-space contract of one-shot compression.
 *   SL_BOUND = input + 5 bytes per started 65535-byte stored block (at least one) + wrapper header/trailer
 * igzip_lib.h: "Max expansion is limited to the input size plus the header size of a stored/raw block."
 * The compression attempt itself (isal_deflate_int_stateless -> NASM kernels) is an ASSUMED contract that
 * records the space it was offered (w_cap) and returns an unconstrained verdict g_int_ret:
 *   - invalid flush / level / level buffer: error code, nothing produced, no attempt made
 *     (igzip_lib.h: for level 1 a missing level_buf is allowed in the one-shot call);
 *   - the attempt is offered exactly min(avail_out, SL_BOUND) bytes, so a successful attempt never
 *     produces more than SL_BOUND; the space beyond the cap is given back;
 *   - attempt failed and avail_out < SL_BOUND: STATELESS_OVERFLOW;
 *   - attempt failed and avail_out >= SL_BOUND: stored fallback -- harness variant B.
 * ===================================================================================================== */
extern uint32_t w_int_calls, w_cap, g_int_ret;
#define SL_WRAP(gz)                                                                                \
        ((gz) == IGZIP_GZIP ? 18u                                                                  \
                            : ((gz) == IGZIP_GZIP_NO_HDR                                           \
                                       ? 8u                                                        \
                                       : ((gz) == IGZIP_ZLIB ? 6u : ((gz) == IGZIP_ZLIB_NO_HDR ? 4u : 0u))))
#define SL_BOUND_OF(n, gz) (SPEC_STORED_LEN(n) + SL_WRAP(gz))
#define SL_BOUND SL_BOUND_OF(O_AIN, O_GZ)
#define SL_FLUSH_OK (O_FLUSH == NO_FLUSH || O_FLUSH == FULL_FLUSH)
#define SL_LVL_OK                                                                                  \
        (SPEC_LEVEL_OK(O_LVL, OLD(stream->level_buf), OLD(stream->level_buf_size)) ||              \
         (O_LVL == 1 && OLD(stream->level_buf) == NULL))
#define SL_VALID (SL_FLUSH_OK && SL_LVL_OK)
#define SL_CALLS (w_int_calls - OLD(w_int_calls))
#define SL_PRODUCED (stream->total_out - O_TOTAL)
#if !defined(DF_INT_SL)
#define C_isal_deflate_int_stateless                                                               \
        __CPROVER_assigns(stream->next_out, stream->avail_out, stream->total_out, stream->next_in, \
                          stream->avail_in, stream->total_in, stream->gzip_flag, ST.state,         \
                          ST.has_wrap_hdr, ST.has_eob_hdr, ST.has_eob, ST.has_hist, BB, ST.crc,    \
                          ST.count, ST.block_next, ST.block_end, ST.has_level_buf_init, w_int_calls, \
                          w_cap)                                                                   \
        __CPROVER_ensures(w_int_calls == OLD(w_int_calls) + 1 && w_cap == OLD(stream->avail_out))  \
        __CPROVER_ensures(RET == (int) g_int_ret && (RET == COMP_OK || RET == STATELESS_OVERFLOW))  \
        __CPROVER_ensures(stream->avail_out <= OLD(stream->avail_out) &&                           \
                          stream->next_out == OLD(stream->next_out) + (OLD(stream->avail_out) - stream->avail_out) && \
                          stream->total_out == OLD(stream->total_out) + (OLD(stream->avail_out) - stream->avail_out)) \
        __CPROVER_ensures(stream->avail_in <= OLD(stream->avail_in))                               \
        __CPROVER_ensures(RET == COMP_OK ==>                                                       \
                          (ST.state == ZSTATE_END ||                                               \
                           (ST.state == ZSTATE_NEW_HDR && stream->flush == FULL_FLUSH)))
#endif
extern int g_lb_present;
#if defined(DF_SL_A)
/* variant A: every path except the stored fallback */
#define SL_SHAPE                                                                                   \
        __CPROVER_requires((int) g_int_ret == COMP_OK ||                                           \
                           (stream->flush != FULL_FLUSH &&                                         \
                            stream->avail_out < SL_BOUND_OF(stream->avail_in, stream->gzip_flag)))
#elif defined(DF_SL_B)
/* variant B (bounded stand-in): the stored fallback itself -- attempt failed, space >= SL_BOUND -- for
 * level 0 and at most two stored blocks of input */
#define SL_SHAPE                                                                                   \
        __CPROVER_requires((int) g_int_ret != COMP_OK && stream->level == 0 &&                     \
                           stream->avail_in <= 2 * 65535u &&                                       \
                           stream->avail_out >= SL_BOUND_OF(stream->avail_in, stream->gzip_flag) && \
                           stream->gzip_flag <= IGZIP_ZLIB_NO_HDR && stream->hist_bits <= 15 &&    \
                           ((stream->gzip_flag == IGZIP_ZLIB || stream->gzip_flag == IGZIP_ZLIB_NO_HDR) ==> 1))
#elif defined(DF_SL_C)
/* variant C: the stored fallback end to end (attempt failed, space >= SL_BOUND), NO_FLUSH (the call ends the
 * stream); write_stored_block, write_stream_header_stateless, write_trailer, update_checksum through their
 * proved contracts */
#define SL_SHAPE                                                                                   \
        __CPROVER_requires((int) g_int_ret != COMP_OK && stream->flush == NO_FLUSH &&              \
                           stream->avail_out >= SL_BOUND_OF(stream->avail_in, stream->gzip_flag) && \
                           stream->gzip_flag <= IGZIP_ZLIB_NO_HDR && stream->hist_bits <= 15 &&    \
                           ST.has_wrap_hdr == 0)
#else
#define SL_SHAPE
#endif
#define SL_TRL (TR_GZ ? 8u : (TR_ZL ? 4u : 0u))
#define SL_FB (SL_VALID && (int) g_int_ret != COMP_OK && O_AVAIL >= SL_BOUND)
/* ghost set-up for the contract of write_stored_block when it is used by replacement (variant C): base of the
 * readable input and the iteration counter */
#if defined(DF_SL_C)
#define E_isal_deflate_stateless                                                                   \
        g_in = stream->next_in;                                                                    \
        w_nblk = 0;
#define SL_GHOST_FRAME , g_in, g_out, g_av0, w_nblk, w_base, w_bn, w_hdr, w_bc, w_av, w_bits
#else
#define SL_GHOST_FRAME
#endif
#define C_isal_deflate_stateless                                                                   \
        __CPROVER_requires(__CPROVER_is_fresh(stream, sizeof(*stream)))                            \
        __CPROVER_requires((RMH_LVLN && g_lb_present) ==>                                          \
                           __CPROVER_is_fresh(stream->level_buf, SPEC_LVL_MIN(stream->level)))     \
        __CPROVER_requires(!(RMH_LVLN && g_lb_present) ==> stream->level_buf == NULL)              \
        /* avail_in >= 2^31: `2 * avail_in` wraps and `1 << bsr(avail_in)` shifts an int by 32 (undefined; \
         * reported as a finding) -- excluded here so that the rest is decided */                  \
        __CPROVER_requires(stream->avail_in <= 0x7fffffffu)                                        \
        __CPROVER_requires(__CPROVER_is_fresh(stream->next_in, stream->avail_in))                  \
        __CPROVER_requires(__CPROVER_is_fresh(stream->next_out, stream->avail_out))                \
        SL_SHAPE                                                                                   \
        __CPROVER_assigns(__CPROVER_object_whole(stream), __CPROVER_object_whole(stream->next_out), \
                          w_int_calls, w_cap, w_crc_init, w_crc_len, w_crc_buf, w_crc_calls,       \
                          w_ad_init, w_ad_len, w_ad_buf, w_ad_calls, w_trl_calls, w_trl_crc        \
                          SL_GHOST_FRAME;                                                          \
                          RMH_LVLN && g_lb_present: __CPROVER_object_whole(stream->level_buf)) \
        __CPROVER_ensures(!SL_FLUSH_OK ==> RET == INVALID_FLUSH)                                   \
        __CPROVER_ensures((SL_FLUSH_OK && !SL_LVL_OK) ==>                                          \
                          (RET == ISAL_INVALID_LEVEL || RET == ISAL_INVALID_LEVEL_BUF))            \
        /* rejected: nothing produced, no attempt */                                               \
        __CPROVER_ensures(!SL_VALID ==> (ADV_IS(0) && SL_CALLS == 0))                              \
        /* the attempt is offered exactly min(avail_out, SL_BOUND) */                              \
        __CPROVER_ensures(SL_VALID ==>                                                             \
                          (SL_CALLS == 1 && w_cap == (O_AVAIL >= SL_BOUND ? (uint32_t) SL_BOUND : O_AVAIL))) \
        __CPROVER_ensures((SL_VALID && (int) g_int_ret == COMP_OK) ==>                             \
                          (RET == COMP_OK && SL_PRODUCED <= w_cap && ADV_IS(SL_PRODUCED)))         \
        __CPROVER_ensures((SL_VALID && (int) g_int_ret != COMP_OK && O_AVAIL < SL_BOUND) ==>       \
                          RET == STATELESS_OVERFLOW)                                               \
        __CPROVER_ensures((SL_VALID && O_FLUSH == NO_FLUSH) ==> stream->end_of_stream == 1)       \
        /* stored fallback: succeeds, consumes everything, produces exactly the bound (less the     \
         * trailer when the stream is not ended by this call) */                                   \
        __CPROVER_ensures(SL_FB ==> (RET == COMP_OK && stream->avail_in == 0 &&                    \
                                     stream->next_in == OLD(stream->next_in) + O_AIN &&            \
                                     stream->total_in == O_TIN + O_AIN))                           \
        __CPROVER_ensures(SL_FB ==> (ADV_IS(SL_PRODUCED) &&                                        \
                                     SL_PRODUCED == SL_BOUND - (stream->end_of_stream ? 0u : SL_TRL))) \
        /* the checksum is restarted and taken over the whole input of this call */                \
        __CPROVER_ensures((SL_FB && TR_GZ) ==>                                                     \
                          (CK_CRC_CALLS == 1 && w_crc_init == 0 && w_crc_buf == OLD(stream->next_in) && \
                           w_crc_len == O_AIN))                                                    \
        __CPROVER_ensures((SL_FB && TR_ZL) ==>                                                     \
                          (CK_AD_CALLS == 1 && w_ad_init == SPEC_ADLER_FIN(0) &&                   \
                           w_ad_buf == OLD(stream->next_in) && w_ad_len == O_AIN))                 \
        __CPROVER_ensures((SL_FB && stream->end_of_stream) ==>                                     \
                          (w_trl_calls == OLD(w_trl_calls) + 1 && w_trl_crc == ST.crc))            \
        __CPROVER_ensures((SL_FB && stream->end_of_stream) ==> ST.state == ZSTATE_END)             \
        __CPROVER_ensures((SL_FB && !stream->end_of_stream) ==>                                    \
                          (ST.state == ZSTATE_NEW_HDR && BB.m_bit_count == 0))

/* =====================================================================================================
 * Block header of the one-shot level-0 path (C10/C01): the table's stored header -- deflate_hdr_count whole
 * bytes plus deflate_hdr_extra_bits bits, stored as a *final* block header (BFINAL = 1, HT_FINAL) -- is
 * appended to the pending bits; BFINAL is cleared unless this call ends the stream.
 *   - not enough space: STATELESS_OVERFLOW and nothing is produced;
 *   - otherwise the logical bit string (bytes out || pending bits) grows by exactly the header's bits:
 *     8 * bytes produced + pending' == pending + 8 * deflate_hdr_count + deflate_hdr_extra_bits,
 *     the BFINAL bit that went out is 1 iff end_of_stream, has_eob_hdr follows it, state BODY;
 *   - every write_bits call keeps pending + count <= 63 (E_write_bits).
 * ===================================================================================================== */
#define HT stream->hufftables
#define HT_FINAL(h) ((((h)->deflate_hdr_count > 0 ? (h)->deflate_hdr[0] : (h)->deflate_hdr[(h)->deflate_hdr_count]) & 1) == 1)
#define DH_PRE                                                                                     \
        __CPROVER_requires(__CPROVER_is_fresh(stream, sizeof(*stream)))                            \
        __CPROVER_requires(__CPROVER_is_fresh(HT, sizeof(struct isal_hufftables)) && HT_WF(HT) &&  \
                           HT_FINAL(HT) && (HT->deflate_hdr_count > 0 || HT->deflate_hdr_extra_bits > 0)) \
        __CPROVER_requires(BB_WF(BB))                                                              \
        __CPROVER_requires(ST.state == ZSTATE_NEW_HDR || ST.state == ZSTATE_HDR)                   \
        __CPROVER_requires(__CPROVER_is_fresh(stream->next_out, stream->avail_out))
#define DH_ADV (O_AVAIL - stream->avail_out)
#define DH_COMMON_POST                                                                             \
        __CPROVER_ensures(RET == COMP_OK || RET == STATELESS_OVERFLOW)                             \
        __CPROVER_ensures(RET == STATELESS_OVERFLOW ==>                                            \
                          (ADV_IS(0) && (uint32_t) ST.state == O_ST && ST.has_eob_hdr == O_EOBH && \
                           BB.m_bits == O_BITS && BB.m_bit_count == O_BC))                         \
        __CPROVER_ensures(RET == COMP_OK ==>                                                       \
                          (stream->avail_out <= O_AVAIL && ADV_IS(DH_ADV) && ST.state == ZSTATE_BODY && \
                           BB.m_bit_count < 8 &&                                                   \
                           8 * (uint64_t) DH_ADV + BB.m_bit_count ==                               \
                                   (uint64_t) O_BC + 8 * (uint64_t) HT->deflate_hdr_count +        \
                                           HT->deflate_hdr_extra_bits &&                           \
                           ST.has_eob_hdr == (stream->end_of_stream ? 1 : O_EOBH)))
/* aligned case (no pending bits): whole bytes are copied, the extra bits stay pending */
#define C_write_deflate_header_stateless                                                           \
        DH_PRE                                                                                     \
        __CPROVER_requires(BB.m_bit_count == 0)                                                    \
        __CPROVER_assigns(stream->next_out, stream->avail_out, stream->total_out, BB, ST.state,    \
                          ST.has_eob_hdr, __CPROVER_object_whole(stream->next_out))                \
        DH_COMMON_POST                                                                             \
        __CPROVER_ensures((RET == STATELESS_OVERFLOW) == (HT->deflate_hdr_count + 8 >= O_AVAIL))   \
        __CPROVER_ensures((RET == COMP_OK && g_k < HT->deflate_hdr_count) ==>                      \
                          OUT0[g_k] == (uint8_t) (HT->deflate_hdr[g_k] ^                           \
                                                  ((g_k == 0 && !stream->end_of_stream) ? 1 : 0))) \
        __CPROVER_ensures(RET == COMP_OK ==>                                                       \
                          BB.m_bits == ((uint64_t) HT->deflate_hdr[HT->deflate_hdr_count] ^        \
                                        ((HT->deflate_hdr_count == 0 && !stream->end_of_stream) ? 1 : 0)))
/* unaligned case.  The loop runs deflate_hdr_count / 8 times (<= 40); this harness is the bounded
 * stand-in deflate_hdr_count <= DH_MAXCNT with the loop unrolled.  The header tail is written by
 * write_bits(56 bits) + write_bits(rest): both stay within 63 bits with up to 7 bits pending. */
#ifndef DH_MAXCNT
#define DH_MAXCNT 31
#endif
/* one harness per number of pending bits (-DDH_BC=1..7; 0 is the aligned function): with the bit count
 * fixed every store of the bit writer is at a constant offset, which keeps the encoding small */
#ifdef DH_BC
#define DH_BC_SPLIT __CPROVER_requires(BB.m_bit_count == DH_BC)
#else
#define DH_BC_SPLIT
#endif
#define C_write_deflate_header_unaligned_stateless                                                 \
        DH_PRE                                                                                     \
        __CPROVER_requires(HT->deflate_hdr_count <= DH_MAXCNT)                                     \
        DH_BC_SPLIT                                                                                \
        __CPROVER_assigns(stream->next_out, stream->avail_out, stream->total_out, BB, ST.state,    \
                          ST.has_eob_hdr, __CPROVER_object_whole(stream->next_out))                \
        DH_COMMON_POST                                                                             \
        __CPROVER_ensures((HT->deflate_hdr_count + 16 < O_AVAIL) ==> RET == COMP_OK)               \
        /* the BFINAL bit sits right after the bits that were pending */                           \
        __CPROVER_ensures((RET == COMP_OK && O_BC != 0 && DH_ADV >= 1) ==>                         \
                          (((OUT0[0] >> O_BC) & 1) == (stream->end_of_stream ? 1 : 0) &&           \
                           (OUT0[0] & ((1u << O_BC) - 1)) == (uint8_t) O_BITS))                    \
        __CPROVER_ensures((RET == COMP_OK && O_BC != 0 && DH_ADV == 0) ==>                         \
                          (((BB.m_bits >> O_BC) & 1) == (stream->end_of_stream ? 1 : 0) &&         \
                           (BB.m_bits & ((1u << O_BC) - 1)) == O_BITS))

/* =====================================================================================================
 * write_constant_compressed_stateless (C10/C11): a run of `repeated_length` equal bytes (0x00 or 0xff)
 * at next_in is emitted as one pre-computed dynamic block.
 *   - needs HEADER_LENGTH + MAX_FIXUP_CODE_LENGTH + rep_bytes + 8 bytes of space; with less, nothing at
 *     all changes (no input consumed, no output produced, no checksum call);
 *   - otherwise exactly the run is consumed: next_in / avail_in / total_in / block_end advance by
 *     repeated_length, the output counters move together and stay within the space required above,
 *     and -- when a wrapper is selected -- the running checksum is updated exactly once, over exactly
 *     (old next_in, repeated_length);
 *   - the block is marked final (state TRL, has_eob_hdr, has_eob) iff it ends the stream.
 * write_bits is used through its (coarse) contract: every call keeps pending + count <= 63 and has 8
 * writable bytes at m_out_buf; the loops run at most 11 times (rep_extra < 258) and are unrolled.
 * ===================================================================================================== */
#define CC_REPBYTES ((((repeated_length - 1) / 258) * 2) / 8)
#define CC_NEED (16u + 8u + CC_REPBYTES + 8u)
#define CC_FITS (O_AVAIL >= CC_NEED)
#define CC_FINAL (O_AIN == repeated_length && O_EOS > 0)
/* ghost record of the call (read by the contract of isal_deflate_int_stateless) */
extern uint32_t w_cc_calls, w_cc_len;
#define E_write_constant_compressed_stateless                                                      \
        w_cc_calls++;                                                                              \
        w_cc_len = repeated_length;
/* -DDF_CC_SMALL: bounded stand-in for the meaning clause -- the tail codes depend only on
 * rep_extra = (repeated_length - 1) % 258, which is covered exhaustively; the number q of 258-byte repeats
 * in front of it is bounded (q <= 2) */
#if defined(DF_CC_SMALL) && defined(DF_CC_HI)
#define CC_SMALL __CPROVER_requires(repeated_length <= 1u + 258u * 2u + 257u && (repeated_length - 1) % 258 > 115)
#elif defined(DF_CC_SMALL) && defined(DF_CC_LO)
#define CC_SMALL __CPROVER_requires(repeated_length <= 1u + 258u * 2u + 257u && (repeated_length - 1) % 258 <= 115)
#elif defined(DF_CC_SMALL)
#define CC_SMALL __CPROVER_requires(repeated_length <= 1u + 258u * 2u + 257u)
#else
#define CC_SMALL
#endif
#define CC_ZB                                                                                      \
        (8ull * (O_AVAIL - stream->avail_out) + BB.m_bit_count - 128u - (w_runbits - OLD(w_runbits)))
#define C_write_constant_compressed_stateless                                                      \
        __CPROVER_requires(__CPROVER_is_fresh(stream, sizeof(*stream)))                            \
        __CPROVER_requires(repeated_length >= 1 && repeated_length <= stream->avail_in)            \
        CC_SMALL                                                                                   \
        __CPROVER_requires(stream->end_of_stream <= 1)                                             \
        __CPROVER_requires(__CPROVER_is_fresh(stream->next_in, stream->avail_in))                  \
        __CPROVER_requires(__CPROVER_is_fresh(stream->next_out, stream->avail_out))                \
        __CPROVER_requires((stream->gzip_flag == IGZIP_ZLIB || stream->gzip_flag == IGZIP_ZLIB_NO_HDR) ==> \
                           (ST.crc & 0xffff) < 65521)                                              \
        __CPROVER_assigns(stream->next_in, stream->avail_in, stream->total_in, stream->next_out,   \
                          stream->avail_out, stream->total_out, ST.state, ST.has_eob_hdr,          \
                          ST.has_eob, ST.block_end, BB, ST.crc, w_crc_init, w_crc_len, w_crc_buf,  \
                          w_crc_calls, w_ad_init, w_ad_len, w_ad_buf, w_ad_calls, w_cc_calls,      \
                          w_cc_len, w_run, w_runbits, w_run_bad,                                   \
                          __CPROVER_object_whole(stream->next_out))                                \
        /* what the block denotes: 1 byte (literal in the header) + 258 per pair of zero bits + the bytes  \
         * denoted by the tail codes == the run.  The number of zero bits is what is left of the bits     \
         * produced (8 * bytes out + pending) after the 128 header bits and the tail codes. */            \
        __CPROVER_ensures(CC_FITS ==>                                                              \
                          ((OLD(w_run_bad) == 0 ==> w_run_bad == 0) && CC_ZB % 2 == 0 &&           \
                           1u + 258ull * (CC_ZB / 2) + (w_run - OLD(w_run)) == repeated_length))   \
        __CPROVER_ensures(w_cc_calls == OLD(w_cc_calls) + 1 && w_cc_len == repeated_length)        \
        __CPROVER_ensures(CC_FITS ==> BB_WF(BB))                                                   \
        __CPROVER_ensures(!CC_FITS ==> (BB.m_bits == O_BITS && BB.m_bit_count == O_BC))            \
        __CPROVER_ensures(!CC_FITS ==>                                                             \
                          (ADV_IS(0) && stream->next_in == OLD(stream->next_in) &&                 \
                           stream->avail_in == O_AIN && stream->total_in == O_TIN &&               \
                           ST.block_end == O_BE && (uint32_t) ST.state == O_ST && ST.crc == O_CRC && \
                           CK_CRC_CALLS == 0 && CK_AD_CALLS == 0))                                 \
        __CPROVER_ensures(CC_FITS ==>                                                              \
                          (stream->next_in == OLD(stream->next_in) + repeated_length &&            \
                           stream->avail_in == O_AIN - repeated_length &&                          \
                           stream->total_in == O_TIN + repeated_length &&                          \
                           ST.block_end == O_BE + repeated_length))                                \
        __CPROVER_ensures(CC_FITS ==>                                                              \
                          (stream->avail_out <= O_AVAIL && ADV_IS(O_AVAIL - stream->avail_out) &&  \
                           O_AVAIL - stream->avail_out <= CC_NEED &&                               \
                           O_AVAIL - stream->avail_out >= 16u + CC_REPBYTES))                      \
        __CPROVER_ensures(CC_FITS ==>                                                              \
                          (ST.state == (CC_FINAL ? ZSTATE_TRL : ZSTATE_NEW_HDR) &&                 \
                           (CC_FINAL ==> (ST.has_eob_hdr == 1 && ST.has_eob == 1)) &&              \
                           (OUT0[0] & 1) == (CC_FINAL ? 1 : 0)))                                   \
        /* checksum over exactly the consumed run */                                               \
        __CPROVER_ensures((CC_FITS && TR_GZ) ==>                                                   \
                          (CK_CRC_CALLS == 1 && CK_AD_CALLS == 0 && w_crc_init == O_CRC &&         \
                           w_crc_buf == OLD(stream->next_in) && w_crc_len == repeated_length &&    \
                           ST.crc == g_crc_ret))                                                   \
        __CPROVER_ensures((CC_FITS && TR_ZL) ==>                                                   \
                          (CK_CRC_CALLS == 0 && CK_AD_CALLS == 1 && w_ad_buf == OLD(stream->next_in) && \
                           w_ad_len == repeated_length && w_ad_init == SPEC_ADLER_FIN(O_CRC)))     \
        __CPROVER_ensures((CC_FITS && !TR_GZ && !TR_ZL) ==> (CK_CRC_CALLS == 0 && CK_AD_CALLS == 0))

/* =====================================================================================================
 * isal_deflate_int (C07/C10): staging through the 16-byte tmp_out_buff when the caller offers 1..7 bytes.
 * The compression pass (isal_deflate_pass / isal_deflate_icf_pass -> NASM kernels) is an ASSUMED progress
 * contract (-DDF_STAGING replaces the two proved/unproved pass contracts by it): it consumes some input,
 * produces at most avail_out bytes into whatever [next_out, next_out + avail_out) it is given -- that
 * range is its only memory frame -- keeps the counters consistent and leaves a non-TMP state.  Its
 * preconditions are obligations of isal_deflate_int at both call sites:
 *     no pass runs while staged bytes remain (state < ZSTATE_TMP_OFFSET and tmp_out_start == tmp_out_end).
 * The stub records what each of the (at most two) calls was offered and what it left behind:
 *     w_i{1,2}_off/avail/total  offered: offset of next_out in its object, avail_out, total_out
 *     w_i2_tmp                  the second call's next_out is &state.tmp_out_buff[0]
 *     w_a{1,2}, w_t2, w_s{1,2}  left: avail_out (call 1, 2), total_out (call 2), state (call 1, 2)
 * Statement (entry values: S0 = state, pend = tmp_out_end - tmp_out_start, A0 = avail_out):
 *  (a) S0 >= ZSTATE_TMP_OFFSET: D = min(pend, A0) staged bytes are handed out first, in order
 *      (out[g] == tmp_out_buff[tmp_out_start + g]); if bytes remain, or no space remains, or the
 *      un-offset state is ZSTATE_END, nothing else happens: no pass, tmp_out_start advanced by D, the
 *      offset removed exactly when nothing remains;
 *  (b) otherwise one pass runs on the caller's (remaining) buffer; if it leaves 0 < avail_out < 8 and a
 *      state other than ZSTATE_NEW_HDR, a second pass is given exactly (tmp_out_buff, 16, total_out 0),
 *      so it stages at most 16 bytes; min(staged, avail_out) of them are copied out in order, the caller's
 *      next_out / avail_out / total_out advance by exactly the bytes copied, tmp_out_start/end describe
 *      the rest and ZSTATE_TMP_OFFSET is added iff bytes remain;
 *  (c) nothing outside [next_out, next_out + avail_out) of the caller is written (exact is_fresh size; the
 *      stub's frame is the range it was offered); the code's assert(tmp_out_start == tmp_out_end) holds.
 * ===================================================================================================== */
extern uint32_t w_pcalls, w_i1_off, w_i1_avail, w_i1_total, w_i2_avail, w_i2_total, w_i2_tmp, w_a1, w_a2, w_t2,
        w_s1, w_s2;
#define TMP_OFF 12u /* ZSTATE_TMP_OFFSET = ZSTATE_TMP_HDR - ZSTATE_HDR */
#define PS_K_OUT (OLD(stream->avail_out) - stream->avail_out)
#define PS_K_IN (OLD(stream->avail_in) - stream->avail_in)
#define PS_FIRST (OLD(w_pcalls) == 0)
#define PS_SECOND (OLD(w_pcalls) == 1)
#define STAGING_PASS_CONTRACT                                                                             \
        __CPROVER_requires((uint32_t) ST.state < TMP_OFF && ST.tmp_out_start == ST.tmp_out_end)    \
        __CPROVER_requires(w_pcalls <= 1)                                                          \
        __CPROVER_assigns(stream->next_in, stream->avail_in, stream->total_in, stream->next_out,   \
                          stream->avail_out, stream->total_out, ST.state, ST.count, ST.has_eob_hdr, \
                          ST.has_eob, ST.has_hist, BB, ST.crc, ST.block_next, ST.block_end,        \
                          ST.has_level_buf_init, ST.has_wrap_hdr,                                  \
                          __CPROVER_object_upto(stream->next_out, stream->avail_out), w_pcalls,    \
                          w_i1_off, w_i1_avail, w_i1_total, w_i2_avail, w_i2_total, w_i2_tmp, w_a1, \
                          w_a2, w_t2, w_s1, w_s2)                                                  \
        __CPROVER_ensures(w_pcalls == OLD(w_pcalls) + 1)                                           \
        __CPROVER_ensures(stream->avail_in <= OLD(stream->avail_in) &&                             \
                          stream->next_in == OLD(stream->next_in) + PS_K_IN &&                     \
                          stream->total_in == OLD(stream->total_in) + PS_K_IN)                     \
        __CPROVER_ensures(stream->avail_out <= OLD(stream->avail_out) &&                           \
                          stream->total_out == OLD(stream->total_out) + PS_K_OUT)                  \
        /* where next_out ends up is assumed only for a caller-owned buffer: for the staging call (next_out \
         * inside the context itself) nothing is assumed -- isal_deflate_int overwrites it anyway.  (An      \
         * equality that places the havocked field next_out inside the object that contains it is         \
         * unsatisfiable for CBMC and would silently cut every path through the second call.)  The      \
         * pointer is placed by pointer_in_range_dfcc (an assignment in assume context), so that the      \
         * later memcpy through it resolves to the caller's buffer. */                                    \
        __CPROVER_ensures(OLD(stream->next_out) != ST.tmp_out_buff ==>                             \
                          (__CPROVER_pointer_in_range_dfcc(OLD(stream->next_out), stream->next_out, \
                                                           OLD(stream->next_out) + OLD(stream->avail_out)) && \
                           stream->next_out == OLD(stream->next_out) + PS_K_OUT))                  \
        __CPROVER_ensures((uint32_t) ST.state <= ZSTATE_END)                                       \
        __CPROVER_ensures(PS_FIRST ==>                                                             \
                          (w_i1_off == (uint32_t) __CPROVER_POINTER_OFFSET(OLD(stream->next_out)) && \
                           w_i1_avail == OLD(stream->avail_out) && w_i1_total == OLD(stream->total_out) && \
                           w_a1 == stream->avail_out && w_s1 == (uint32_t) ST.state &&             \
                           w_i2_avail == OLD(w_i2_avail) && w_i2_total == OLD(w_i2_total) &&       \
                           w_i2_tmp == OLD(w_i2_tmp) && w_a2 == OLD(w_a2) && w_t2 == OLD(w_t2) &&  \
                           w_s2 == OLD(w_s2)))                                                     \
        __CPROVER_ensures(PS_SECOND ==>                                                            \
                          (w_i2_tmp == (OLD(stream->next_out) == ST.tmp_out_buff ? 1u : 0u) &&     \
                           w_i2_avail == OLD(stream->avail_out) && w_i2_total == OLD(stream->total_out) && \
                           w_a2 == stream->avail_out && w_t2 == stream->total_out &&               \
                           w_s2 == (uint32_t) ST.state && w_i1_off == OLD(w_i1_off) &&             \
                           w_i1_avail == OLD(w_i1_avail) && w_i1_total == OLD(w_i1_total) &&       \
                           w_a1 == OLD(w_a1) && w_s1 == OLD(w_s1)))
/* harness split (each variant is a case of the same contract; together they cover every entry state):
 *   DF_STAGING_DRAIN  entry in a TMP state where the drain ends the call (bytes remain, or no space remains, or
 *                     the un-offset state is ZSTATE_END): the pass contract is requires(false), so "no pass runs"
 *                     is proved at both call sites
 *   DF_STAGING_TMP    entry in a TMP state, everything drained, space left: pass phase follows
 *   DF_STAGING_RUN    entry in a non-TMP state */
#define SG_NOW_PEND (ST.tmp_out_end - ST.tmp_out_start)
#define SG_NOW_PH                                                                                  \
        (SG_NOW_PEND < stream->avail_out && (uint32_t) ST.state - TMP_OFF != ZSTATE_END)
#if defined(DF_STAGING_DRAIN)
#define SG_SPLIT __CPROVER_requires((uint32_t) ST.state >= TMP_OFF && !SG_NOW_PH)
#undef C_isal_deflate_pass
#define C_isal_deflate_pass __CPROVER_requires(0) __CPROVER_assigns()
#define C_isal_deflate_icf_pass __CPROVER_requires(0) __CPROVER_assigns()
#elif defined(DF_STAGING_TMP)
#define SG_SPLIT __CPROVER_requires((uint32_t) ST.state >= TMP_OFF && SG_NOW_PH)
#elif defined(DF_STAGING_RUN)
#define SG_SPLIT __CPROVER_requires((uint32_t) ST.state < TMP_OFF)
#else
#define SG_SPLIT
#endif
#if defined(DF_STAGING) && !defined(DF_STAGING_DRAIN)
#undef C_isal_deflate_pass
#define C_isal_deflate_pass STAGING_PASS_CONTRACT
#define C_isal_deflate_icf_pass STAGING_PASS_CONTRACT
#endif
#define SG_TMP (O_ST >= TMP_OFF)
#define SG_PEND (OLD(ST.tmp_out_end) - OLD(ST.tmp_out_start))
#define SG_D (SG_TMP ? (SG_PEND < O_AVAIL ? SG_PEND : O_AVAIL) : 0u) /* drained first */
/* the pass phase is entered */
#define SG_PH (!SG_TMP || (SG_D == SG_PEND && O_AVAIL - SG_D > 0 && O_ST - TMP_OFF != ZSTATE_END))
#define SG_STG (w_a1 > 0 && w_a1 < 8 && w_s1 != ZSTATE_NEW_HDR)      /* second pass into tmp_out_buff */
#define SG_STAGED w_t2
#define SG_COPIED (SG_STAGED < w_a1 ? SG_STAGED : w_a1)
#define SG_CALLS (w_pcalls)
#define SG_BYTE(k)                                                                                 \
        __CPROVER_ensures((SG_PH && SG_STG && (k) < SG_COPIED) ==>                                 \
                          OUT0[(O_AVAIL - w_a1) + (k)] == ST.tmp_out_buff[k])
/* the byte clause of the staging copy is not closed within the resource budget (the copy out of the 16-byte
 * array inside the 82 KiB context after a replaced pass): -DDF_STAGING_BYTES, not registered */
#ifdef DF_STAGING_BYTES
#define SG_BYTES SG_BYTE(0) SG_BYTE(1) SG_BYTE(2) SG_BYTE(3) SG_BYTE(4) SG_BYTE(5) SG_BYTE(6)
#else
#define SG_BYTES
#endif
#define C_isal_deflate_int                                                                         \
        __CPROVER_requires(__CPROVER_is_fresh(stream, sizeof(*stream)))                            \
        __CPROVER_requires(__CPROVER_is_fresh(stream->next_in, stream->avail_in))                  \
        __CPROVER_requires(__CPROVER_is_fresh(stream->next_out, stream->avail_out))                \
        SG_SPLIT                                                                                   \
        __CPROVER_requires(w_pcalls == 0 && g_k < 16)                                              \
        __CPROVER_requires((uint32_t) ST.state <= ZSTATE_TMP_END)                                  \
        /* staged bytes exist exactly in the TMP states */                                         \
        __CPROVER_requires((uint32_t) ST.state >= TMP_OFF ==>                                      \
                           (ST.tmp_out_start < ST.tmp_out_end && ST.tmp_out_end <= 16))            \
        __CPROVER_requires((uint32_t) ST.state < TMP_OFF ==> ST.tmp_out_start == ST.tmp_out_end)   \
        __CPROVER_assigns(stream->next_in, stream->avail_in, stream->total_in, stream->next_out,   \
                          stream->avail_out, stream->total_out, ST.state, ST.count, ST.has_eob_hdr, \
                          ST.has_eob, ST.has_hist, BB, ST.crc, ST.block_next, ST.block_end,        \
                          ST.has_level_buf_init, ST.has_wrap_hdr, ST.tmp_out_start, ST.tmp_out_end, \
                          ST.tmp_out_buff, __CPROVER_object_whole(stream->next_out), w_pcalls,     \
                          w_i1_off, w_i1_avail, w_i1_total, w_i2_avail, w_i2_total, w_i2_tmp, w_a1, \
                          w_a2, w_t2, w_s1, w_s2)                                                  \
        /* (a) drain */                                                                            \
        __CPROVER_ensures((SG_TMP && g_k < SG_D) ==>                                               \
                          OUT0[g_k] == OLD(ST.tmp_out_buff[(ST.tmp_out_start + g_k) & 15]))        \
        __CPROVER_ensures((SG_TMP && !SG_PH) ==>                                                   \
                          (SG_CALLS == 0 && ADV_IS(SG_D) && ST.tmp_out_start == OLD(ST.tmp_out_start) + SG_D && \
                           ST.tmp_out_end == OLD(ST.tmp_out_end) &&                                \
                           (uint32_t) ST.state == (SG_D == SG_PEND ? O_ST - TMP_OFF : O_ST)))      \
        /* (b) first pass gets what is left of the caller's buffer */                              \
        __CPROVER_ensures(SG_PH ==>                                                                \
                          (SG_CALLS >= 1 && w_i1_off == SG_D && w_i1_avail == O_AVAIL - SG_D &&    \
                           w_i1_total == O_TOTAL + SG_D && w_a1 <= w_i1_avail))                    \
        __CPROVER_ensures((SG_PH && !SG_STG) ==>                                                   \
                          (SG_CALLS == 1 && (uint32_t) ST.state == w_s1 && stream->avail_out == w_a1 && \
                           ADV_IS(O_AVAIL - w_a1) && ST.tmp_out_start == ST.tmp_out_end))          \
        /* second pass: exactly the staging buffer, from total_out 0 */                            \
        __CPROVER_ensures((SG_PH && SG_STG) ==>                                                    \
                          (SG_CALLS == 2 && w_i2_tmp == 1 && w_i2_avail == 16 && w_i2_total == 0 && \
                           SG_STAGED <= 16 && ST.tmp_out_end == SG_STAGED &&                       \
                           ST.tmp_out_start == SG_COPIED))                                         \
        __CPROVER_ensures((SG_PH && SG_STG) ==>                                                    \
                          (stream->avail_out == w_a1 - SG_COPIED &&                                \
                           ADV_IS((O_AVAIL - w_a1) + SG_COPIED) &&                                 \
                           (uint32_t) ST.state == w_s2 + (SG_STAGED > SG_COPIED ? TMP_OFF : 0u)))  \
        /* at most 7 bytes are copied out (avail_out < 8): one clause per position */             \
        SG_BYTES                                                                                   \
        __CPROVER_ensures((SG_PH && SG_STG) ==> SG_COPIED <= 7)                                    \
        /* well-formedness for the next call */                                                    \
        __CPROVER_ensures((uint32_t) ST.state >= TMP_OFF ==>                                       \
                          (ST.tmp_out_start < ST.tmp_out_end && ST.tmp_out_end <= 16 &&            \
                           stream->avail_out == 0))                                                \
        __CPROVER_ensures((uint32_t) ST.state < TMP_OFF ==> ST.tmp_out_start == ST.tmp_out_end)

/* =====================================================================================================
 * detect_repeated_char_length (C05/C10): length of the run of equal bytes at the start of the input.
 * Call site (isal_deflate_int_stateless): avail_in >= 8 and the first eight bytes are all 0x00 or all 0xff;
 * the function itself only needs them to be equal ("assumes the first 8 bytes are the same character").
 * Result n: 8 <= n <= length, in[0..n) all equal in[0], and the run is maximal (n < length ==> in[n] != in[0]).
 * Reads exactly inside [in, in + length) (exact is_fresh size; the word loop reads 8 bytes at a time).
 * Stated for one ghost position g_k.
 * ===================================================================================================== */
#define RC_C (in[0])
#define RC_W0 ((uint64_t) in[0] * 0x0101010101010101ull)
#define RC_UNIFORM8                                                                                \
        (in[1] == in[0] && in[2] == in[0] && in[3] == in[0] && in[4] == in[0] && in[5] == in[0] && \
         in[6] == in[0] && in[7] == in[0])
#define C_detect_repeated_char_length                                                              \
        __CPROVER_requires(length >= 8 && __CPROVER_is_fresh(in, length) && RC_UNIFORM8)           \
        __CPROVER_assigns()                                                                        \
        __CPROVER_ensures((uint32_t) RET >= 8 && (uint32_t) RET <= length)                         \
        __CPROVER_ensures(g_k < (uint32_t) RET ==> in[g_k] == RC_C)                                \
        __CPROVER_ensures((uint32_t) RET < length ==> in[(uint32_t) RET] != RC_C)
#define L_detect_repeated_char_length_1                                                            \
        __CPROVER_assigns(p_64)                                                                    \
        __CPROVER_loop_invariant(__CPROVER_same_object(p_64, in) &&                                \
                                 __CPROVER_POINTER_OFFSET(p_64) <= (__CPROVER_size_t) length &&    \
                                 __CPROVER_POINTER_OFFSET(p_64) % 8 == 0 && w == RC_W0 && c == RC_C && \
                                 (g_k < __CPROVER_POINTER_OFFSET(p_64) ==> in[g_k] == RC_C))       \
        __CPROVER_decreases((__CPROVER_size_t) length + 8 - __CPROVER_POINTER_OFFSET(p_64))
#define H_detect_repeated_char_length_1 VCANARY();
#define L_detect_repeated_char_length_2                                                            \
        __CPROVER_assigns(p_8)                                                                     \
        __CPROVER_loop_invariant(__CPROVER_same_object(p_8, in) &&                                 \
                                 __CPROVER_POINTER_OFFSET(p_8) <= (__CPROVER_size_t) length &&     \
                                 __CPROVER_POINTER_OFFSET(p_8) >= 8 && c == RC_C &&                \
                                 (g_k < __CPROVER_POINTER_OFFSET(p_8) ==> in[g_k] == RC_C))        \
        __CPROVER_decreases((__CPROVER_size_t) length - __CPROVER_POINTER_OFFSET(p_8))
#define H_detect_repeated_char_length_2 VCANARY();

/* =====================================================================================================
 * isal_deflate_int_stateless (C10): the compression attempt of the one-shot call -- which step is taken when.
 * Helpers through their contracts above (write_stream_header_stateless, detect_repeated_char_length,
 * write_constant_compressed_stateless, write_deflate_header_unaligned_stateless [proved for
 * deflate_hdr_count <= 31, used here for every count: -DDH_MAXCNT=327], reset_match_history); the pass itself
 * (isal_deflate_pass / isal_deflate_icf_pass -> NASM) is an ASSUMED progress contract that counts its calls.
 *   - a generic wrapper header (gzip_flag GZIP / ZLIB) comes first; if it does not fit: STATELESS_OVERFLOW,
 *     nothing produced, nothing consumed, no pass;
 *   - the constant-run fast path is taken at most once, and only for a run at the start of the input of at
 *     least 8 equal bytes 0x00 / 0xff that is the whole input or at least MIN_REPEAT_LEN long -- the run
 *     length passed on is exactly the maximal run;
 *   - level 0 with a block header still to write: if the header does not fit: STATELESS_OVERFLOW before any
 *     pass; otherwise history reset, then exactly one pass;
 *   - COMP_OK iff the state afterwards is ZSTATE_END, or ZSTATE_NEW_HDR under FULL_FLUSH.
 * ===================================================================================================== */
#define PASS_SL_CONTRACT                                                                           \
        /* one-shot level 0: the block header has been written before the pass is entered */       \
        __CPROVER_requires(stream->level == 0 ==>                                                  \
                           (ST.state != ZSTATE_NEW_HDR && ST.state != ZSTATE_HDR))                 \
        __CPROVER_assigns(stream->next_in, stream->avail_in, stream->total_in, stream->next_out,   \
                          stream->avail_out, stream->total_out, ST.state, ST.count, ST.has_eob_hdr, \
                          ST.has_eob, ST.has_hist, BB, ST.crc, ST.block_next, ST.block_end,        \
                          ST.has_level_buf_init, w_pcalls,                                         \
                          __CPROVER_object_upto(stream->next_out, stream->avail_out))              \
        __CPROVER_ensures(w_pcalls == OLD(w_pcalls) + 1)                                           \
        __CPROVER_ensures(stream->avail_in <= OLD(stream->avail_in) &&                             \
                          stream->next_in == OLD(stream->next_in) + PS_K_IN &&                     \
                          stream->total_in == OLD(stream->total_in) + PS_K_IN)                     \
        __CPROVER_ensures(stream->avail_out <= OLD(stream->avail_out) &&                           \
                          stream->next_out == OLD(stream->next_out) + PS_K_OUT &&                  \
                          stream->total_out == OLD(stream->total_out) + PS_K_OUT)                  \
        __CPROVER_ensures((uint32_t) ST.state <= ZSTATE_END)
#if defined(DF_INT_SL)
#undef C_isal_deflate_pass
#define C_isal_deflate_pass PASS_SL_CONTRACT
#define C_isal_deflate_icf_pass PASS_SL_CONTRACT
#endif
#define IS_WRAPF (O_GZ == IGZIP_GZIP || O_GZ == IGZIP_ZLIB)
#define IS_HDR_NOFIT (IS_WRAPF && !O_WRAP && O_AVAIL <= SH_LEN)
#define IS_CC (w_cc_calls - OLD(w_cc_calls))
#define IS_PC (w_pcalls - OLD(w_pcalls))
#define IS_IN0 OLD(stream->next_in)
#if defined(DF_INT_SL)
#define C_isal_deflate_int_stateless                                                               \
        __CPROVER_requires(__CPROVER_is_fresh(stream, sizeof(*stream)))                            \
        LB_PRE                                                                                     \
        __CPROVER_requires(RMH_MASK_OK && stream->level <= 3 && stream->hist_bits <= 15)           \
        __CPROVER_requires(stream->end_of_stream <= 1 && stream->gzip_flag <= IGZIP_ZLIB_NO_HDR)   \
        __CPROVER_requires(__CPROVER_is_fresh(HT, sizeof(struct isal_hufftables)) && HT_WF(HT) &&  \
                           HT_FINAL(HT) && (HT->deflate_hdr_count > 0 || HT->deflate_hdr_extra_bits > 0)) \
        __CPROVER_requires(BB_WF(BB))                                                              \
        __CPROVER_requires(ST.state == ZSTATE_NEW_HDR || ST.state == ZSTATE_HDR)                   \
        __CPROVER_requires((stream->gzip_flag == IGZIP_ZLIB || stream->gzip_flag == IGZIP_ZLIB_NO_HDR) ==> \
                           (ST.crc & 0xffff) < 65521)                                              \
        __CPROVER_requires(__CPROVER_is_fresh(stream->next_in, stream->avail_in))                  \
        __CPROVER_requires(__CPROVER_is_fresh(stream->next_out, stream->avail_out))                \
        __CPROVER_assigns(stream->next_in, stream->avail_in, stream->total_in, stream->next_out,   \
                          stream->avail_out, stream->total_out, stream->gzip_flag, ST.state,       \
                          ST.count, ST.has_eob_hdr, ST.has_eob, ST.has_hist, ST.has_wrap_hdr, BB,  \
                          ST.crc, ST.block_next, ST.block_end, ST.has_level_buf_init, SB_TABLE_FRAME_IS, \
                          w_pcalls, w_cc_calls, w_cc_len, w_run, w_runbits, w_run_bad, w_crc_init, \
                          w_crc_len, w_crc_buf,                                                    \
                          w_crc_calls, w_ad_init, w_ad_len, w_ad_buf, w_ad_calls,                  \
                          __CPROVER_object_whole(stream->next_out))                                \
        __CPROVER_ensures(RET == COMP_OK || RET == STATELESS_OVERFLOW)                             \
        __CPROVER_ensures((RET == COMP_OK) ==                                                      \
                          (IS_PC == 1 && (ST.state == ZSTATE_END ||                                \
                                          (ST.state == ZSTATE_NEW_HDR && stream->flush == FULL_FLUSH)))) \
        /* wrapper header first; no room for it: nothing happens */                                \
        __CPROVER_ensures(IS_HDR_NOFIT ==>                                                         \
                          (RET == STATELESS_OVERFLOW && ADV_IS(0) && stream->avail_in == O_AIN &&  \
                           IS_PC == 0 && IS_CC == 0 && stream->gzip_flag == O_GZ))                 \
        __CPROVER_ensures((IS_WRAPF && !IS_HDR_NOFIT && !O_WRAP) ==>                               \
                          (ST.has_wrap_hdr == 1 &&                                                 \
                           stream->gzip_flag == (O_GZ == IGZIP_ZLIB ? IGZIP_ZLIB_NO_HDR : IGZIP_GZIP_NO_HDR))) \
        /* constant-run fast path */                                                               \
        __CPROVER_ensures(IS_CC <= 1 && IS_PC <= 1)                                                \
        __CPROVER_ensures(IS_CC == 1 ==>                                                           \
                          (O_AIN >= 8 && w_cc_len >= 8 && w_cc_len <= O_AIN &&                     \
                           (w_cc_len == O_AIN || w_cc_len >= MIN_REPEAT_LEN) &&                    \
                           (IS_IN0[0] == 0x00 || IS_IN0[0] == 0xff) &&                             \
                           (g_k < w_cc_len ==> IS_IN0[g_k] == IS_IN0[0]) &&                        \
                           (w_cc_len < O_AIN ==> IS_IN0[w_cc_len] != IS_IN0[0])))                  \
        /* input is only consumed forwards, output stays inside the space offered */                \
        __CPROVER_ensures(stream->avail_in <= O_AIN &&                                             \
                          stream->next_in == IS_IN0 + (O_AIN - stream->avail_in))                  \
        __CPROVER_ensures(stream->avail_out <= O_AVAIL && ADV_IS(O_AVAIL - stream->avail_out))     \
        /* levels 1..3 and a level-0 call whose block header went out: exactly one pass */          \
        __CPROVER_ensures((!IS_HDR_NOFIT && stream->level >= 1) ==> IS_PC == 1)                    \
        __CPROVER_ensures((stream->level == 0 && IS_PC == 0) ==> RET == STATELESS_OVERFLOW)
#endif
#if defined(DF_LVLN)
#define SB_TABLE_FRAME_IS __CPROVER_object_whole(stream->level_buf)
#else
#define SB_TABLE_FRAME_IS ST.head
#endif

/* Variant A of the isal_deflate_stateless harness decides every path that does not enter the stored
 * fallback and does not reset the match history.  The helpers of those excluded paths are given the
 * contract "never called" -- requires(false) -- so that their unreachability is itself an obligation
 * (precondition check at each call site) instead of an unstated assumption, and their bodies do not
 * have to be encoded. */
#if defined(DF_SL_A)
#define DF_UNREACHED __CPROVER_requires(0) __CPROVER_assigns()
#undef C_write_stored_block
#define C_write_stored_block DF_UNREACHED
#undef C_write_trailer
#define C_write_trailer DF_UNREACHED
#undef C_write_stream_header_stateless
#define C_write_stream_header_stateless DF_UNREACHED
#undef C_update_checksum
#define C_update_checksum DF_UNREACHED
#undef C_reset_match_history
#define C_reset_match_history DF_UNREACHED
#endif

#endif
