/* Driver-level contract for isal_deflate() (igzip/igzip.c): what the streaming entry point does *around*
 * the compression passes, with the pass itself (isal_deflate_int -> isal_deflate_pass / _icf_pass ->
 * NASM bodies) replaced by an ASSUMED contract.  Caller-history facts are carried by ghost state:
 *
 *   g_hash_clean  -- the match-finder hash table holds no position of data before the current point
 *                    (set by reset_match_history, cleared as soon as a pass consumes input)
 *
 * Properties stated here
 *  C14  after a completed FULL_FLUSH (has_hist == IGZIP_NO_HIST) no pass runs on a stale hash table:
 *       it is a *precondition of the pass* that has_hist != NO_HIST or the table is clean; the driver must
 *       establish it at every call site, in every iteration of its do-while loop.
 *  C17  whenever a pass starts on a stream whose history state demanded (re)initialisation at entry
 *       (NO_HIST, DICT_HIST, DICT_HASH_SET), the distance and hash masks are the ones derived from the
 *       *current* hist_bits and level (so no match can exceed the window announced now).
 *  C10  an invalid flush value or level / level buffer is rejected with the documented code before
 *       any field of the stream or state is changed.
 *
 * ASSUMED model of one pass w.r.t. has_hist (from update_state() in igzip_base.c/igzip_icf_base.c, the
 * proved sync_flush contract, and igzip_icf_body.c): has_hist becomes IGZIP_HIST as soon as input is
 * consumed; it can (again) be IGZIP_NO_HIST after the pass only if a FULL_FLUSH marker completed in it
 * (stream->flush == FULL_FLUSH) or if it was NO_HIST before and no input was consumed. */
#ifndef IGZIP_DRIVER_H
#define IGZIP_DRIVER_H
#include "verif_common.h"

extern int g_hash_clean;
extern uint16_t g_entry_hist;
extern uint32_t w_pass_calls;
extern int g_reject; /* ghost: the entry parameters are invalid (tied by == in requires) */
extern int w_pass_called; /* ghost flag set by the pass stub (saturating, unlike the counter) */
extern int g_must_pass; /* ghost: end_of_stream or a flush is requested at entry (tied by == in requires) */

#define DRV_ST stream->internal_state
#define SPEC_DIST_MASK(hb) ((((hb) == 0 || (hb) > 15) ? (1u << 15) : (1u << (hb))) - 1u)
#define SPEC_HASH_MASK_L(l)                                                                        \
        ((l) == 0 ? (uint32_t) LVL0_HASH_MASK                                                      \
                  : ((l) == 1 ? (uint32_t) LVL1_HASH_MASK                                          \
                              : ((l) == 2 ? (uint32_t) LVL2_HASH_MASK : (uint32_t) LVL3_HASH_MASK)))

/* --- the pass: ASSUMED contract (replaces isal_deflate_int) --- */
#define C_isal_deflate_int                                                                         \
        /* C14: never compress on a stale table after a full flush */                              \
        __CPROVER_requires(DRV_ST.has_hist != IGZIP_NO_HIST || g_hash_clean)                       \
        /* C17: masks are current whenever the entry state demanded initialisation */              \
        __CPROVER_requires(g_entry_hist == IGZIP_HIST ||                                           \
                           DRV_ST.dist_mask == SPEC_DIST_MASK(stream->hist_bits))                  \
        __CPROVER_requires(g_entry_hist == IGZIP_HIST || g_entry_hist == IGZIP_NO_HIST ||          \
                           DRV_ST.hash_mask == SPEC_HASH_MASK_L(stream->level))                    \
        __CPROVER_requires(g_entry_hist != IGZIP_NO_HIST ||                                        \
                           DRV_ST.hash_mask <= SPEC_HASH_MASK_L(stream->level))                    \
        __CPROVER_assigns(stream->next_in, stream->avail_in, stream->total_in, stream->next_out,   \
                          stream->avail_out, stream->total_out, DRV_ST.has_hist, DRV_ST.state,     \
                          DRV_ST.block_next, DRV_ST.block_end, DRV_ST.has_eob, DRV_ST.has_eob_hdr, \
                          DRV_ST.count, DRV_ST.crc, DRV_ST.tmp_out_start, DRV_ST.tmp_out_end,      \
                          DRV_ST.has_level_buf_init, g_hash_clean, w_pass_calls, w_pass_called)    \
        __CPROVER_ensures(w_pass_calls == __CPROVER_old(w_pass_calls) + 1 && w_pass_called == 1)   \
        __CPROVER_ensures(DRV_ST.has_hist <= IGZIP_DICT_HASH_SET)                                  \
        __CPROVER_ensures(stream->next_in != __CPROVER_old(stream->next_in) ==> g_hash_clean == 0) \
        __CPROVER_ensures(stream->next_in == __CPROVER_old(stream->next_in) ==>                    \
                          g_hash_clean == __CPROVER_old(g_hash_clean))                             \
        __CPROVER_ensures((DRV_ST.has_hist == IGZIP_NO_HIST && stream->flush != FULL_FLUSH) ==>    \
                          (__CPROVER_old(DRV_ST.has_hist) == IGZIP_NO_HIST &&                      \
                           stream->next_in == __CPROVER_old(stream->next_in)))

/* --- reset_match_history: proved in harness reset_match_history (every hash head overwritten,
 *     has_hist = NO_HIST); here only its effect on the ghost flag is added --- */
#define C_reset_match_history                                                                      \
        __CPROVER_assigns(DRV_ST.has_hist, g_hash_clean)                                           \
        __CPROVER_ensures(DRV_ST.has_hist == IGZIP_NO_HIST && g_hash_clean == 1)

/* --- isal_deflate_hash (C wrapper around the NASM hashers): writes only the level buffer's / state's
 *     hash table, which this driver-level harness does not model (ASSUMED frame) --- */
#define C_isal_deflate_hash __CPROVER_requires(1) __CPROVER_ensures(1) __CPROVER_assigns()

/* --- the driver --- */
#define DRV_REJECT                                                                                 \
        (stream->flush >= 3 ||                                                                     \
         (stream->level != 0 &&                                                                    \
          (stream->level_buf == NULL || stream->level > 3 ||                                       \
           (stream->level == 1 && stream->level_buf_size < ISAL_DEF_LVL1_MIN) ||                   \
           (stream->level == 2 && stream->level_buf_size < ISAL_DEF_LVL2_MIN) ||                   \
           (stream->level == 3 && stream->level_buf_size < ISAL_DEF_LVL3_MIN))))
#define C_isal_deflate                                                                             \
        __CPROVER_requires(__CPROVER_is_fresh(stream, sizeof(*stream)))                            \
        __CPROVER_requires(DRV_ST.has_hist <= IGZIP_DICT_HASH_SET)                                 \
        __CPROVER_requires(g_entry_hist == DRV_ST.has_hist && w_pass_calls == 0)                   \
        __CPROVER_requires(g_reject == ((DRV_REJECT) ? 1 : 0))                                     \
        __CPROVER_requires(g_must_pass == ((stream->end_of_stream != 0 || stream->flush != NO_FLUSH) ? 1 : 0)) \
        __CPROVER_assigns(__CPROVER_object_whole(stream), g_hash_clean, w_pass_calls, w_pass_called) \
        /* C10: rejection before any change */                                                     \
        __CPROVER_ensures(g_reject ==>                                            \
                          (__CPROVER_return_value != COMP_OK && w_pass_calls == 0 &&               \
                           stream->next_in == __CPROVER_old(stream->next_in) &&                    \
                           stream->avail_in == __CPROVER_old(stream->avail_in) &&                  \
                           stream->total_in == __CPROVER_old(stream->total_in) &&                  \
                           stream->next_out == __CPROVER_old(stream->next_out) &&                  \
                           stream->avail_out == __CPROVER_old(stream->avail_out) &&                \
                           stream->total_out == __CPROVER_old(stream->total_out) &&                \
                           DRV_ST.state == __CPROVER_old(DRV_ST.state) &&                          \
                           DRV_ST.has_hist == __CPROVER_old(DRV_ST.has_hist) &&                    \
                           DRV_ST.b_bytes_valid == __CPROVER_old(DRV_ST.b_bytes_valid) &&          \
                           DRV_ST.b_bytes_processed == __CPROVER_old(DRV_ST.b_bytes_processed)))   \
        __CPROVER_ensures((__CPROVER_old(stream->flush) >= 3) ==>                                  \
                          __CPROVER_return_value == INVALID_FLUSH)                                 \
        __CPROVER_ensures(!g_reject ==>                                           \
                          __CPROVER_return_value == COMP_OK)                \
        /* C10 progress: with end_of_stream or a flush requested the call never returns without having run a   \
         * compression pass (the "too little buffered, just continue" shortcut is for NO_FLUSH mid-stream only) */ \
        __CPROVER_ensures((!g_reject && g_must_pass) ==> w_pass_called == 1)                        \
        /* the caller's parameters are handed back as given */                                     \
        __CPROVER_ensures(stream->flush == __CPROVER_old(stream->flush) &&                         \
                          stream->end_of_stream == __CPROVER_old(stream->end_of_stream))

/* do { ... } while (internal && ...) */
#define L_isal_deflate_1                                                                           \
        __CPROVER_assigns(in_size_initial, out_size_initial, buf_start_in, internal, copy_start_offset, \
                          copy_down_src, copy_down_size, buf_hist_start, size, next_in, avail_in,  \
                          buffered_size, next_in_pre, processed, hist_size, in_size, out_size,     \
                          __CPROVER_object_whole(stream), g_hash_clean, w_pass_calls, w_pass_called) \
        __CPROVER_loop_invariant(DRV_ST.has_hist <= IGZIP_DICT_HASH_SET)                           \
        __CPROVER_loop_invariant(DRV_ST.has_hist != IGZIP_NO_HIST || g_hash_clean)                 \
        __CPROVER_loop_invariant(stream->flush == flush_type && stream->end_of_stream == end_of_stream) \
        __CPROVER_loop_invariant(g_entry_hist == IGZIP_HIST ||                                     \
                                 DRV_ST.dist_mask == SPEC_DIST_MASK(stream->hist_bits))            \
        __CPROVER_loop_invariant(g_entry_hist == IGZIP_HIST || g_entry_hist == IGZIP_NO_HIST ||    \
                                 DRV_ST.hash_mask == SPEC_HASH_MASK_L(stream->level))              \
        __CPROVER_loop_invariant(g_entry_hist != IGZIP_NO_HIST ||                                  \
                                 DRV_ST.hash_mask <= SPEC_HASH_MASK_L(stream->level))              \
        __CPROVER_loop_invariant(stream->level <= 3)
#define H_isal_deflate_1 VCANARY();
#endif
