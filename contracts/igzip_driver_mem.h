/* Memory-safety side of the streaming entry point isal_deflate() (igzip/igzip.c), property C05:
 * "reads only inside [next_in, next_in+avail_in) ...; once a call returns the codec never again dereferences
 * consumed input".
 *
 * Model.  The caller's CURRENT input chunk is a fresh object of exactly avail_in bytes that starts at the
 * entry value of next_in: anything before it (input consumed by earlier calls) or behind it is not part of
 * any object, so a copy source or a pass range that leaves the chunk cannot satisfy the obligations below.
 * The only other memory the driver may read or write is stream->internal_state.buffer.
 *
 *  - the four history-buffer copies of isal_deflate() (memmove shift-down, memcpy of new input behind the
 *    buffered bytes, memmove of hist_size bytes of history from next_in - hist_size, memcpy of the look-ahead)
 *    are redirected to the RECORDING stub verif_copy_rec, whose PRECONDITION (an obligation at every call
 *    site) is the memory-safety statement: destination range inside buffer[0..sizeof), source range inside
 *    the buffer or inside the current chunk, n fits both; buffer contents are not modelled;
 *  - the compression pass isal_deflate_int() (NASM bodies below it) is replaced by an ASSUMED contract whose
 *    REQUIRES are obligations on the driver: the range [start_in, next_in + avail_in) handed to the pass is
 *    inside the buffer or inside the current chunk, and a pending stored block still has its data in front
 *    of next_in (write_stored_block reads next_in - (total_in - block_next));
 *  - WF_DEFLATE_BUF is the state invariant required at entry and re-established at exit. */
#ifndef IGZIP_DRIVER_MEM_H
#define IGZIP_DRIVER_MEM_H
#include "verif_common.h"

#ifdef ISAL_VERIF
extern struct isal_zstream *w_stream; /* entry snapshots (assigned in E_isal_deflate) */
extern uint8_t *w_in0;
extern uint32_t w_avail0, w_total0;
extern uint32_t w_copies, w_passes;
extern uint32_t w_last_kind; /* 0: no pass yet in this call, 1: last pass ran on the internal buffer, 2: on the user chunk */
/* ghost state of the stream: number of bytes (<= 32K) directly in front of the current position that the match
 * finder may still dereference (its hash table refers to them): 0 after a history reset, dict_len after
 * isal_deflate_set_dict, grows by the bytes each pass consumes */
extern uint32_t g_hist;
#define DM_MIN32K(x) ((uint64_t) (x) < 32768u ? (uint32_t) (x) : 32768u)

#define DM_ST stream->internal_state
#define DM_OFF(p) ((uint64_t) __CPROVER_POINTER_OFFSET(p))
#define DM_BUF_OFF ((uint64_t) offsetof(struct isal_zstream, internal_state.buffer))
#define DM_BUF_SZ ((uint64_t) sizeof(((struct isal_zstream *) 0)->internal_state.buffer))
/* [p, p+n) inside internal_state.buffer of the stream / inside the current input chunk */
#define DM_IN_BUF(p, n)                                                                            \
        (__CPROVER_same_object(p, w_stream) && DM_OFF(p) >= DM_BUF_OFF && DM_OFF(p) <= DM_BUF_OFF + DM_BUF_SZ && \
         (uint64_t) (n) <= DM_BUF_OFF + DM_BUF_SZ - DM_OFF(p))
#define DM_IN_CHUNK(p, n)                                                                          \
        (__CPROVER_same_object(p, w_in0) && DM_OFF(p) <= (uint64_t) w_avail0 && (uint64_t) (n) <= (uint64_t) w_avail0 - DM_OFF(p))
#define DM_ENDED(st) ((st) == ZSTATE_END || (st) == ZSTATE_TRL || (st) == ZSTATE_TMP_END || (st) == ZSTATE_TMP_TRL)
#define DM_T0(st)                                                                                  \
        ((st) == ZSTATE_TYPE0_HDR || (st) == ZSTATE_TYPE0_BODY || (st) == ZSTATE_TMP_TYPE0_HDR || (st) == ZSTATE_TMP_TYPE0_BODY)

/* ---- recording stub for the history-buffer copies: the precondition IS the memory-safety statement ---- */
#define DM_COPY_CONTRACT                                                                           \
        __CPROVER_requires(DM_IN_BUF(d, n))                                                        \
        __CPROVER_requires(DM_IN_BUF(s, n) || DM_IN_CHUNK(s, n))                                   \
        __CPROVER_assigns(w_copies)                                                                \
        __CPROVER_ensures(w_copies == __CPROVER_old(w_copies) + 1)

/* ---- the pass: ASSUMED progress contract; its requires are obligations on the driver ---- */
#define DM_BEHIND (DM_OFF(stream->next_in) - DM_OFF(start_in)) /* bytes of history in front of next_in */
#define C_isal_deflate_int                                                                         \
        __CPROVER_requires(__CPROVER_same_object(start_in, stream->next_in) && DM_OFF(start_in) <= DM_OFF(stream->next_in)) \
        __CPROVER_requires(DM_IN_BUF(start_in, DM_BEHIND + stream->avail_in) || DM_IN_CHUNK(start_in, DM_BEHIND + stream->avail_in)) \
        __CPROVER_requires(DM_T0(DM_ST.state) ==> (uint64_t) (uint32_t) (stream->total_in - DM_ST.block_next) <= DM_BEHIND) \
        __CPROVER_requires(DM_ST.has_hist <= IGZIP_DICT_HASH_SET)                                  \
        /* the history the matcher may dereference is in front of next_in, inside the range handed over */ \
        __CPROVER_requires((DM_ST.has_hist != IGZIP_NO_HIST && stream->avail_in > 0) ==> (uint64_t) g_hist <= DM_BEHIND) \
        __CPROVER_assigns(g_hist, stream->next_in, stream->avail_in, stream->total_in, stream->next_out,   \
                          stream->avail_out, stream->total_out, DM_ST.has_hist, DM_ST.state,       \
                          DM_ST.block_next, DM_ST.block_end, DM_ST.has_eob, DM_ST.has_eob_hdr,     \
                          DM_ST.count, DM_ST.crc, DM_ST.tmp_out_start, DM_ST.tmp_out_end,          \
                          DM_ST.has_level_buf_init, w_passes, w_last_kind)                         \
        __CPROVER_ensures(w_passes == __CPROVER_old(w_passes) + 1)                                 \
        __CPROVER_ensures(w_last_kind == (__CPROVER_same_object(start_in, w_stream) ? 1u : 2u))    \
        /* consumes k <= avail_in bytes */                                                         \
        /* NOTE: must be pointer_in_range_dfcc -- dfcc havocs a pointer-typed assigns target with an invalid pointer and \
         * same_object()/== on it can never be assumed true afterwards (the path would silently be cut: audit item O4) */ \
        __CPROVER_ensures(__CPROVER_pointer_in_range_dfcc(__CPROVER_old(stream->next_in), stream->next_in, \
                                                          __CPROVER_old(stream->next_in) + __CPROVER_old(stream->avail_in))) \
        __CPROVER_ensures(stream->avail_in == __CPROVER_old(stream->avail_in) -                    \
                                  (uint32_t) (DM_OFF(stream->next_in) - DM_OFF(__CPROVER_old(stream->next_in)))) \
        __CPROVER_ensures(stream->total_in == __CPROVER_old(stream->total_in) +                    \
                                  (uint32_t) (DM_OFF(stream->next_in) - DM_OFF(__CPROVER_old(stream->next_in)))) \
        /* produces avail_out - avail_out' bytes */                                                \
        __CPROVER_ensures(stream->avail_out <= __CPROVER_old(stream->avail_out) &&                 \
                          stream->total_out == __CPROVER_old(stream->total_out) + (__CPROVER_old(stream->avail_out) - stream->avail_out)) \
        __CPROVER_ensures(DM_ST.has_hist <= IGZIP_DICT_HASH_SET)                                   \
        __CPROVER_ensures(g_hist == (DM_ST.has_hist == IGZIP_NO_HIST ? 0u :                        \
                          DM_MIN32K((uint64_t) __CPROVER_old(g_hist) + (DM_OFF(stream->next_in) - DM_OFF(__CPROVER_old(stream->next_in)))))) \
        /* ASSUMED (sync_flush): history is dropped only by a full-flush marker that completed in this pass (it can be \
         * the marker of an earlier call finishing from the temporary output buffer while new input is still buffered) */ \
        __CPROVER_ensures(DM_ST.has_hist == IGZIP_NO_HIST ==>                                      \
                          ((__CPROVER_old(DM_ST.has_hist) == IGZIP_NO_HIST && stream->next_in == __CPROVER_old(stream->next_in)) || \
                           stream->flush == FULL_FLUSH))                                               \
        /* ASSUMED (create_icf_block_hdr / write_stored_block): a stored block is only started if its data is still \
         * in front of next_in (cur_in_processed >= block_start_offset) and what is left fits the buffer */ \
        __CPROVER_ensures(DM_T0(DM_ST.state) ==>                                                   \
                          ((uint64_t) (uint32_t) (stream->total_in - DM_ST.block_next) <= DM_BEHIND && \
                           (uint64_t) (uint32_t) (stream->total_in - DM_ST.block_next) <= DM_BUF_SZ))  \
        /* ASSUMED: a stored block is pending only for consumed input, hence with history (update_state); a completed \
         * full flush leaves ZSTATE_NEW_HDR / ZSTATE_TRL (write_stored_block, sync_flush).  Never observed otherwise in \
         * 150000 fuzzed streams (see report) */                                                  \
        __CPROVER_ensures(DM_ST.has_hist == IGZIP_NO_HIST ==> !DM_T0(DM_ST.state))                 \
        /* ASSUMED: the trailer / end states are only reached when all input has been consumed */ \
        __CPROVER_ensures(DM_ENDED(DM_ST.state) ==> stream->avail_in == 0)                         \
        __CPROVER_ensures(DM_ENDED(__CPROVER_old(DM_ST.state)) ==> DM_ENDED(DM_ST.state))          \
        /* ASSUMED (A1): a pass that was given no input does not stop in a stored-block state it was not in before \
         * (an empty block is never coded as a stored block: its dynamic/static header is shorter) */ \
        __CPROVER_ensures((DM_T0(DM_ST.state) && !DM_T0(__CPROVER_old(DM_ST.state))) ==> __CPROVER_old(stream->avail_in) > 0)

/* reset_match_history / isal_deflate_hash: ASSUMED frames (hash tables are not modelled); the dictionary range
 * handed to the hasher must lie inside the buffer (obligation) */
#define C_reset_match_history                                                                      \
        __CPROVER_assigns(DM_ST.has_hist, g_hist) __CPROVER_ensures(DM_ST.has_hist == IGZIP_NO_HIST && g_hist == 0)
#define C_isal_deflate_hash                                                                        \
        __CPROVER_requires(DM_IN_BUF(dict, dict_len)) __CPROVER_assigns() __CPROVER_ensures(1)

/* ---- state invariant of the internal buffer ---- */
#define DM_BUFFERED (DM_ST.b_bytes_valid - DM_ST.b_bytes_processed)
#define WF_DEFLATE_IDX                                                                             \
        (DM_ST.b_bytes_processed <= DM_ST.b_bytes_valid && DM_ST.b_bytes_valid <= DM_BUF_SZ &&     \
         DM_ST.has_hist <= IGZIP_DICT_HASH_SET && g_hist <= 32768u && (DM_ST.has_hist == IGZIP_NO_HIST ==> g_hist == 0))
/* data of a pending stored block that the passes have already consumed is still in the buffer */
#define WF_DEFLATE_T0                                                                              \
        (DM_T0(DM_ST.state) ==> (uint32_t) (stream->total_in - DM_BUFFERED - DM_ST.block_next) <= DM_ST.b_bytes_processed)
/* no history: no stored block is pending */
#define WF_DEFLATE_NOHIST (DM_ST.has_hist == IGZIP_NO_HIST ==> !DM_T0(DM_ST.state))
#define WF_DEFLATE_BUF (WF_DEFLATE_IDX && WF_DEFLATE_T0 && WF_DEFLATE_NOHIST)

/* the history the matcher may dereference sits in the buffer in front of the processed position */
#define WF_DEFLATE_HIST                                                                            \
        ((DM_ST.has_hist != IGZIP_NO_HIST ==> g_hist <= DM_ST.b_bytes_processed) ||                \
         /* ... or the last input buffer has been given and is used up (end_of_stream means: no further input; \
          * API rule stated as precondition), so the matcher never runs again */                  \
         (stream->end_of_stream && stream->avail_in == 0 && DM_BUFFERED == 0) ||                   \
         /* ... or the stream has reached its trailer / end state */                               \
         DM_ENDED(DM_ST.state))

#define DM_REJECT                                                                                  \
        (stream->flush >= 3 ||                                                                     \
         (stream->level != 0 &&                                                                    \
          (stream->level_buf == NULL || stream->level > 3 ||                                       \
           (stream->level == 1 && stream->level_buf_size < ISAL_DEF_LVL1_MIN) ||                   \
           (stream->level == 2 && stream->level_buf_size < ISAL_DEF_LVL2_MIN) ||                   \
           (stream->level == 3 && stream->level_buf_size < ISAL_DEF_LVL3_MIN))))
/* external view of the input counters: next_in = w_in0 + c, avail_in = w_avail0 - c, total_in = w_total0 + c */
#define DM_EXT_VIEW                                                                                \
        (__CPROVER_same_object(stream->next_in, w_in0) && DM_OFF(stream->next_in) <= (uint64_t) w_avail0 && \
         stream->avail_in == w_avail0 - (uint32_t) DM_OFF(stream->next_in) &&                      \
         stream->total_in == w_total0 + (uint32_t) DM_OFF(stream->next_in))

#define C_isal_deflate                                                                             \
        __CPROVER_requires(__CPROVER_is_fresh(stream, sizeof(*stream)))                            \
        /* avail_in + buffered bytes is computed in 32 bits by the driver (in_size): keep it from wrapping */ \
        __CPROVER_requires(stream->avail_in <= 0x7fffffffu)                                        \
        __CPROVER_requires(__CPROVER_is_fresh(stream->next_in, stream->avail_in))                  \
        __CPROVER_requires(WF_DEFLATE_BUF && WF_DEFLATE_HIST && w_passes == 0 && w_copies == 0 && w_last_kind == 0) \
        /* API rule: no input is supplied once the stream has reached its trailer / end state */   \
        __CPROVER_requires(DM_ENDED(DM_ST.state) ==> (stream->avail_in == 0 && DM_BUFFERED == 0))   \
        __CPROVER_assigns(__CPROVER_object_whole(stream), w_stream, w_in0, w_avail0, w_total0, w_copies, w_passes, w_last_kind, g_hist) \
        /* one ensures clause per conjunct (separate obligations; the first one is cheap and is part of every \
         * obligation group of reg_igzip_driver_mem.py) */                                         \
        __CPROVER_ensures(__CPROVER_return_value == COMP_OK || __CPROVER_return_value == INVALID_FLUSH || \
                          __CPROVER_return_value == ISAL_INVALID_LEVEL || __CPROVER_return_value == ISAL_INVALID_LEVEL_BUF) \
        __CPROVER_ensures(WF_DEFLATE_IDX)                                                          \
        __CPROVER_ensures(WF_DEFLATE_T0)                                                           \
        __CPROVER_ensures(WF_DEFLATE_NOHIST)                                                       \
        __CPROVER_ensures(DM_EXT_VIEW)                                                             \
        /* kept as the LAST ensures clause: it is the obligation that fails on the tree with the history-drop defect */ \
        __CPROVER_ensures(WF_DEFLATE_HIST)
#define E_isal_deflate                                                                             \
        w_stream = stream;                                                                         \
        w_in0 = stream->next_in;                                                                   \
        w_avail0 = stream->avail_in;                                                               \
        w_total0 = stream->total_in;

/* do { ... } while (internal && ...) */
#define DM_C ((uint32_t) DM_OFF(stream->next_in)) /* bytes of the current chunk consumed so far */
#define L_isal_deflate_1                                                                           \
        __CPROVER_assigns(in_size_initial, out_size_initial, buf_start_in, internal, copy_start_offset, \
                          copy_down_src, copy_down_size, buf_hist_start, size, next_in, avail_in,  \
                          buffered_size, next_in_pre, processed, hist_size, in_size, out_size,     \
                          __CPROVER_object_whole(stream), w_copies, w_passes, w_last_kind, g_hist)              \
        __CPROVER_loop_invariant(DM_EXT_VIEW && start_in == w_in0 && total_start == w_total0)      \
        __CPROVER_loop_invariant(stream->flush == flush_type && stream->end_of_stream == end_of_stream && flush_type < 3) \
        __CPROVER_loop_invariant(WF_DEFLATE_BUF && WF_DEFLATE_HIST && buffered_size == DM_BUFFERED) \
        __CPROVER_loop_invariant(in_size == stream->avail_in + buffered_size && out_size == stream->total_out) \
        /* the loop only continues after a pass on the internal buffer */                          \
        __CPROVER_loop_invariant((w_last_kind == 0 && w_passes == 0) || w_last_kind == 1)            \
        /* buf_hist_start is non-zero only before the first pass of a call that started without history (hist_size 0: \
         * either nothing is buffered and the pass runs on the chunk, or the shift-down moves everything to the front) */ \
        __CPROVER_loop_invariant(0 <= buf_hist_start && (uint32_t) buf_hist_start <= DM_ST.b_bytes_processed && \
                                 (buf_hist_start == 0 || (w_last_kind == 0 && hist_size == 0 && DM_ST.has_hist == IGZIP_NO_HIST))) \
        /* hist_size: bounded, and large enough for what the next pass may look back at */          \
        __CPROVER_loop_invariant(hist_size <= DM_BUF_SZ && (w_last_kind == 0 ==> DM_C == 0)) \
        __CPROVER_loop_invariant((DM_ST.has_hist != IGZIP_NO_HIST && stream->avail_in + buffered_size > 0) ==> \
                                 (g_hist <= hist_size && g_hist <= DM_ST.b_bytes_processed))       \
        __CPROVER_loop_invariant(DM_T0(DM_ST.state) ==> (uint32_t) (stream->total_in - buffered_size - DM_ST.block_next) <= hist_size) \
        /* if the buffer still holds history that hist_size does not cover, the call started drained: no input at all */ \
        __CPROVER_loop_invariant((DM_ST.has_hist != IGZIP_NO_HIST && hist_size < DM_MIN32K(DM_ST.b_bytes_processed - (uint32_t) buf_hist_start)) ==> \
                                 (w_last_kind == 0 && w_avail0 == 0 && buffered_size == 0 && !DM_T0(DM_ST.state))) \
        /* without history: hist_size is 0, buf_hist_start marks the whole processed part as "not history", and once an \
         * internal pass has run the shift-down has moved everything to the front */              \
        __CPROVER_loop_invariant(DM_ST.has_hist == IGZIP_NO_HIST ==>                               \
                                 (hist_size == 0 && (uint32_t) buf_hist_start == DM_ST.b_bytes_processed && \
                                  (w_last_kind == 1 ==> DM_ST.b_bytes_processed == 0)))            \
        __CPROVER_decreases((uint64_t) stream->avail_in + buffered_size + stream->avail_out)
#define H_isal_deflate_1 VCANARY();

#endif /* ISAL_VERIF */
#endif
