/* Contract and recording stubs for setup_dynamic_header() of igzip/igzip_inflate.c
 * (properties C02 / C06): decoding of the code-length sequence of a dynamic block header, RFC 1951 3.2.7.
 *
 * What is decided (harness/igzip/dynhdr.c, BOUNDED: at most DH_K code-length symbols, see the registry):
 * for an ARBITRARY sequence of code-length symbols (0..18, also invalid ones) with arbitrary extra-bit values,
 * arbitrary HLIT/HDIST/HCLEN fields and arbitrary bit accounting,
 *   - HLIT > 29 or HDIST > 29 (fields 30, 31) is rejected with ISAL_INVALID_BLOCK;
 *   - return value is 0, ISAL_END_INPUT or ISAL_INVALID_BLOCK;
 *   - return 0  ==>  the symbols consumed expand, by the RFC rules, to exactly (HLIT+257)+(HDIST+1) code
 *     lengths, and the length at EVERY position of that concatenated sequence (ghost position) is what the
 *     table builders received: positions < HLIT+257 in the lit/len array, the others in the distance array
 *     at index g-(HLIT+257), regardless of where a repeat run started (16: copy of the length before the
 *     run, 3..6 times; 17: 3..10 zeros; 18: 11..138 zeros); entries beyond HLIT+257 / HDIST+1 are 0; the
 *     histograms handed over (lit_count[c], dist_count[c], ghost c in 1..15) count exactly those lengths;
 *     the extra-bit reads ask for 2 / 3 / 7 bits;
 *   - a run that passes the end, symbol 16 with no previous length, a symbol > 18, or a zero length for the
 *     end-of-block symbol 256  ==>  ISAL_INVALID_BLOCK (when input did not run out first);
 *   - completeness: a valid sequence with enough input whose tables the builders accept  ==>  return 0 and
 *     block_state == ISAL_BLOCK_CODED.
 * The reference expansion is a plain C loop over the symbols in the harness (bounded harness).
 *
 * Callees:
 *   decode_next_header          ASSUMED abstract: returns the next symbol of the ghost sequence DH.sym[],
 *                               arbitrary bit accounting (may signal out-of-input by read_in_length < 0)
 *   inflate_in_read_bits        clauses proved by dl_inflate_in_read_bits (contracts/stubs_decode.h) plus the
 *                               ghost tie "returns DH.ext[k]" (DH.ext is arbitrary, so every value is covered)
 *   inflate_in_load             clauses proved by dl_inflate_in_load, plus recording of the buffer after the
 *                               call (the HLIT/HDIST/HCLEN fields are read from it)
 *   set_codes, set_and_expand_lit_len_huffcode, make_inflate_huff_code_{header,dist,lit_len}
 *                               ASSUMED abstract: arbitrary result / arbitrary tables written; they RECORD the
 *                               code length at a ghost index and the count at a ghost length of what they get.
 *                               set_codes' real frame (only .code fields) is w-inflate's set_codes contract. */
#ifndef IGZIP_DYNHDR_H
#define IGZIP_DYNHDR_H
#include "verif_common.h"
#include "igzip_lib.h"
#include "huff_codes.h"

#ifndef DH_K
#define DH_K 8 /* bound on the number of code-length symbols */
#endif

struct dh_ghost {
        /* inputs chosen by the environment */
        uint16_t sym[DH_K + 1]; /* symbol returned by the k-th decode_next_header (the DH_K+1-th call finds the input exhausted) */
        uint8_t ext[DH_K + 1];  /* extra-bit value read after the k-th symbol (16/17/18) */
        /* bookkeeping of the stubs */
        uint32_t k;            /* number of decode_next_header calls so far */
        uint8_t rbn[DH_K + 1]; /* bit_count of the extra-bit read after symbol k */
        uint8_t rb_called[DH_K + 1];
        int neg;               /* some stub left read_in_length < 0 (out of input) */
        uint32_t ld_n;         /* inflate_in_load calls */
        uint64_t ld_read_in;   /* bit buffer after the first load */
        int32_t ld_len;
        uint32_t sc_n;         /* set_codes calls: 0 = code-length code, 1 = distance code */
        int sc_ret[2];
        int sc_tl[2];
        uint8_t sc_len[2];  /* table[g_di].length seen by that call */
        uint16_t sc_cnt[2]; /* count[g_c] seen by that call */
        int hdr_called, dist_called, lit_called, exp_called;
        int exp_ret;
        uint8_t exp_len;   /* lit/len table[g_li].length handed to set_and_expand_lit_len_huffcode */
        uint8_t exp_len256;
        uint16_t exp_cnt;  /* lit_count[g_c] handed over */
        uint8_t dist_len;  /* distance table[g_di].length handed to make_inflate_huff_code_dist */
        uint16_t dist_cnt; /* dist_count[g_c] */
        uint32_t dist_tl, dist_max;
};
extern struct dh_ghost DH;
extern uint32_t g_li; /* ghost index into the lit/len lengths, 0..285 */
extern uint32_t g_di; /* ghost index into the distance lengths, 0..29 */
extern uint32_t g_c;  /* ghost code length, 1..15 */

/* ---- abstract callees -------------------------------------------------------------------------
 * The callees are replaced through the splicer's E_<fn> entry hooks: the hook returns the result of a
 * stub written in plain C (defined in the harness before the source is included), so the original body is
 * dead code.  No dfcc contract replacement is used: with --replace-call-with-contract the dfcc write-set
 * bookkeeping of eight replaced callees in an unwound loop made even DH_K = 4 take minutes. */
uint16_t dh_decode_next_header(struct inflate_state *state);
uint64_t dh_inflate_in_read_bits(struct inflate_state *state, uint8_t bit_count);
void dh_inflate_in_load(struct inflate_state *state);
int dh_set_codes(struct huff_code *huff_code_table, int table_length, uint16_t *count);
void dh_make_header(struct inflate_huff_code_small *result);
void dh_make_dist(struct inflate_huff_code_small *result, struct huff_code *huff_code_table, uint32_t table_length, uint16_t *count,
                  uint32_t max_symbol);
int dh_set_and_expand(struct huff_code *lit_len_huff, uint32_t table_length, uint16_t *count);
void dh_make_lit_len(struct inflate_huff_code_large *result);

#define E_decode_next_header return dh_decode_next_header(state);
#define E_inflate_in_read_bits return dh_inflate_in_read_bits(state, bit_count);
#define E_inflate_in_load                                                                          \
        {                                                                                          \
                dh_inflate_in_load(state);                                                         \
                return;                                                                            \
        }
#define E_set_codes return dh_set_codes(huff_code_table, table_length, count);
#define E_make_inflate_huff_code_header                                                            \
        {                                                                                          \
                dh_make_header(result);                                                            \
                return;                                                                            \
        }
#define E_make_inflate_huff_code_dist                                                              \
        {                                                                                          \
                dh_make_dist(result, huff_code_table, table_length, count, max_symbol);            \
                return;                                                                            \
        }
#define E_set_and_expand_lit_len_huffcode return dh_set_and_expand(lit_len_huff, table_length, count);
#define E_make_inflate_huff_code_lit_len                                                           \
        {                                                                                          \
                dh_make_lit_len(result);                                                           \
                return;                                                                            \
        }

/* setup_dynamic_header itself carries no dfcc contract: the bounded harness calls it and asserts the statement;
 * the frame is asserted for the scalar fields of inflate_state by snapshot comparison. */

#endif
