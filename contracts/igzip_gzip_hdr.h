/* Contract for isal_write_gzip_header (igzip/igzip.c), property C19, from RFC 1952 section 2.3:
 *
 *   +---+---+---+---+---+---+---+---+---+---+
 *   |ID1|ID2|CM |FLG|     MTIME     |XFL|OS |      ID1=0x1f ID2=0x8b CM=8, MTIME least-significant byte first
 *   +---+---+---+---+---+---+---+---+---+---+
 *   FLG: bit0 FTEXT, bit1 FHCRC, bit2 FEXTRA, bit3 FNAME, bit4 FCOMMENT, bits 5..7 reserved (zero)
 *   if FEXTRA:   XLEN (2 bytes, LSB first), XLEN bytes of extra field
 *   if FNAME:    file name, zero-terminated
 *   if FCOMMENT: comment, zero-terminated
 *   if FHCRC:    CRC16 = two least-significant bytes of the CRC-32 of all header bytes before it, LSB first
 *
 * Ghosts.  w_len_a / w_len_b: what strnlen (ASSUMED, stubs_libc.h) returned for name / comment; together
 * with the stub's clauses (s[r]==0, no NUL before r at the arbitrary index g_sn==g_i) and the
 * precondition "some NUL lies inside the buffer" they are the lengths of the C strings.
 * g_i: arbitrary byte index inside a variable-length field; g_o: arbitrary byte index in the output buffer.
 * w_crc_*: arguments/result of the one crc32_gzip_refl call (ASSUMED, stubs_libc.h).
 *
 * Preconditions beyond "valid pointers":  extra_len <= 65535 (XLEN is a 16-bit field; the struct
 * member is 32 bits wide and the code stores its low 16 bits), name/comment contain a NUL inside
 * name_buf_len/comment_buf_len (otherwise the code emits an unterminated field), and the header size
 * fits in 32 bits (it is returned as uint32_t): each string is shorter than GZ_STR_MAX (2 GiB - 1 MiB).
 * The writer reads exactly extra_len bytes of extra (extra_buf_len is a reader-side field). */
#ifndef IGZIP_GZIP_HDR_H
#define IGZIP_GZIP_HDR_H
#include "verif_common.h"
#include "stubs_libc.h"

extern size_t g_i, g_o;     /* ghost byte indices */
extern uint32_t g_nz, g_cz; /* position of some NUL in name / comment */
extern uint8_t w_old_byte;
extern uint32_t w_text, w_time, w_xflags, w_os, w_extra_len, w_has_extra, w_has_name, w_has_comment,
        w_hcrc, w_avail_out, w_name_buf_len, w_comment_buf_len;

#define GZ_STR_MAX 0x7ff00000u

/* The sizes/offsets are written over the entry snapshots w_* taken by the E_ hook (plain copies of
 * the gz_hdr fields; gz_hdr is not assignable, so they equal the fields in the post-state too).
 * bytes of a string plus its NUL (the NUL is inside the buffer by precondition: r <= g_nz < buf_len) */
#define GZ_STRSZ(r, buf_len) ((uint32_t) (r) + ((uint32_t) (r) < (buf_len) ? 1u : 0u))
#define GZ_EXTRA_SZ (w_has_extra ? 2u + w_extra_len : 0u)
#define GZ_NAME_SZ  (w_has_name ? GZ_STRSZ(w_len_a, w_name_buf_len) : 0u)
#define GZ_COMM_SZ  (w_has_comment ? GZ_STRSZ(w_len_b, w_comment_buf_len) : 0u)
#define GZ_NAME_OFF (10u + GZ_EXTRA_SZ)
#define GZ_COMM_OFF (GZ_NAME_OFF + GZ_NAME_SZ)
#define GZ_CRC_OFF  (GZ_COMM_OFF + GZ_COMM_SZ)
#define GZ_NEED     (GZ_CRC_OFF + (w_hcrc ? 2u : 0u))
#define GZ_FLG                                                                                     \
        ((w_text ? 1 : 0) | (w_hcrc ? 2 : 0) | (w_has_extra ? 4 : 0) | (w_has_name ? 8 : 0) |      \
         (w_has_comment ? 16 : 0))
#define GZ_OUT   __CPROVER_old(stream->next_out)
#define GZ_AVAIL w_avail_out
#define GZ_FITS  (GZ_AVAIL >= GZ_NEED)
#define GZ_OLD_BYTE w_old_byte /* next_out[g_o] at entry, snapshot in E_ */

#define C_isal_write_gzip_header                                                                   \
        __CPROVER_requires(__CPROVER_is_fresh(stream, sizeof(*stream)))                            \
        __CPROVER_requires(__CPROVER_is_fresh(gz_hdr, sizeof(*gz_hdr)))                            \
        __CPROVER_requires(__CPROVER_is_fresh(stream->next_out, stream->avail_out))                \
        __CPROVER_requires(gz_hdr->extra == NULL ||                                                \
                           (gz_hdr->extra_len <= 65535 &&                                          \
                            __CPROVER_is_fresh(gz_hdr->extra, gz_hdr->extra_len)))                 \
        __CPROVER_requires(gz_hdr->name == NULL ||                                                 \
                           (__CPROVER_is_fresh(gz_hdr->name, gz_hdr->name_buf_len) &&              \
                            g_nz < gz_hdr->name_buf_len && gz_hdr->name[g_nz] == 0))               \
        __CPROVER_requires(gz_hdr->comment == NULL ||                                              \
                           (__CPROVER_is_fresh(gz_hdr->comment, gz_hdr->comment_buf_len) &&        \
                            g_cz < gz_hdr->comment_buf_len && gz_hdr->comment[g_cz] == 0))         \
        __CPROVER_requires(g_nz <= GZ_STR_MAX && g_cz <= GZ_STR_MAX)                               \
        __CPROVER_requires(g_sn == g_i && g_sn1 == g_nz && g_sn2 == g_cz)                          \
        __CPROVER_assigns(stream->next_out, stream->avail_out, stream->total_out,                  \
                          __CPROVER_object_whole(stream->next_out))                                \
        __CPROVER_assigns(w_len_a, w_len_b, w_crc_seed, w_crc_ret, w_crc_buf, w_crc_len,           \
                          w_crc_calls, g_str_a, g_str_b)                                           \
        __CPROVER_assigns(w_text, w_time, w_xflags, w_os, w_extra_len, w_has_extra, w_has_name,    \
                          w_has_comment, w_hcrc, w_avail_out, w_name_buf_len, w_comment_buf_len,   \
                          w_old_byte)                                                              \
        /* the recorded lengths are those of the C strings: NUL at r, r not beyond any NUL */      \
        __CPROVER_ensures(w_has_name ==>                                                           \
                          (w_len_a <= g_nz && gz_hdr->name[w_len_a] == 0 &&                        \
                           (g_i < w_len_a ==> gz_hdr->name[g_i] != 0)))                            \
        __CPROVER_ensures(w_has_comment ==>                                                        \
                          (w_len_b <= g_cz && gz_hdr->comment[w_len_b] == 0 &&                     \
                           (g_i < w_len_b ==> gz_hdr->comment[g_i] != 0)))                         \
        /* too small: report the size needed, touch nothing */                                     \
        __CPROVER_ensures(!GZ_FITS ==> (__CPROVER_return_value == GZ_NEED &&                       \
                                        stream->next_out == GZ_OUT &&                              \
                                        stream->avail_out == GZ_AVAIL &&                           \
                                        stream->total_out == __CPROVER_old(stream->total_out)))    \
        __CPROVER_ensures((!GZ_FITS && g_o < GZ_AVAIL) ==> GZ_OUT[g_o] == GZ_OLD_BYTE)             \
        /* enough space: counters advance by exactly the header size */                            \
        __CPROVER_ensures(GZ_FITS ==> __CPROVER_return_value == 0)                                 \
        __CPROVER_ensures(GZ_FITS ==> stream->next_out == GZ_OUT + GZ_NEED)                        \
        __CPROVER_ensures(GZ_FITS ==> stream->avail_out == GZ_AVAIL - GZ_NEED)                     \
        __CPROVER_ensures(GZ_FITS ==>                                                              \
                          stream->total_out - __CPROVER_old(stream->total_out) == GZ_NEED)         \
        /* nothing beyond the header is written */                                                 \
        __CPROVER_ensures((GZ_FITS && GZ_NEED <= g_o && g_o < GZ_AVAIL) ==>                        \
                          GZ_OUT[g_o] == GZ_OLD_BYTE)                                              \
        /* fixed part */                                                                           \
        __CPROVER_ensures(GZ_FITS ==>                                                              \
                          (GZ_OUT[0] == 0x1f && GZ_OUT[1] == 0x8b && GZ_OUT[2] == 8 &&             \
                           GZ_OUT[3] == GZ_FLG))                                                   \
        __CPROVER_ensures(GZ_FITS ==> (GZ_OUT[4] == (uint8_t) (w_time) &&                          \
                                       GZ_OUT[5] == (uint8_t) (w_time >> 8) &&                     \
                                       GZ_OUT[6] == (uint8_t) (w_time >> 16) &&                    \
                                       GZ_OUT[7] == (uint8_t) (w_time >> 24) &&                    \
                                       GZ_OUT[8] == (uint8_t) w_xflags &&                          \
                                       GZ_OUT[9] == (uint8_t) w_os))                               \
        /* FEXTRA */                                                                               \
        __CPROVER_ensures((GZ_FITS && w_has_extra) ==>                                             \
                          (GZ_OUT[10] == (uint8_t) (w_extra_len) &&                                \
                           GZ_OUT[11] == (uint8_t) (w_extra_len >> 8)))                            \
        __CPROVER_ensures((GZ_FITS && w_has_extra && g_i < w_extra_len) ==>                        \
                          GZ_OUT[12 + g_i] == gz_hdr->extra[g_i])                                  \
        /* FNAME, FCOMMENT: the string including its NUL */                                        \
        __CPROVER_ensures((GZ_FITS && w_has_name && g_i <= w_len_a) ==>                           \
                          GZ_OUT[GZ_NAME_OFF + g_i] == (uint8_t) gz_hdr->name[g_i])                \
        __CPROVER_ensures((GZ_FITS && w_has_comment && g_i <= w_len_b) ==>                        \
                          GZ_OUT[GZ_COMM_OFF + g_i] == (uint8_t) gz_hdr->comment[g_i])             \
        /* FHCRC */                                                                                \
        __CPROVER_ensures((GZ_FITS && w_hcrc) ==>                                                  \
                          (w_crc_calls == __CPROVER_old(w_crc_calls) + 1 && w_crc_seed == 0 &&     \
                           w_crc_buf == GZ_OUT && w_crc_len == GZ_CRC_OFF &&                       \
                           GZ_OUT[GZ_CRC_OFF] == (uint8_t) (w_crc_ret) &&                          \
                           GZ_OUT[GZ_CRC_OFF + 1] == (uint8_t) (w_crc_ret >> 8)))                  \
        /* the snapshots are the fields (gz_hdr itself is outside the frame) */                    \
        __CPROVER_ensures(w_text == gz_hdr->text && w_time == gz_hdr->time &&                      \
                          w_xflags == gz_hdr->xflags && w_os == gz_hdr->os &&                      \
                          w_extra_len == gz_hdr->extra_len && w_hcrc == gz_hdr->hcrc &&            \
                          w_has_extra == (gz_hdr->extra != NULL) &&                                \
                          w_has_name == (gz_hdr->name != NULL) &&                                  \
                          w_has_comment == (gz_hdr->comment != NULL) &&                            \
                          w_name_buf_len == gz_hdr->name_buf_len &&                                \
                          w_comment_buf_len == gz_hdr->comment_buf_len &&                          \
                          w_avail_out == __CPROVER_old(stream->avail_out))

/* witness capture for the native replay + snapshots of the strings for the strnlen stub */
#define E_isal_write_gzip_header                                                                   \
        w_old_byte = g_o < stream->avail_out ? stream->next_out[g_o] : 0;                          \
        g_str_a = gz_hdr->name;                                                                    \
        g_str_b = gz_hdr->comment;                                                                 \
        w_text = gz_hdr->text;                                                                     \
        w_time = gz_hdr->time;                                                                     \
        w_xflags = gz_hdr->xflags;                                                                 \
        w_os = gz_hdr->os;                                                                         \
        w_extra_len = gz_hdr->extra_len;                                                           \
        w_has_extra = gz_hdr->extra != NULL;                                                       \
        w_has_name = gz_hdr->name != NULL;                                                         \
        w_has_comment = gz_hdr->comment != NULL;                                                   \
        w_hcrc = gz_hdr->hcrc;                                                                     \
        w_avail_out = stream->avail_out;                                                           \
        w_name_buf_len = gz_hdr->name_buf_len;                                                     \
        w_comment_buf_len = gz_hdr->comment_buf_len;

#define GZIP_HDR_GHOST_DEFS                                                                        \
        size_t g_i, g_o;                                                                           \
        uint32_t g_nz, g_cz;                                                                       \
        uint8_t w_old_byte;                                                                        \
        uint32_t w_text, w_time, w_xflags, w_os, w_extra_len, w_has_extra, w_has_name,             \
                w_has_comment, w_hcrc, w_avail_out, w_name_buf_len, w_comment_buf_len;
#endif
