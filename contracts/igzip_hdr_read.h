/* Contracts for the wrapper-header readers in igzip/igzip_inflate.c (property C19; also the
 * resumable-helper clauses of C07 and the "arbitrary bytes -> documented status, no out-of-bounds
 * access" clauses of C05/C06):
 *   fixed_size_read, buffer_header_copy, string_header_copy   (static helpers)
 *   isal_read_zlib_header   (RFC 1950)      isal_read_gzip_header   (RFC 1952)
 *
 * Every contract is *per call*: an arbitrary well-formed reader state (what an earlier call may have left
 * behind) and ARBITRARY input bytes.  No E_ hooks are used, so the helper contracts can also stand in
 * for their functions (--replace-call-with-contract).
 *
 * Vocabulary.  IN/A: next_in / avail_in at entry.  T: tmp_in_size at entry = number of bytes of the
 * fixed-size field being read that an earlier call already moved into tmp_in_buffer.  The field bytes
 * of this call are the "virtual input"  V(k) = k < T ? tmp_in_buffer[k] : IN[k - T]  -- that is the
 * resumability statement: carried bytes ++ new bytes = the field, for any split.
 * g_i: arbitrary index inside a variable-length field (so: every index).
 *
 * Well-formedness of the state between two calls (HR_WF_*): the carried count is smaller than the field
 * being read and zero while a variable-length field is being read; the resume offsets lie inside the
 * caller's buffers ("the user can reallocate a LARGER buffer and call again", igzip_lib.h); avail_in
 * bytes are readable at next_in; avail_in <= HR_MAX_AVAIL (see there).  The readers re-establish it
 * whenever they return a resumable status (postcondition), which is the inductive step of "for any
 * chunking"; the induction over calls itself is not mechanised. */
#ifndef IGZIP_HDR_READ_H
#define IGZIP_HDR_READ_H
#include "verif_common.h"
#include "stubs_libc.h"
#include "igzip_lib.h"

extern size_t g_i;

/* memcpy into state->tmp_in_buffer.  CBMC's built-in memcpy turns a copy to a symbolic offset inside the
 * 87 KB struct inflate_state into a byte-level update of the whole struct (the propositional conversion
 * does not finish).  The harness therefore models the two copies in fixed_size_read whose destination is
 * textually `state->tmp_in_buffer + tmp_in_size` as typed byte stores into the array member (HR_MEMCPY_MODEL
 * below; every other memcpy keeps the built-in model).  The model asserts that the destination range lies
 * inside tmp_in_buffer -- a sub-object bound, stronger than the object bound the built-in model checks --
 * and that at most 10 bytes are copied (follows from read_size <= 10).  g_hdr_state is the state pointer,
 * snapshot by assignment in E_fixed_size_read.  If the source text of the call changes the model no longer
 * applies and the harness times out (UNDECIDED), it cannot turn into a wrong verdict. */
extern struct inflate_state *g_hdr_state;
#define E_fixed_size_read                                                                          \
        g_hdr_state = state;                                                                       \
        HR_CUT

/* Cut points for isal_read_gzip_header.  The reader is a chain of up to six helper calls, each doing
 * next_in += d; avail_in -= d.  "next_in + avail_in stays the end of the input" is what every later bounds
 * check needs, and the SAT solver does not find that intermediate fact through six symbolic steps
 * (> 1000 s).  HR_CUT, placed by the E_ hooks at the entry of each helper while it runs inlined in the
 * gzip reader (g_top == 1), first ASSERTS the fact (an obligation like any other) and then restates it
 * with an assumption (LEMMA of verif_common.h) so that the next segment starts from it.  An assumption that immediately follows an
 * assertion of the very same condition adds nothing that is not proved; it is a lemma, not an axiom.
 * g_in0/g_end/g_a0: entry snapshots (by assignment) taken in E_isal_read_gzip_header.  In the helpers'
 * own harnesses and in the zlib reader g_top == 0 (requires) and the cut is skipped. */
extern int g_top;
extern uint8_t *g_in0;
extern uint64_t g_end;
extern uint32_t g_a0;
#define HR_CUT_INV                                                                                 \
        (__CPROVER_same_object(state->next_in, g_in0) && state->avail_in <= g_a0 &&                \
         __CPROVER_POINTER_OFFSET(state->next_in) + state->avail_in == g_end)
#define HR_CUT                                                                                     \
        if (g_top) {                                                                               \
                LEMMA(HR_CUT_INV); /* next_in + avail_in is still the end of the input */          \
        }
#define E_buffer_header_copy HR_CUT
#define E_string_header_copy HR_CUT
#define HR_TOP_ENTRY                                                                               \
        g_top = 1;                                                                                 \
        g_in0 = state->next_in;                                                                    \
        g_a0 = state->avail_in;                                                                    \
        g_end = __CPROVER_POINTER_OFFSET(state->next_in) + state->avail_in;
#define HR_GHOST_DEFS                                                                              \
        int g_top;                                                                                 \
        uint8_t *g_in0;                                                                            \
        uint64_t g_end;                                                                            \
        uint32_t g_a0;
#define HR_VM1(k)                                                                                  \
        if (n > (k))                                                                               \
                g_hdr_state->tmp_in_buffer[off + (k)] = s[k];
#define HR_MEMCPY_MODEL                                                                            \
        struct inflate_state *g_hdr_state;                                                         \
        static inline void *hr_memcpy_tmp(uint8_t *d, const uint8_t *s, size_t n)                  \
        {                                                                                          \
                size_t off = __CPROVER_POINTER_OFFSET(d) -                                         \
                             __builtin_offsetof(struct inflate_state, tmp_in_buffer);              \
                __CPROVER_assert(__CPROVER_same_object(d, g_hdr_state) &&                          \
                                         off <= sizeof(g_hdr_state->tmp_in_buffer) &&              \
                                         n <= sizeof(g_hdr_state->tmp_in_buffer) - off,            \
                                 "memcpy model: destination range inside tmp_in_buffer");          \
                __CPROVER_assert(n <= 10, "memcpy model: at most 10 bytes");                       \
                HR_VM1(0) HR_VM1(1) HR_VM1(2) HR_VM1(3) HR_VM1(4)                                  \
                HR_VM1(5) HR_VM1(6) HR_VM1(7) HR_VM1(8) HR_VM1(9)                                  \
                return d;                                                                          \
        }
#define HR_MEMCPY_DEST_TEXT "state->tmp_in_buffer + tmp_in_size"

/* fixed_size_read computes avail_in + tmp_in_size in 32 bits; with avail_in >= 2^32 - tmp_in_size the sum
 * wraps, the "not enough input" branch is taken and avail_in (~4 GiB) bytes are copied into the 328-byte
 * tmp_in_buffer.  Reported as a finding; the contracts assume it away: */
#ifndef HR_MAX_AVAIL /* -DHR_MAX_AVAIL=0xffffffffu shows the finding: fixed_size_read then FAILS its pointer checks */
#define HR_MAX_AVAIL (0xffffffffu - ISAL_DEF_MAX_HDR_SIZE)
#endif

/* Size bound of the default (quick-tier) instances of the contracts that contain a memcpy of symbolic
 * length (buffer_header_copy, string_header_copy, isal_read_gzip_header): caller buffers and the input chunk
 * are at most HR_SIZE_BOUND bytes.  Not needed for the proof -- the -DHR_UNBOUNDED instances (thorough tier)
 * prove the same contracts for every size up to HR_MAX_AVAIL -- but without it a FAILING obligation makes the
 * verifier print multi-gigabyte arrays into its counterexample trace and run out of memory (verdict
 * UNDECIDED instead of FAILED).  XLEN <= 65535 < HR_SIZE_BOUND. */
#ifdef HR_UNBOUNDED
#define HR_BOUNDED(len)
#else
#define HR_SIZE_BOUND 0x10000u
#define HR_BOUNDED(len) __CPROVER_requires((len) <= HR_SIZE_BOUND && state->avail_in <= HR_SIZE_BOUND)
#endif

#define HR_IN     __CPROVER_old(state->next_in)
#define HR_A      __CPROVER_old(state->avail_in)
#define HR_T      ((uint32_t) __CPROVER_old(state->tmp_in_size))
#define HR_TA     ((uint64_t) HR_T + HR_A) /* bytes of virtual input */
#define HR_TMP(k) __CPROVER_old(state->tmp_in_buffer[k])
#define HR_V(k)   ((k) < HR_T ? HR_TMP(k) : HR_IN[(k) - HR_T])
#define HR_USED   (HR_A - state->avail_in) /* input bytes consumed by this call */
#define HR_IO_OK  (state->avail_in <= HR_A && state->next_in == HR_IN + HR_USED)
/* the same fact as "end of input stays put": next_in + avail_in is invariant.  Stated in this shape in
 * every helper contract it chains by plain equality when the helpers stand in for their bodies. */
#define HR_END_OK                                                                                  \
        (__CPROVER_same_object(state->next_in, HR_IN) &&                                           \
         __CPROVER_POINTER_OFFSET(state->next_in) + state->avail_in ==                             \
                 __CPROVER_POINTER_OFFSET(HR_IN) + HR_A)

#define HR_NOT_TOP __CPROVER_requires(g_top == 0)
#define HR_STATE_FRESH                                                                             \
        __CPROVER_requires(__CPROVER_is_fresh(state, sizeof(*state)))                              \
        __CPROVER_requires(__CPROVER_is_fresh(state->next_in, state->avail_in))

/* ------------------------------------------------------------------ fixed_size_read
 * Collect a field of read_size bytes.  Not all there yet: move what there is behind the carried bytes,
 * consume all input, ISAL_END_INPUT.  Otherwise *read_buf points at read_size contiguous bytes that
 * are V(0..read_size), the input advances by the missing part only, nothing stays carried. */
#define FS_N ((uint32_t) read_size)
/* byte k of the field *read_buf points at (written over the two possible targets of *read_buf, see the
 * pointer clause, rather than through *read_buf: a typed access the verifier handles cheaply) */
#define FS_BYTE(k)                                                                                 \
        __CPROVER_ensures((HR_TA >= FS_N && (k) < FS_N) ==>                                        \
                          (HR_T ? state->tmp_in_buffer[k] : HR_IN[k]) == HR_V(k))
#define FS_CARRY(k)                                                                                \
        __CPROVER_ensures((HR_TA < FS_N && (k) < HR_TA) ==> state->tmp_in_buffer[k] == HR_V(k))
#define C_fixed_size_read                                                                          \
        HR_NOT_TOP                                                                                 \
        HR_STATE_FRESH                                                                             \
        __CPROVER_requires(__CPROVER_is_fresh(read_buf, sizeof(*read_buf)))                        \
        __CPROVER_requires(1 <= read_size && read_size <= 10)                                      \
        __CPROVER_requires(0 <= state->tmp_in_size && state->tmp_in_size < read_size)              \
        __CPROVER_requires(state->avail_in <= HR_MAX_AVAIL)                                        \
        __CPROVER_assigns(state->next_in, state->avail_in, state->tmp_in_size, *read_buf,         \
                          g_hdr_state)                                                             \
        /* only the part of tmp_in_buffer behind the carried bytes, and never beyond the field */  \
        __CPROVER_assigns(__CPROVER_object_upto(state->tmp_in_buffer + state->tmp_in_size,         \
                                                read_size - state->tmp_in_size))                   \
        __CPROVER_ensures(HR_TA < FS_N ==>                                                         \
                          (__CPROVER_return_value == ISAL_END_INPUT && state->avail_in == 0 &&     \
                           state->next_in == HR_IN + HR_A && state->tmp_in_size == HR_T + HR_A &&  \
                           *read_buf == __CPROVER_old(*read_buf)))                                 \
        FS_CARRY(0) FS_CARRY(1) FS_CARRY(2) FS_CARRY(3) FS_CARRY(4)                                \
        FS_CARRY(5) FS_CARRY(6) FS_CARRY(7) FS_CARRY(8)                                            \
        __CPROVER_ensures(HR_TA >= FS_N ==>                                                        \
                          (__CPROVER_return_value == 0 && state->tmp_in_size == 0 &&               \
                           state->next_in == HR_IN + (FS_N - HR_T) &&                              \
                           state->avail_in == HR_A - (FS_N - HR_T) &&                              \
                           *read_buf == (HR_T ? state->tmp_in_buffer : HR_IN)))                    \
        FS_BYTE(0) FS_BYTE(1) FS_BYTE(2) FS_BYTE(3) FS_BYTE(4)                                     \
        FS_BYTE(5) FS_BYTE(6) FS_BYTE(7) FS_BYTE(8) FS_BYTE(9)                                     \
        __CPROVER_ensures(HR_END_OK)

/* ------------------------------------------------------------------ buffer_header_copy
 * Move up to in_len bytes (what is left of the FEXTRA field) from the input to buf[offset..buffer_len);
 * buf == NULL: skip them.  count := bytes of the field still to come.  The frame is exactly the bytes
 * copied. */
#define BH_LEN  (in_len < HR_A ? in_len : HR_A)
#define BH_ROOM (buffer_len - offset)
#define BH_OVF  (buf != NULL && BH_ROOM < BH_LEN)
#define BH_N    (BH_OVF ? BH_ROOM : BH_LEN) /* bytes consumed */
/* the same case split over the entry values, for the assigns clause (no ternaries allowed there) */
#define BH_P_IN_SHORT (in_len < state->avail_in)
#define BH_P_OVF                                                                                   \
        ((BH_P_IN_SHORT && buffer_len - offset < in_len) ||                                        \
         (!BH_P_IN_SHORT && buffer_len - offset < state->avail_in))
#define C_buffer_header_copy                                                                       \
        HR_NOT_TOP                                                                                 \
        HR_STATE_FRESH                                                                             \
        __CPROVER_requires(buf == NULL ||                                                          \
                           (__CPROVER_is_fresh(buf, buffer_len) && offset <= buffer_len))          \
        __CPROVER_requires(in_len <= 0x7fffffff)                                                   \
        HR_BOUNDED(buffer_len)                                                                     \
        __CPROVER_assigns(state->next_in, state->avail_in, state->count)                           \
        __CPROVER_assigns(buf != NULL && BH_P_OVF                                                  \
                          : __CPROVER_object_upto(buf + offset, buffer_len - offset);              \
                          buf != NULL && !BH_P_OVF && BH_P_IN_SHORT                                \
                          : __CPROVER_object_upto(buf + offset, in_len);                           \
                          buf != NULL && !BH_P_OVF && !BH_P_IN_SHORT                               \
                          : __CPROVER_object_upto(buf + offset, state->avail_in))                  \
        __CPROVER_ensures(state->next_in == HR_IN + BH_N && state->avail_in == HR_A - BH_N &&      \
                          state->count == (int32_t) (in_len - BH_N))                               \
        __CPROVER_ensures(__CPROVER_return_value ==                                                \
                          (BH_OVF ? buf_error : (BH_LEN == in_len ? 0 : ISAL_END_INPUT)))          \
        __CPROVER_ensures((buf != NULL && g_i < BH_N) ==> buf[offset + g_i] == HR_IN[g_i])         \
        __CPROVER_ensures(HR_END_OK && state->avail_in <= HR_A)

/* ------------------------------------------------------------------ string_header_copy
 * Move bytes of a NUL-terminated field (FNAME/FCOMMENT) to str_buf[offset..str_len); str_buf == NULL:
 * skip them.  L = string bytes taken by this call (none of them NUL).  Three outcomes:
 *   0              the NUL was found and consumed too (and stored), count := 0
 *   ISAL_END_INPUT input exhausted inside the string, count := offset + L (resume offset)
 *   str_error      str_buf is full (L == room) -- no byte beyond str_buf[str_len) is ever written
 * strnlen is the ASSUMED stub (stubs_libc.h). */
#define SH_L    (HR_USED - (__CPROVER_return_value == 0 ? 1u : 0u))
#define SH_ROOM (str_len - offset)
#define C_string_header_copy                                                                       \
        HR_NOT_TOP                                                                                 \
        HR_STATE_FRESH                                                                             \
        __CPROVER_requires(str_buf == NULL ||                                                      \
                           (__CPROVER_is_fresh(str_buf, str_len) && offset <= str_len))            \
        __CPROVER_requires((uint32_t) state->count == offset)                                      \
        __CPROVER_requires(str_error != 0 && str_error != ISAL_END_INPUT)                          \
        HR_BOUNDED(str_len)                                                                        \
        __CPROVER_requires(g_sn == g_i)                                                            \
        __CPROVER_assigns(state->next_in, state->avail_in, state->count, w_len_a, w_len_b)         \
        __CPROVER_assigns(str_buf != NULL                                                          \
                          : __CPROVER_object_upto(str_buf + offset, str_len - offset))             \
        __CPROVER_ensures(HR_IO_OK)                                                                \
        __CPROVER_ensures(__CPROVER_return_value == 0 ||                                           \
                          __CPROVER_return_value == ISAL_END_INPUT ||                              \
                          (str_buf != NULL && __CPROVER_return_value == str_error))                \
        __CPROVER_ensures(__CPROVER_return_value == 0 ==> HR_USED >= 1)                            \
        __CPROVER_ensures(g_i < SH_L ==> HR_IN[g_i] != 0)                                          \
        __CPROVER_ensures((str_buf != NULL && g_i < SH_L) ==>                                      \
                          (SH_L <= SH_ROOM && str_buf[offset + g_i] == (char) HR_IN[g_i]))         \
        __CPROVER_ensures(__CPROVER_return_value == 0 ==>                                          \
                          (HR_IN[SH_L] == 0 && state->count == 0 &&                                \
                           (str_buf != NULL ==> (SH_L < SH_ROOM && str_buf[offset + SH_L] == 0)))) \
        __CPROVER_ensures(__CPROVER_return_value == ISAL_END_INPUT ==>                             \
                          (state->avail_in == 0 && (uint32_t) state->count == offset + SH_L &&     \
                           (str_buf != NULL ==> SH_L < SH_ROOM)))                                  \
        __CPROVER_ensures((str_buf != NULL && __CPROVER_return_value == str_error) ==>             \
                          (SH_L == SH_ROOM && (uint32_t) state->count == str_len))                 \
        __CPROVER_ensures(HR_END_OK)

/* ------------------------------------------------------------------ isal_read_zlib_header (RFC 1950)
 *   CMF: bits 0-3 CM (8 = deflate), bits 4-7 CINFO;  FLG: bits 0-4 FCHECK, bit 5 FDICT, bits 6-7 FLEVEL;
 *   (CMF*256 + FLG) % 31 == 0;  FDICT: DICTID follows, most-significant byte first.
 * Documented statuses (igzip_lib.h): ISAL_DECOMP_OK, ISAL_END_INPUT, ISAL_UNSUPPORTED_METHOD,
 * ISAL_INCORRECT_CHECKSUM.  Entry states: a fresh header (ISAL_BLOCK_NEW_HDR, < 2 bytes carried) or the
 * DICTID being read (ISAL_ZLIB_DICT, < 4 bytes carried). */
#define ZR_NEW      (__CPROVER_old(state->block_state) == ISAL_BLOCK_NEW_HDR)
#define ZR_HAVE2    (ZR_NEW && HR_TA >= 2)
#define ZR_CMF      HR_V(0)
#define ZR_FLG      HR_V(1)
#define ZR_METHOD_OK ((ZR_CMF & 15) == 8)
#define ZR_CHECK_OK ((ZR_CMF * 256 + ZR_FLG) % 31 == 0)
#define ZR_HDR_OK   (ZR_HAVE2 && ZR_METHOD_OK && ZR_CHECK_OK)
#define ZR_FDICT    ((ZR_FLG >> 5) & 1)
#define ZR_DOFF     (ZR_NEW ? 2u : 0u) /* position of DICTID in the virtual input */
#define ZR_WANT_DICT (ZR_NEW ? (ZR_HDR_OK && ZR_FDICT) : 1)
#define ZR_HAVE_DICT (ZR_WANT_DICT && HR_TA >= ZR_DOFF + 4)
#define ZR_D(k)     ((uint32_t) (ZR_NEW ? HR_IN[2 + (k) - HR_T] : HR_V(k)))
#define HR_WF_ZLIB                                                                                 \
        ((state->block_state == ISAL_BLOCK_NEW_HDR && 0 <= state->tmp_in_size &&                   \
          state->tmp_in_size < 2) ||                                                               \
         (state->block_state == ISAL_ZLIB_DICT && 0 <= state->tmp_in_size &&                       \
          state->tmp_in_size < 4))
#define C_isal_read_zlib_header                                                                    \
        HR_NOT_TOP                                                                                 \
        HR_STATE_FRESH                                                                             \
        __CPROVER_requires(__CPROVER_is_fresh(zlib_hdr, sizeof(*zlib_hdr)))                        \
        __CPROVER_requires(HR_WF_ZLIB && state->avail_in <= HR_MAX_AVAIL)                          \
        __CPROVER_assigns(state->next_in, state->avail_in, state->tmp_in_size, state->block_state, \
                          state->wrapper_flag, g_hdr_state, state->tmp_in_buffer[0],               \
                          state->tmp_in_buffer[1], state->tmp_in_buffer[2],                        \
                          state->tmp_in_buffer[3])                                                 \
        __CPROVER_assigns(zlib_hdr->info, zlib_hdr->level, zlib_hdr->dict_flag, zlib_hdr->dict_id) \
        __CPROVER_ensures(HR_IO_OK)                                                                \
        /* documented statuses, each with its exact condition on the bytes */                      \
        __CPROVER_ensures(__CPROVER_return_value ==                                                \
                          ((ZR_NEW && HR_TA < 2)            ? ISAL_END_INPUT                       \
                           : (ZR_NEW && !ZR_METHOD_OK)      ? ISAL_UNSUPPORTED_METHOD              \
                           : (ZR_NEW && !ZR_CHECK_OK)       ? ISAL_INCORRECT_CHECKSUM              \
                           : (ZR_WANT_DICT && !ZR_HAVE_DICT) ? ISAL_END_INPUT                      \
                                                            : ISAL_DECOMP_OK))                     \
        /* field decoding */                                                                       \
        __CPROVER_ensures(ZR_HAVE2 ==> (zlib_hdr->info == (uint32_t) (ZR_CMF >> 4) &&              \
                                        zlib_hdr->level == (uint32_t) (ZR_FLG >> 6) &&             \
                                        zlib_hdr->dict_flag == (uint32_t) ZR_FDICT))               \
        __CPROVER_ensures(ZR_HAVE_DICT ==>                                                         \
                          zlib_hdr->dict_id ==                                                     \
                                  ((ZR_D(0) << 24) | (ZR_D(1) << 16) | (ZR_D(2) << 8) | ZR_D(3)))  \
        /* success: stops exactly behind the header */                                             \
        __CPROVER_ensures(__CPROVER_return_value == ISAL_DECOMP_OK ==>                             \
                          (state->wrapper_flag == 1 && state->tmp_in_size == 0 &&                  \
                           state->block_state == ISAL_BLOCK_NEW_HDR &&                             \
                           HR_USED == ZR_DOFF + (ZR_WANT_DICT ? 4u : 0u) - HR_T))                  \
        /* out of input: everything consumed and carried, state well-formed for the next call */   \
        __CPROVER_ensures(__CPROVER_return_value == ISAL_END_INPUT ==>                             \
                          (state->avail_in == 0 && HR_WF_ZLIB &&                                   \
                           state->block_state ==                                                   \
                                   (ZR_WANT_DICT ? ISAL_ZLIB_DICT : ISAL_BLOCK_NEW_HDR) &&         \
                           state->tmp_in_size == HR_TA - (ZR_HAVE2 ? 2 : 0)))                      \
        ZR_CARRY(0) ZR_CARRY(1) ZR_CARRY(2)
#define ZR_CARRY(k)                                                                                \
        __CPROVER_ensures((__CPROVER_return_value == ISAL_END_INPUT && state->tmp_in_size > (k)) ==> \
                          state->tmp_in_buffer[k] ==                                               \
                                  (ZR_HAVE2 ? HR_IN[2 + (k) - HR_T] : HR_V(k)))

/* ------------------------------------------------------------------ isal_read_gzip_header (RFC 1952)
 *   ID1 0x1f, ID2 0x8b, CM 8, FLG (bit0 FTEXT, bit1 FHCRC, bit2 FEXTRA, bit3 FNAME, bit4 FCOMMENT),
 *   MTIME (4 bytes LSB first), XFL, OS, [XLEN (2 bytes LSB first) + XLEN bytes], [name NUL], [comment NUL],
 *   [CRC16 LSB first = low 16 bits of the CRC-32 of everything before it].
 * Documented statuses (igzip_lib.h): ISAL_DECOMP_OK, ISAL_END_INPUT, ISAL_NAME_OVERFLOW,
 * ISAL_COMMENT_OVERFLOW, ISAL_EXTRA_OVERFLOW, ISAL_INVALID_WRAPPER, ISAL_UNSUPPORTED_METHOD,
 * ISAL_INCORRECT_CHECKSUM.
 * Entry states: a fresh header or any of the five resume points.  The contract is per call; it states
 *  - status in the documented set; input accounting; frame = the three caller buffers, the decoded
 *    fields, the reader's own state (pointer checks: nothing outside is read or written)
 *  - the fixed part and XLEN decoded in the RFC's byte order from the virtual input, the ID/CM checks
 *  - the CRC16 comparison against the recorded crc32_gzip_refl result
 *  - resumable progress inside extra/name/comment: bytes land at the resume offset, count tracks it
 *  - every resumable status leaves a well-formed state (HR_WF_GZIP) again
 *  - success: wrapper_flag set, state back to ISAL_BLOCK_NEW_HDR, nothing carried; with no optional
 *    field exactly 10 bytes (minus the carried ones) are consumed. */
#define GR_BS      __CPROVER_old(state->block_state)
#define GR_NEW     (GR_BS == ISAL_BLOCK_NEW_HDR)
#define GR_CNT     ((uint32_t) __CPROVER_old(state->count))
#define GR_XLEN0   __CPROVER_old(gz_hdr->extra_len)
#define GR_HCRC0   __CPROVER_old(gz_hdr->hcrc)
#define GR_RET     __CPROVER_return_value
#define GR_HAVE10  (GR_NEW && HR_TA >= 10)
#define GR_ID_OK   (HR_V(0) == 0x1f && HR_V(1) == 0x8b)
#define GR_CM_OK   (HR_V(2) == 8)
#define GR_VALID   (GR_HAVE10 && GR_ID_OK && GR_CM_OK)
#define GR_FLG     HR_V(3)
#define GR_LE16(a, b) ((uint32_t) (a) | ((uint32_t) (b) << 8))
#define GR_RESUMABLE                                                                               \
        (GR_RET == ISAL_END_INPUT || GR_RET == ISAL_NAME_OVERFLOW ||                               \
         GR_RET == ISAL_COMMENT_OVERFLOW || GR_RET == ISAL_EXTRA_OVERFLOW)
#define HR_WF_GZIP                                                                                 \
        ((state->block_state == ISAL_BLOCK_NEW_HDR && 0 <= state->tmp_in_size &&                   \
          state->tmp_in_size < 10) ||                                                              \
         ((state->block_state == ISAL_GZIP_EXTRA_LEN || state->block_state == ISAL_GZIP_HCRC) &&   \
          0 <= state->tmp_in_size && state->tmp_in_size < 2) ||                                    \
         (state->block_state == ISAL_GZIP_EXTRA && state->tmp_in_size == 0 && 0 <= state->count && \
          (uint32_t) state->count <= gz_hdr->extra_len && gz_hdr->extra_len <= 65535 &&            \
          (gz_hdr->extra != NULL ==>                                                               \
           gz_hdr->extra_len - (uint32_t) state->count <= gz_hdr->extra_buf_len)) ||               \
         (state->block_state == ISAL_GZIP_NAME && state->tmp_in_size == 0 &&                       \
          (gz_hdr->name != NULL ==> (uint32_t) state->count <= gz_hdr->name_buf_len)) ||           \
         (state->block_state == ISAL_GZIP_COMMENT && state->tmp_in_size == 0 &&                    \
          (gz_hdr->comment != NULL ==> (uint32_t) state->count <= gz_hdr->comment_buf_len)))
#define GR_CARRY(k)                                                                                \
        __CPROVER_ensures((HR_TA < (GR_NEW ? 10 : 2) && (k) < HR_TA &&                             \
                           (GR_NEW || GR_BS == ISAL_GZIP_EXTRA_LEN || GR_BS == ISAL_GZIP_HCRC)) ==> \
                          state->tmp_in_buffer[k] == HR_V(k))
/* Case split on the number of carried bytes (harness instances -DHR_FIX_T=0..9): the requires fixes T and
 * the E_ hook re-assigns that very value, which lets the symbolic executor propagate the constant (it
 * then knows whether the fixed-size field is read from the input or from tmp_in_buffer; with T symbolic
 * every header byte is a read at a symbolic offset of the 87 KB state struct and the harness needs
 * gigabytes).  The union of the instances is the contract for every T the well-formedness allows. */
#ifdef HR_FIX_T
#define GR_FIX_T_REQ __CPROVER_requires(state->tmp_in_size == HR_FIX_T)
#define GR_FIX_T_SET state->tmp_in_size = HR_FIX_T;
#else
#define GR_FIX_T_REQ
#define GR_FIX_T_SET
#endif
/* the same device for the entry point (-DHR_FIX_BS=ISAL_GZIP_NAME ...): only the code behind that resume
 * label is explored */
/* ... and for the size of the input chunk (-DHR_FIX_AIN=n): with T and avail_in both fixed below the field size
 * only the "not all there yet" path of the first fixed_size_read is explored -- a cheap instance for what a
 * resumed NEW_HDR call does with the carried bytes and the running header CRC */
#ifdef HR_FIX_AIN
#define GR_FIX_AIN_REQ __CPROVER_requires(state->avail_in == HR_FIX_AIN)
#define GR_FIX_AIN_SET state->avail_in = HR_FIX_AIN;
#else
#define GR_FIX_AIN_REQ
#define GR_FIX_AIN_SET
#endif
#ifdef HR_FIX_BS
#define GR_FIX_BS_REQ __CPROVER_requires(state->block_state == HR_FIX_BS)
#define GR_FIX_BS_SET state->block_state = HR_FIX_BS;
#else
#define GR_FIX_BS_REQ
#define GR_FIX_BS_SET
#endif
#define E_isal_read_gzip_header                                                                    \
        GR_FIX_T_SET                                                                               \
        GR_FIX_AIN_SET                                                                             \
        GR_FIX_BS_SET                                                                              \
        HR_TOP_ENTRY
#define C_isal_read_gzip_header                                                                    \
        HR_STATE_FRESH                                                                             \
        GR_FIX_T_REQ                                                                               \
        GR_FIX_AIN_REQ                                                                             \
        GR_FIX_BS_REQ                                                                              \
        __CPROVER_requires(__CPROVER_is_fresh(gz_hdr, sizeof(*gz_hdr)))                            \
        __CPROVER_requires(gz_hdr->extra == NULL ||                                                \
                           __CPROVER_is_fresh(gz_hdr->extra, gz_hdr->extra_buf_len))               \
        __CPROVER_requires(gz_hdr->name == NULL ||                                                 \
                           __CPROVER_is_fresh(gz_hdr->name, gz_hdr->name_buf_len))                 \
        __CPROVER_requires(gz_hdr->comment == NULL ||                                              \
                           __CPROVER_is_fresh(gz_hdr->comment, gz_hdr->comment_buf_len))           \
        __CPROVER_requires(HR_WF_GZIP && state->avail_in <= HR_MAX_AVAIL)                          \
        HR_BOUNDED(gz_hdr->extra_buf_len)                                                          \
        HR_BOUNDED(gz_hdr->name_buf_len)                                                           \
        HR_BOUNDED(gz_hdr->comment_buf_len)                                                        \
        __CPROVER_requires(g_sn == g_i)                                                            \
        __CPROVER_assigns(state->next_in, state->avail_in, state->tmp_in_size, state->block_state, \
                          state->wrapper_flag, state->count, g_hdr_state,                          \
                          __CPROVER_object_upto(state->tmp_in_buffer, 10))                         \
        __CPROVER_assigns(gz_hdr->time, gz_hdr->xflags, gz_hdr->os, gz_hdr->text, gz_hdr->flags,   \
                          gz_hdr->extra_len, gz_hdr->hcrc)                                         \
        __CPROVER_assigns(gz_hdr->extra != NULL                                                    \
                          : __CPROVER_object_upto(gz_hdr->extra, gz_hdr->extra_buf_len);           \
                          gz_hdr->name != NULL                                                     \
                          : __CPROVER_object_upto(gz_hdr->name, gz_hdr->name_buf_len);             \
                          gz_hdr->comment != NULL                                                  \
                          : __CPROVER_object_upto(gz_hdr->comment, gz_hdr->comment_buf_len))       \
        __CPROVER_assigns(w_len_a, w_len_b, w_crc_seed, w_crc_ret, w_crc_buf, w_crc_len,           \
                          w_crc_calls, g_top, g_in0, g_end, g_a0)                                  \
        /* (a) documented statuses  (b) input accounting */                                        \
        __CPROVER_ensures(GR_RET == ISAL_DECOMP_OK || GR_RET == ISAL_END_INPUT ||                  \
                          GR_RET == ISAL_NAME_OVERFLOW || GR_RET == ISAL_COMMENT_OVERFLOW ||       \
                          GR_RET == ISAL_EXTRA_OVERFLOW || GR_RET == ISAL_INVALID_WRAPPER ||       \
                          GR_RET == ISAL_UNSUPPORTED_METHOD || GR_RET == ISAL_INCORRECT_CHECKSUM)  \
        __CPROVER_ensures(state->avail_in <= HR_A)                                                 \
        __CPROVER_ensures(HR_END_OK)                                                               \
        __CPROVER_ensures(GR_RET == ISAL_END_INPUT ==> state->avail_in == 0)                       \
        /* success */                                                                              \
        __CPROVER_ensures(GR_RET == ISAL_DECOMP_OK ==>                                             \
                          (state->wrapper_flag == 1 && state->tmp_in_size == 0 &&                  \
                           state->block_state == ISAL_BLOCK_NEW_HDR))                              \
        /* resumable statuses leave a well-formed state; overflow = that buffer is exactly full */ \
        __CPROVER_ensures(GR_RESUMABLE ==> HR_WF_GZIP)                                             \
        __CPROVER_ensures(GR_RET == ISAL_NAME_OVERFLOW ==>                                         \
                          (state->block_state == ISAL_GZIP_NAME && gz_hdr->name != NULL &&         \
                           (uint32_t) state->count == gz_hdr->name_buf_len))                       \
        __CPROVER_ensures(GR_RET == ISAL_COMMENT_OVERFLOW ==>                                      \
                          (state->block_state == ISAL_GZIP_COMMENT && gz_hdr->comment != NULL &&   \
                           (uint32_t) state->count == gz_hdr->comment_buf_len))                    \
        __CPROVER_ensures(GR_RET == ISAL_EXTRA_OVERFLOW ==>                                        \
                          (state->block_state == ISAL_GZIP_EXTRA && gz_hdr->extra != NULL &&       \
                           gz_hdr->extra_len - (uint32_t) state->count == gz_hdr->extra_buf_len))  \
        /* fixed part */                                                                           \
        __CPROVER_ensures((GR_NEW && HR_TA < 10) ==>                                               \
                          (GR_RET == ISAL_END_INPUT && state->tmp_in_size == HR_TA &&              \
                           state->block_state == ISAL_BLOCK_NEW_HDR))                              \
        __CPROVER_ensures((GR_HAVE10 && !GR_ID_OK) ==> GR_RET == ISAL_INVALID_WRAPPER)             \
        __CPROVER_ensures((GR_HAVE10 && GR_ID_OK && !GR_CM_OK) ==>                                 \
                          GR_RET == ISAL_UNSUPPORTED_METHOD)                                       \
        __CPROVER_ensures(GR_VALID ==>                                                             \
                          (gz_hdr->time == (GR_LE16(HR_V(4), HR_V(5)) |                            \
                                            (GR_LE16(HR_V(6), HR_V(7)) << 16)) &&                  \
                           gz_hdr->xflags == HR_V(8) && gz_hdr->os == HR_V(9) &&                   \
                           gz_hdr->text == (uint32_t) (GR_FLG & 1) && gz_hdr->flags == GR_FLG))    \
        __CPROVER_ensures((GR_VALID && (GR_FLG & 0x1e) == 0) ==>                                   \
                          (GR_RET == ISAL_DECOMP_OK && HR_USED == 10 - HR_T &&                     \
                           gz_hdr->extra_len == 0))                                                \
        /* FLG bit positions: with exactly one optional field announced, a resumable status can    \
         * only come from that field */                                                            \
        __CPROVER_ensures((GR_VALID && (GR_FLG & 0x1e) == 0x08 && GR_RESUMABLE) ==>                \
                          (state->block_state == ISAL_GZIP_NAME &&                                 \
                           (GR_RET == ISAL_END_INPUT || GR_RET == ISAL_NAME_OVERFLOW)))            \
        __CPROVER_ensures((GR_VALID && (GR_FLG & 0x1e) == 0x10 && GR_RESUMABLE) ==>                \
                          (state->block_state == ISAL_GZIP_COMMENT &&                              \
                           (GR_RET == ISAL_END_INPUT || GR_RET == ISAL_COMMENT_OVERFLOW)))         \
        __CPROVER_ensures((GR_VALID && (GR_FLG & 0x1e) == 0x04 && GR_RESUMABLE) ==>                \
                          ((state->block_state == ISAL_GZIP_EXTRA_LEN ||                           \
                            state->block_state == ISAL_GZIP_EXTRA) &&                              \
                           (GR_RET == ISAL_END_INPUT || GR_RET == ISAL_EXTRA_OVERFLOW)))           \
        __CPROVER_ensures((GR_VALID && (GR_FLG & 0x1e) == 0x02) ==>                                \
                          ((GR_RET == ISAL_DECOMP_OK || GR_RET == ISAL_INCORRECT_CHECKSUM ||       \
                            (GR_RET == ISAL_END_INPUT && state->block_state == ISAL_GZIP_HCRC)) && \
                           w_crc_calls == __CPROVER_old(w_crc_calls) + 1 &&                        \
                           w_crc_len == 10 - HR_T))                                                \
        /* XLEN, least-significant byte first */                                                   \
        __CPROVER_ensures((GR_VALID && (GR_FLG & 4) && HR_TA >= 12) ==>                            \
                          gz_hdr->extra_len == GR_LE16(HR_IN[10 - HR_T], HR_IN[11 - HR_T]))        \
        __CPROVER_ensures((GR_VALID && (GR_FLG & 4) && HR_TA < 12) ==>                             \
                          (GR_RET == ISAL_END_INPUT && state->block_state == ISAL_GZIP_EXTRA_LEN && \
                           state->tmp_in_size == HR_TA - 10))                                      \
        __CPROVER_ensures((GR_BS == ISAL_GZIP_EXTRA_LEN && HR_TA >= 2) ==>                         \
                          gz_hdr->extra_len == GR_LE16(HR_V(0), HR_V(1)))                          \
        __CPROVER_ensures(((GR_BS == ISAL_GZIP_EXTRA_LEN || GR_BS == ISAL_GZIP_HCRC) &&            \
                           HR_TA < 2) ==>                                                          \
                          (GR_RET == ISAL_END_INPUT && state->tmp_in_size == HR_TA &&              \
                           state->block_state == GR_BS))                                           \
        GR_CARRY(0) GR_CARRY(1) GR_CARRY(2) GR_CARRY(3) GR_CARRY(4)                                \
        GR_CARRY(5) GR_CARRY(6) GR_CARRY(7) GR_CARRY(8)                                            \
        /* CRC16: entered at the CRC16 itself */                                                   \
        __CPROVER_ensures((GR_BS == ISAL_GZIP_HCRC && HR_TA >= 2) ==>                              \
                          (GR_RET == ((GR_HCRC0 & 0xffff) == GR_LE16(HR_V(0), HR_V(1))             \
                                              ? ISAL_DECOMP_OK                                     \
                                              : ISAL_INCORRECT_CHECKSUM) &&                        \
                           HR_USED == 2 - HR_T && w_crc_calls == __CPROVER_old(w_crc_calls)))      \
        /* the running header CRC: at most one call, over the bytes this call consumed before the  \
         * CRC16, seeded with the value carried from the previous call */                          \
        __CPROVER_ensures(w_crc_calls == __CPROVER_old(w_crc_calls) ||                             \
                          (w_crc_calls == __CPROVER_old(w_crc_calls) + 1 && w_crc_buf == HR_IN &&  \
                           w_crc_len <= HR_USED && gz_hdr->hcrc == w_crc_ret &&                    \
                           w_crc_seed == ((GR_NEW && HR_T == 0) ? 0 : GR_HCRC0)))                  \
        /* resumable progress inside the variable-length fields */                                 \
        __CPROVER_ensures((GR_BS == ISAL_GZIP_EXTRA && state->block_state == ISAL_GZIP_EXTRA &&    \
                           GR_RESUMABLE) ==>                                                       \
                          ((uint32_t) state->count == GR_CNT - HR_USED &&                          \
                           gz_hdr->extra_len == GR_XLEN0 &&                                        \
                           ((gz_hdr->extra != NULL && g_i < HR_USED) ==>                           \
                            gz_hdr->extra[GR_XLEN0 - GR_CNT + g_i] == HR_IN[g_i])))                \
        __CPROVER_ensures((GR_BS == ISAL_GZIP_NAME && state->block_state == ISAL_GZIP_NAME &&      \
                           GR_RESUMABLE) ==>                                                       \
                          ((uint32_t) state->count == GR_CNT + HR_USED &&                          \
                           (g_i < HR_USED ==>                                                      \
                            (HR_IN[g_i] != 0 &&                                                    \
                             (gz_hdr->name != NULL ==>                                             \
                              gz_hdr->name[GR_CNT + g_i] == (char) HR_IN[g_i])))))                 \
        __CPROVER_ensures((GR_BS == ISAL_GZIP_COMMENT &&                                           \
                           state->block_state == ISAL_GZIP_COMMENT && GR_RESUMABLE) ==>            \
                          ((uint32_t) state->count == GR_CNT + HR_USED &&                          \
                           (g_i < HR_USED ==>                                                      \
                            (HR_IN[g_i] != 0 &&                                                    \
                             (gz_hdr->comment != NULL ==>                                          \
                              gz_hdr->comment[GR_CNT + g_i] == (char) HR_IN[g_i])))))

#endif
