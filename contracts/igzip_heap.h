/* Contracts for the portable Huffman-tree construction (properties C18, C05):
 *   igzip/proc_heap_base.c : heapify, build_heap, build_huff_tree   (the C versions; x86 builds link NASM)
 *   igzip/huff_codes.c     : init_heap32/64/64_semi_complete/64_complete, gen_huff_code_lens
 *   igzip/flatten_ll.c     : flatten_ll
 *
 * Heap layout (huff_codes.h): heap[1..heap_size] are 64-bit keys (frequency << 16 | symbol-or-node), heap[0]
 * unused, heap[heap_size+1] is a sentinel of all ones so that "the smaller child" of a node with a single
 * child is that child.  The same 859 x 8 bytes are later read as struct tree_node {child, depth}.
 *
 * Heap order for ALL nodes is stated with a quantifier over the constant range 1..HP_MAX (CBMC expands it;
 * no function call inside the body):  HP(p) = heap[p] <= heap[2p] (if 2p <= n) and heap[p] <= heap[2p+1]. */
#ifndef IGZIP_HEAP_H
#define IGZIP_HEAP_H
#include "verif_common.h"

#ifndef HP_MAX /* largest heap any caller builds: MAX_HISTHEAP_SIZE = LIT_LEN = 286 */
#define HP_MAX 286
#endif
#define HP_SENT (~0ull)

#ifdef ISAL_VERIF
extern uint64_t g_p; /* ghost heap position */
extern uint64_t w_q; /* where the element that was at g_p is afterwards (ghost output) */

/* heap order at node p of heap h with n elements */
#define HP_AT(h, n, p)                                                                             \
        ((2 * (p) <= (n) ==> (h)[p] <= (h)[2 * (p)]) && (2 * (p) + 1 <= (n) ==> (h)[p] <= (h)[2 * (p) + 1]))
/* heap order at every node p with lo <= p <= n, p != except (except = 0: no exception): a conjunction over
 * the constant positions 1..HP_MAX/2 (only those can have a child), written out by macro doubling.
 * (__CPROVER_forall over the same range made CBMC run out of memory.) */
#define HP_1(h, n, lo, ex, p) (((lo) <= (p) && (p) != (ex)) ==> HP_AT(h, n, (uint64_t) (p)))
#define HP_2(h, n, lo, ex, p) (HP_1(h, n, lo, ex, p) && HP_1(h, n, lo, ex, (p) + 1))
#define HP_4(h, n, lo, ex, p) (HP_2(h, n, lo, ex, p) && HP_2(h, n, lo, ex, (p) + 2))
#define HP_8(h, n, lo, ex, p) (HP_4(h, n, lo, ex, p) && HP_4(h, n, lo, ex, (p) + 4))
#define HP_16(h, n, lo, ex, p) (HP_8(h, n, lo, ex, p) && HP_8(h, n, lo, ex, (p) + 8))
#define HP_32(h, n, lo, ex, p) (HP_16(h, n, lo, ex, p) && HP_16(h, n, lo, ex, (p) + 16))
#define HP_64(h, n, lo, ex, p) (HP_32(h, n, lo, ex, p) && HP_32(h, n, lo, ex, (p) + 32))
#define HP_128(h, n, lo, ex, p) (HP_64(h, n, lo, ex, p) && HP_64(h, n, lo, ex, (p) + 64))
#if HP_MAX == 286
#define HP_ALL(h, n, lo, ex)                                                                       \
        (HP_128(h, n, lo, ex, 1) && HP_8(h, n, lo, ex, 129) && HP_4(h, n, lo, ex, 137) && HP_2(h, n, lo, ex, 141) && \
         HP_1(h, n, lo, ex, 143))
#elif HP_MAX == 30
#define HP_ALL(h, n, lo, ex) (HP_8(h, n, lo, ex, 1) && HP_4(h, n, lo, ex, 9) && HP_2(h, n, lo, ex, 13) && HP_1(h, n, lo, ex, 15))
#elif HP_MAX == 14
#define HP_ALL(h, n, lo, ex) (HP_4(h, n, lo, ex, 1) && HP_2(h, n, lo, ex, 5) && HP_1(h, n, lo, ex, 7))
#else
#error "HP_ALL is written out for HP_MAX 286, 30 and 14 only"
#endif

/* Two flavours of the same contracts (selected per harness with -DHP_ORDER):
 *  - default ("safety"): the heap is a fresh object of EXACTLY heap_size+2 words (one word more or less read
 *    or written fails a pointer check); the quantified heap-order clauses are switched off, because a
 *    quantifier over a symbolic-size object makes CBMC's array theory run out of memory;
 *  - HP_ORDER: the heap is a harness-owned array of constant size HP_MAX+2 (CBMC then keeps every word as a
 *    scalar, harness passes --max-field-sensitivity-array-size) and heap order is stated for all nodes. */
#ifdef HP_ORDER
#define HP_MEM_REQ(h, n)
#define HP_Q(x) x
#else
#define HP_MEM_REQ(h, n) __CPROVER_requires(__CPROVER_is_fresh(h, ((n) + 2) * sizeof(uint64_t)))
#define HP_Q(x) 1
#endif
/* Permutation: the sift-down of node i0 that has reached node x moved the key of i0 to x and every key on the
 * path below i0 one level up.  HP_ANC(g, x): g is x or one of its ancestors (positions < 512: 8 shifts).
 * HP_POS(g, i0, x): where the key that was at position g is now.  Ghost g_p in, ghost w_q out. */
#define HP_ANC(g, x)                                                                               \
        ((x) == (g) || ((x) >> 1) == (g) || ((x) >> 2) == (g) || ((x) >> 3) == (g) || ((x) >> 4) == (g) ||     \
         ((x) >> 5) == (g) || ((x) >> 6) == (g) || ((x) >> 7) == (g) || ((x) >> 8) == (g))
#define HP_POS(g, i0, x) ((g) == (i0) ? (x) : (((g) > (i0) && HP_ANC(g, x)) ? (g) / 2 : (g)))
/* ------------------------------------------------------------------------------------ heapify */
/* sift-down of node `index`: if every node below `index` (p > index) is in heap order, afterwards every
 * node p >= index is; heap[0] and the sentinel keep their values.  The frame is stated as the whole object
 * (a slice of symbolic length inside the 859-word union sends CBMC's array theory out of memory in the callers);
 * in the safety flavour the object is exactly heap_size+2 words, so heap[0], heap[1..heap_size] and the sentinel
 * are all there is, and the first and last are pinned by the postcondition. */
#define C_heapify                                                                                  \
        __CPROVER_requires(1 <= index && index <= heap_size + 1 && heap_size <= HP_MAX && g_p <= heap_size)                                    \
        HP_MEM_REQ(heap, heap_size)                                                                \
        __CPROVER_requires(heap[heap_size + 1] == HP_SENT)                                         \
        __CPROVER_requires(HP_Q(HP_ALL(heap, heap_size, index + 1, 0)))                                 \
        __CPROVER_ensures(HP_Q(HP_ALL(heap, heap_size, index, 0)))                                     \
        __CPROVER_ensures(heap[heap_size + 1] == HP_SENT && heap[0] == __CPROVER_old(heap[0]))     \
        __CPROVER_ensures(w_q <= heap_size && (g_p >= 1 ==> w_q >= 1) && heap[w_q] == __CPROVER_old(heap[g_p])) \
        __CPROVER_assigns(__CPROVER_object_whole(heap), w_q)
#define E_heapify                                                                                  \
        const uint64_t gh_i0 = index, gh_h0 = heap[0], gh_val = heap[g_p];                         \
        w_q = g_p;
#define L_heapify_1                                                                                \
        __CPROVER_assigns(child, tmp, index, w_q, __CPROVER_object_whole(heap))                    \
        __CPROVER_loop_invariant(gh_i0 <= index && child == 2 * index && index <= heap_size + 1) \
        __CPROVER_loop_invariant(heap[heap_size + 1] == HP_SENT && heap[0] == gh_h0)               \
        __CPROVER_loop_invariant(w_q == HP_POS(g_p, gh_i0, index) && w_q <= heap_size && heap[w_q] == gh_val) \
        __CPROVER_loop_invariant(HP_Q(HP_ALL(heap, heap_size, gh_i0, index)))                          \
        __CPROVER_loop_invariant(HP_Q((index != gh_i0 && 2 * index <= heap_size) ==> heap[index / 2] <= heap[2 * index])) \
        __CPROVER_loop_invariant(HP_Q((index != gh_i0 && 2 * index + 1 <= heap_size) ==> heap[index / 2] <= heap[2 * index + 1])) \
        __CPROVER_decreases(heap_size + 1 - index)
/* the hook re-computes the decision the body is about to take (which child, swap or stop) only to name the
 * position the sift-down will reach; the invariant w_q == HP_POS(.., index) checks that name against the code */
#define H_heapify_1                                                                                \
        {                                                                                          \
                uint64_t c__ = (heap[child] <= heap[child + 1]) ? child : child + 1;               \
                uint64_t n__ = (heap[index] > heap[c__]) ? c__ : index;                            \
                w_q = HP_POS(g_p, gh_i0, n__);                                                     \
        }                                                                                          \
        VCANARY();

/* --------------------------------------------------------------------------------- build_heap */
/* writes the sentinel behind the last element and establishes heap order at every node */
/* In the TU that also holds huff_codes.c the call sites owe build_heap keys with pairwise distinct symbol ids (low 16
 * bits): ghost pair g_i < g_j.  That is what the consumers of the tree need (code_list is a permutation of the symbols)
 * and what audit mutant I6 (dummy second symbol == the used one) breaks.  Call-site obligation only: the enforce
 * harness of build_heap lives in the TU without HEAP_WITH_CODES, where the clause is empty. */
#ifdef HEAP_WITH_CODES
extern uint64_t g_i, g_j;
extern _Bool g_dist; /* set by the E_ hooks of the initialisers that carry the distinctness invariant */
#define IH_SYM(k) ((uint64_t) (uint16_t) (k))
#define HP_DISTINCT_REQ                                                                            \
        __CPROVER_requires((g_dist && 1 <= g_i && g_i < g_j && g_j <= heap_size) ==> IH_SYM(heap[g_i]) != IH_SYM(heap[g_j]))
#else
#define HP_DISTINCT_REQ
#endif
#define C_build_heap                                                                               \
        __CPROVER_requires(heap_size <= HP_MAX && g_p <= heap_size)                                \
        HP_DISTINCT_REQ                                                                            \
        HP_MEM_REQ(heap, heap_size)                                                                \
        __CPROVER_ensures(w_q <= heap_size && (__CPROVER_old(g_p) >= 1 ==> w_q >= 1) && heap[w_q] == __CPROVER_old(heap[g_p])) \
        __CPROVER_ensures(heap[heap_size + 1] == HP_SENT)                                          \
        __CPROVER_ensures(HP_Q(HP_ALL(heap, heap_size, 1, 0)))                                     \
        __CPROVER_ensures(heap[0] == __CPROVER_old(heap[0]))                                       \
        __CPROVER_assigns(__CPROVER_object_whole(heap), g_p, w_q)
#define L_build_heap_1                                                                             \
        __CPROVER_assigns(i, g_p, w_q, __CPROVER_object_whole(heap))                               \
        __CPROVER_loop_invariant(i <= heap_size / 2 && heap[heap_size + 1] == HP_SENT && heap[0] == gh_h0) \
        __CPROVER_loop_invariant(w_q <= heap_size && (gh_p0 >= 1 ==> w_q >= 1) && heap[w_q] == gh_val) \
        __CPROVER_loop_invariant(HP_Q(HP_ALL(heap, heap_size, i + 1, 0)))                          \
        __CPROVER_decreases(i)
#define E_build_heap                                                                               \
        const uint64_t gh_h0 = heap[0], gh_p0 = g_p, gh_val = heap[g_p];                           \
        w_q = g_p;
#define H_build_heap_1                                                                             \
        g_p = w_q; /* the tracked key is the ghost input of the next heapify */                    \
        VCANARY();

/* ---------------------------------------------------------------------------- build_huff_tree */
/* heap_size >= 1 keys in heap order with the sentinel behind them; node_ptr (HEAP_TREE_NODE_START at the only
 * call site) is the highest tree slot; node_ptr >= 3*heap_size keeps the 2*(heap_size-1)+1 tree slots that
 * are written above the shrinking heap and its sentinel.
 * Proved: memory safety inside the 859-word union, termination (one element less per iteration), the root
 * slot returned is node_ptr - 2*(heap_size-1), and (HP_ORDER) the heap stays in heap order, so that the two
 * keys merged in every step are the two smallest (the root is <= every key: ghost position g_p). */
#define HT_WORDS (3 * 286 + 1)
#define C_build_huff_tree                                                                          \
        __CPROVER_requires(1 <= heap_size && heap_size <= HP_MAX && 3 * heap_size <= node_ptr && node_ptr <= HT_TOP) \
        __CPROVER_requires(g_p <= 1) /* ghost input of the two heapify calls; any position of the shrinking heap */ \
        HT_MEM_REQ(heap_space)                                                                     \
        __CPROVER_requires(((uint64_t *) heap_space)[heap_size + 1] == HP_SENT)                    \
        __CPROVER_requires(HP_Q(HP_ALL(((uint64_t *) heap_space), heap_size, 1, 0)))               \
        __CPROVER_ensures(__CPROVER_return_value == node_ptr - 2 * (heap_size - 1))                \
        __CPROVER_assigns(__CPROVER_object_whole(heap_space), w_q)
#define E_build_huff_tree const uint64_t gh_hs0 = heap_size, gh_np0 = node_ptr;
#define L_build_huff_tree_1                                                                        \
        __CPROVER_assigns(heap_size, node_ptr, h1, h2, w_q, __CPROVER_object_whole(heap_space))    \
        __CPROVER_loop_invariant(1 <= heap_size && heap_size <= gh_hs0 && node_ptr == gh_np0 - 2 * (gh_hs0 - heap_size)) \
        __CPROVER_loop_invariant(heap[heap_size + 1] == HP_SENT)                                   \
        __CPROVER_loop_invariant(HP_Q(HP_ALL(heap, heap_size, 1, 0)))                              \
        __CPROVER_decreases(heap_size)
#ifdef HP_ORDER
#define HT_TOP (3 * HP_MAX) /* harness-owned arena of 3*HP_MAX+1 words (the function is parametric in node_ptr) */
#define HT_MEM_REQ(hs)
#define H_build_huff_tree_1                                                                        \
        __CPROVER_assert(!(1 <= g_p && g_p <= heap_size) || heap[1] <= heap[g_p], "the key removed first is a minimum of the heap"); \
        VCANARY();
#else
#define HT_TOP (HT_WORDS - 1)
#define HT_MEM_REQ(hs) __CPROVER_requires(__CPROVER_is_fresh(hs, HT_WORDS * sizeof(uint64_t)))
#define H_build_huff_tree_1 VCANARY();
#endif

#ifdef HEAP_WITH_CODES /* the TU also contains igzip/huff_codes.c */
/* ------------------------------------------------- init_heap32 / 64 / 64_semi_complete / 64_complete */
/* The heap gets one key (count << 16 | symbol) per symbol that takes part (non-zero count; for *_complete
 * every symbol; for *_semi_complete also every symbol >= complete_start), at least two keys in total
 * (fillers, not for *_complete), the sentinel, and is handed to build_heap (proved contract, permutation).
 * Ghost symbol g_s: if it takes part, its key count*2^16 + g_s is in the returned heap at ghost position w_q
 * (counts below 2^48: a larger count does not fit the 48-bit frequency field and wraps in the code). */
extern uint64_t g_s;
#define IH_KEY(c, i) (((uint64_t) (c) << 16) | (i))
#define IH_FITS(c) ((uint64_t) (c) < (1ull << 48))
#define IH_PRESENT(cond) ((g_s < hist_size && IH_FITS(histogram[g_s]) && (cond)) ==>                \
        (1 <= w_q && w_q <= __CPROVER_return_value && heap_space->heap[w_q] == (uint64_t) histogram[g_s] * 65536 + g_s))
#define IH_COMMON(T)                                                                               \
        __CPROVER_requires(hist_size <= HP_MAX)                                                    \
        __CPROVER_requires(__CPROVER_is_fresh(heap_space, sizeof(struct heap_tree)))               \
        __CPROVER_requires(__CPROVER_is_fresh(histogram, hist_size * sizeof(T)))                   \
        __CPROVER_ensures(heap_space->heap[__CPROVER_return_value + 1] == HP_SENT)                 \
        __CPROVER_assigns(__CPROVER_object_whole(heap_space), g_p, w_q, g_dist)
#define IH_FILLED __CPROVER_ensures(2 <= __CPROVER_return_value && __CPROVER_return_value <= (hist_size < 2 ? 2 : hist_size))
#define C_init_heap32 IH_COMMON(uint32_t) IH_FILLED __CPROVER_ensures(IH_PRESENT(histogram[g_s] != 0))
#define C_init_heap64 IH_COMMON(uint64_t) IH_FILLED __CPROVER_ensures(IH_PRESENT(histogram[g_s] != 0))
#define C_init_heap64_semi_complete                                                                \
        IH_COMMON(uint64_t) IH_FILLED __CPROVER_requires(complete_start <= hist_size)              \
        __CPROVER_ensures(IH_PRESENT(histogram[g_s] != 0 || g_s >= complete_start))
#define C_init_heap64_complete                                                                     \
        IH_COMMON(uint64_t) __CPROVER_ensures(__CPROVER_return_value == hist_size)                 \
        __CPROVER_ensures(IH_PRESENT(1))
#define IH_E g_p = 0; g_dist = 1;
/* g_p == position of the ghost symbol's key once the fill loop has passed it (0 = it takes no part) */
#define IH_TRACK(done, takes_part)                                                                 \
        ((g_s < hist_size && (done) && (takes_part)) ? (1 <= g_p && g_p <= heap_size &&            \
                 heap_space->heap[g_p] == IH_KEY(histogram[g_s], g_s)) : g_p == 0)
/* symbol ids of the keys written so far: below i, strictly increasing with the position (ghost pair g_i < g_j), the
 * key at 1 is symbol 0's whenever symbol 0 takes part, and a key of symbol 0 is only there if symbol 0 takes part in
 * the first loop (histogram[0] != 0) -- together they decide the "exactly one symbol used" fix-up */
#define IH_DISTINCT_INV                                                                            \
        __CPROVER_loop_invariant((1 <= g_i && g_i <= heap_size) ==> IH_SYM(heap_space->heap[g_i]) < i) \
        __CPROVER_loop_invariant((1 <= g_i && g_i < g_j && g_j <= heap_size) ==>                   \
                                 IH_SYM(heap_space->heap[g_i]) < IH_SYM(heap_space->heap[g_j]))    \
        __CPROVER_loop_invariant((i > 0 && histogram[0] != 0) ==> (heap_size >= 1 && IH_SYM(heap_space->heap[1]) == 0))
#define IH_ZERO_ONLY_IF_USED ((heap_size >= 1 && IH_SYM(heap_space->heap[1]) == 0) ==> histogram[0] != 0)
#define IH_LOOP(lo, hi, takes_part) IH_LOOPX(lo, hi, takes_part, IH_ZERO_ONLY_IF_USED)
#define IH_LOOPN(lo, hi, takes_part)                                                               \
        __CPROVER_assigns(i, heap_size, g_p, __CPROVER_object_whole(heap_space))                   \
        __CPROVER_loop_invariant((lo) <= i && i <= (hi) && heap_size <= i)                         \
        __CPROVER_loop_invariant(IH_TRACK(g_s < i, takes_part))                                    \
        __CPROVER_decreases((hi) - i)
#define IH_LOOPX(lo, hi, takes_part, extra)                                                        \
        __CPROVER_assigns(i, heap_size, g_p, __CPROVER_object_whole(heap_space))                   \
        __CPROVER_loop_invariant((lo) <= i && i <= (hi) && heap_size <= i && (extra))              \
        __CPROVER_loop_invariant(IH_TRACK(g_s < i, takes_part))                                    \
        IH_DISTINCT_INV                                                                            \
        __CPROVER_decreases((hi) - i)
#define IH_HOOK(takes_part)                                                                        \
        if (i == g_s && (takes_part))                                                              \
                g_p = heap_size + 1;                                                               \
        VCANARY();
#define E_init_heap32 IH_E
#define L_init_heap32_1 IH_LOOP(0, hist_size, histogram[g_s] != 0)
#define H_init_heap32_1 IH_HOOK(histogram[g_s] != 0)
#define E_init_heap64 IH_E
#define L_init_heap64_1 IH_LOOP(0, hist_size, histogram[g_s] != 0)
#define H_init_heap64_1 IH_HOOK(histogram[g_s] != 0)
#define E_init_heap64_complete IH_E
#define L_init_heap64_complete_1 IH_LOOPX(0, hist_size, 1, heap_size == i)
#define H_init_heap64_complete_1 IH_HOOK(1)
#define E_init_heap64_semi_complete g_p = 0; g_dist = 0;
/* semi_complete does not carry the distinctness invariant (g_dist = 0): with complete_start == 0 && hist_size == 1 &&
 * histogram[0] == 0 its fix-up does duplicate symbol 0; the one call site passes (LIT_LEN, 257), far from it */
#define L_init_heap64_semi_complete_1 IH_LOOPN(0, complete_start, histogram[g_s] != 0)
#define H_init_heap64_semi_complete_1 IH_HOOK(histogram[g_s] != 0)
#define L_init_heap64_semi_complete_2                                                              \
        __CPROVER_assigns(i, heap_size, g_p, __CPROVER_object_whole(heap_space))                   \
        __CPROVER_loop_invariant(complete_start <= i && i <= hist_size && heap_size <= i)          \
        __CPROVER_loop_invariant(IH_TRACK(g_s < i, histogram[g_s] != 0 || g_s >= complete_start))  \
        __CPROVER_decreases(hist_size - i)
#define H_init_heap64_semi_complete_2 IH_HOOK(1)
#endif /* HEAP_WITH_CODES */

#endif /* ISAL_VERIF */
#endif
