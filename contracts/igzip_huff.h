/* Contracts for the Huffman-side helpers of the igzip compressor (properties C18, C17, C01):
 *   igzip/huffman.h    bsr, tzbytecnt, compute_dist_code, get_dist_code, get_len_code,
 *                      compute_dist_icf_code, get_dist_icf_code, get_len_icf_code, compare258, compare
 *   igzip/huff_codes.c (-DHUFF_WITH_CODES) convert_dist_to_dist_sym, convert_length_to_len_sym,
 *                      are_hufftables_useable, write_rl (+ the closed-form greedy run-length spec and its
 *                      RFC-validity lemma), rl_encode (-DRL_ENCODE_LOOP: loop contract over a block stub of write_rl),
 *                      create_packed_len_table, create_packed_dist_table, expand_hufftables_icf (vs the RFC tables),
 *                      create_huffman_header / create_header (-DHUFF_HDR, header layout RFC 1951 3.2.7),
 *                      create_hufftables_icf (frame only, callees by frame-only contracts)
 *   bounded stand-ins for set_huff_codes, set_dist_huff_codes, rl_encode live in harness/igzip/huff_b.c;
 *   fix_code_lens: only the arithmetic lemma of one repair step (harness/igzip/huff_c_fix.c)
 * isal_deflate_set_hufftables (igzip.c) is in contracts/igzip_lz.h.
 * Postconditions are stated against contracts/spec_deflate_rfc.h (RFC 1951 tables typed in from the RFC).
 * C_<fn> is spliced in front of the body of <fn>, L_<fn>_<n> after the header of its n-th loop,
 * H_<fn>_<n> as first statement of that loop's body.  Other families reuse C_compare258 / C_get_*_code
 * read-only: keep those macro names stable. */
#ifndef IGZIP_HUFF_H
#define IGZIP_HUFF_H
#include "verif_common.h"
#include "spec_deflate_rfc.h"

/* ------------------------------------------------------------------------------------------------
 * bit scans: mathematical definitions (position of the most significant one / number of zero low bytes)
 * ---------------------------------------------------------------------------------------------- */
#define C_bsr                                                                                      \
        __CPROVER_ensures(val == 0 ? __CPROVER_return_value == 0                                   \
                                   : (__CPROVER_return_value >= 1 && __CPROVER_return_value <= 32 && \
                                      (val >> (__CPROVER_return_value - 1)) == 1))                 \
        __CPROVER_assigns()

#define C_tzbytecnt                                                                                \
        __CPROVER_ensures(val == 0 ? __CPROVER_return_value == 8                                   \
                                   : (__CPROVER_return_value < 8 &&                                \
                                      ((val >> (8 * __CPROVER_return_value)) & 0xff) != 0 &&       \
                                      (__CPROVER_return_value == 0 ||                              \
                                       (val << (64 - 8 * __CPROVER_return_value)) == 0)))          \
        __CPROVER_assigns()

/* ------------------------------------------------------------------------------------------------
 * distance -> (symbol, extra) for the intermediate format: RFC 1951 distance table, full domain
 * ---------------------------------------------------------------------------------------------- */
#define C_get_dist_icf_code                                                                        \
        __CPROVER_requires(1 <= dist && dist <= 32768)                                             \
        __CPROVER_requires(__CPROVER_is_fresh(code, sizeof(*code)))                                \
        __CPROVER_requires(__CPROVER_is_fresh(extra_bits, sizeof(*extra_bits)))                    \
        __CPROVER_assigns(*code, *extra_bits)                                                      \
        __CPROVER_ensures(rfc_dist_sym_encodes(*code, *extra_bits, dist))

#define C_compute_dist_icf_code                                                                    \
        __CPROVER_requires(3 <= dist && dist <= 32768)                                             \
        __CPROVER_requires(__CPROVER_is_fresh(code, sizeof(*code)))                                \
        __CPROVER_requires(__CPROVER_is_fresh(extra_bits, sizeof(*extra_bits)))                    \
        __CPROVER_assigns(*code, *extra_bits)                                                      \
        __CPROVER_ensures(rfc_dist_sym_encodes(*code, *extra_bits, dist))

/* ICF length token = LEN_OFFSET (254) + length, the index into hufftables_icf.lit_len_table after
 * expand_hufftables_icf (format definition in encode_df.h); tied to the RFC by C_expand_hufftables_icf */
#define C_get_len_icf_code                                                                         \
        __CPROVER_requires(3 <= length && length <= 258)                                           \
        __CPROVER_requires(__CPROVER_is_fresh(code, sizeof(*code)))                                \
        __CPROVER_assigns(*code)                                                                   \
        __CPROVER_ensures(*code >= 257 && *code <= 512 && *code - 254 == length)

/* ------------------------------------------------------------------------------------------------
 * level-0 table lookups.  isal_hufftables stores, per igzip_lib.h, "bits 4:0 are the code length,
 * bits 31:5 are the code"; the code of a match component is <Huffman code> followed by the RFC extra
 * bits (LSB-first bit order: extra bits sit above the Huffman code).
 * Well-formedness of a packed entry for value v (symbol s, Huffman code c of n bits):
 *      entry == ((c | extra(v) << n) << 5) | (n + extra_bits(s))
 * ---------------------------------------------------------------------------------------------- */
/* spec_pack_code: contracts/spec_deflate_rfc.h */
#define HD_SYM rfc_dist_sym(dist)
#ifndef LONGER_HUFFTABLE
#define HD_CODE ((uint32_t) hufftables->dcodes[HD_SYM - IGZIP_DECODE_OFFSET])
#define HD_LEN ((uint32_t) hufftables->dcodes_sizes[HD_SYM - IGZIP_DECODE_OFFSET])
#else
/* LONGER_HUFFTABLE build: dist_table covers distances 1..8192 and dcodes[] holds only symbols 26..29
 * (IGZIP_DECODE_OFFSET 26), so for a tabulated distance the Huffman code of its symbol is not stored
 * separately: it is the ghost pair (g_dcode, g_dlen), as for get_len_code */
extern uint32_t g_dcode, g_dlen;
#define HD_TAB (dist <= IGZIP_DIST_TABLE_SIZE)
#define HD_CODE (HD_TAB ? g_dcode : (uint32_t) hufftables->dcodes[HD_TAB ? 0 : HD_SYM - IGZIP_DECODE_OFFSET])
#define HD_LEN (HD_TAB ? g_dlen : (uint32_t) hufftables->dcodes_sizes[HD_TAB ? 0 : HD_SYM - IGZIP_DECODE_OFFSET])
#define HD_GHOST_OK (g_dlen <= 15 && g_dcode < (1u << g_dlen))
#endif
#ifndef HD_GHOST_OK
#define HD_GHOST_OK 1
#endif

#define C_get_dist_code                                                                            \
        __CPROVER_requires(1 <= dist && dist <= 32768)                                             \
        __CPROVER_requires(__CPROVER_is_fresh(hufftables, sizeof(*hufftables)))                    \
        __CPROVER_requires(__CPROVER_is_fresh(code, sizeof(*code)))                                \
        __CPROVER_requires(__CPROVER_is_fresh(len, sizeof(*len)))                                  \
        __CPROVER_requires(HD_LEN <= 15 && HD_GHOST_OK)                                            \
        __CPROVER_requires(dist <= IGZIP_DIST_TABLE_SIZE ==>                                       \
                           hufftables->dist_table[dist <= IGZIP_DIST_TABLE_SIZE ? dist - 1 : 0] == \
                                   spec_pack_code(HD_CODE, HD_LEN, rfc_dist_extra_val(dist),       \
                                                  rfc_dist_extra_bits(HD_SYM)))                    \
        __CPROVER_assigns(*code, *len)                                                             \
        __CPROVER_ensures(*len == HD_LEN + rfc_dist_extra_bits(HD_SYM))                            \
        __CPROVER_ensures(*code == (HD_CODE | (rfc_dist_extra_val(dist) << HD_LEN)))

#define C_compute_dist_code                                                                        \
        __CPROVER_requires(IGZIP_DIST_TABLE_SIZE < dist && dist <= 32768)                          \
        __CPROVER_requires(__CPROVER_is_fresh(hufftables, sizeof(*hufftables)))                    \
        __CPROVER_requires(__CPROVER_is_fresh(p_code, sizeof(*p_code)))                            \
        __CPROVER_requires(__CPROVER_is_fresh(p_len, sizeof(*p_len)))                              \
        __CPROVER_requires(HD_LEN <= 15)                                                           \
        __CPROVER_assigns(*p_code, *p_len)                                                         \
        __CPROVER_ensures(*p_len == HD_LEN + rfc_dist_extra_bits(HD_SYM))                          \
        __CPROVER_ensures(*p_code == (HD_CODE | (rfc_dist_extra_val(dist) << HD_LEN)))

/* len_table is the only representation of the length codes inside isal_hufftables, so the Huffman
 * code of the length symbol is a ghost pair (g_lcode, g_llen) */
extern uint32_t g_lcode, g_llen;
#define C_get_len_code                                                                             \
        __CPROVER_requires(3 <= length && length <= 258)                                           \
        __CPROVER_requires(__CPROVER_is_fresh(hufftables, sizeof(*hufftables)))                    \
        __CPROVER_requires(__CPROVER_is_fresh(code, sizeof(*code)))                                \
        __CPROVER_requires(__CPROVER_is_fresh(len, sizeof(*len)))                                  \
        __CPROVER_requires(g_llen <= 15 && g_lcode < (1u << g_llen))                               \
        __CPROVER_requires(hufftables->len_table[length - 3] ==                                    \
                           spec_pack_code(g_lcode, g_llen, rfc_len_extra_val(length),              \
                                          rfc_len_extra_bits(rfc_len_sym(length))))                \
        __CPROVER_assigns(*code, *len)                                                             \
        __CPROVER_ensures(*len == g_llen + rfc_len_extra_bits(rfc_len_sym(length)))                \
        __CPROVER_ensures(*code == (g_lcode | (rfc_len_extra_val(length) << g_llen)))

/* ------------------------------------------------------------------------------------------------
 * compare258 / compare: length of the common prefix, capped.  Ghost index g_k picks an arbitrary
 * position below the result.  CMP_MEM selects how the two readable ranges are provided: fresh
 * (disjoint) objects by default; the *_overlap harnesses define CMP_MEM_OVERLAP and hand in two
 * pointers into one object (the shape of the real call compare258(next_in - dist, next_in, n)).
 * ---------------------------------------------------------------------------------------------- */
extern uint32_t g_k;
extern uint32_t w_ret;
#ifdef CMP_MEM_OVERLAP
#define CMP_MEM(p, n) __CPROVER_r_ok(p, n)
#else
#define CMP_MEM(p, n) __CPROVER_is_fresh(p, n)
#endif
#define CMP_N258 (max_length > 258u ? 258u : max_length)
#define CMP_CONTRACT(N)                                                                            \
        __CPROVER_requires(CMP_MEM(str1, N))                                                       \
        __CPROVER_requires(CMP_MEM(str2, N))                                                       \
        __CPROVER_assigns()                                                                        \
        __CPROVER_ensures((uint32_t) __CPROVER_return_value <= (N))                                \
        __CPROVER_ensures(g_k < (uint32_t) __CPROVER_return_value ==> str1[g_k] == str2[g_k])      \
        __CPROVER_ensures((uint32_t) __CPROVER_return_value < (N) ==>                              \
                          str1[(uint32_t) __CPROVER_return_value] != str2[(uint32_t) __CPROVER_return_value])
#define CMP_LOOP                                                                                   \
        __CPROVER_assigns(count, test, str1, str2)                                                 \
        __CPROVER_loop_invariant(count <= loop_length && (count & 7) == 0 &&                       \
                                 str1 == __CPROVER_loop_entry(str1) + count &&                     \
                                 str2 == __CPROVER_loop_entry(str2) + count &&                     \
                                 (g_k < count ==> __CPROVER_loop_entry(str1)[g_k] ==               \
                                                          __CPROVER_loop_entry(str2)[g_k]))        \
        __CPROVER_decreases(loop_length - count)
#define C_compare258 CMP_CONTRACT(CMP_N258)
#define L_compare258_1 CMP_LOOP
#define H_compare258_1 VCANARY();
#define C_compare CMP_CONTRACT(max_length)
#define L_compare_1 CMP_LOOP
#define H_compare_1 VCANARY();

#ifdef HUFF_WITH_CODES
/* ================================================================================================
 * igzip/huff_codes.c
 * ============================================================================================== */

/* RFC 1951 symbol of a distance / a length: the symbol whose "Dist"/"Length(s)" range contains it */
#define C_convert_dist_to_dist_sym                                                                 \
        __CPROVER_requires(1 <= dist && dist <= 32768)                                             \
        __CPROVER_assigns()                                                                        \
        __CPROVER_ensures(__CPROVER_return_value < 30 &&                                           \
                          rfc_dist_base[__CPROVER_return_value < 30 ? __CPROVER_return_value : 0] <= dist && \
                          dist <= rfc_dist_last[__CPROVER_return_value < 30 ? __CPROVER_return_value : 0])
#define CL_IDX ((__CPROVER_return_value >= 257 && __CPROVER_return_value <= 285) ? __CPROVER_return_value - 257 : 0)
#define C_convert_length_to_len_sym                                                                \
        __CPROVER_requires(3 <= length && length <= 258)                                           \
        __CPROVER_assigns()                                                                        \
        __CPROVER_ensures(__CPROVER_return_value >= 257 && __CPROVER_return_value <= 285 &&        \
                          rfc_len_base[CL_IDX] <= length && length <= rfc_len_last[CL_IDX])

/* are_hufftables_useable: ret == 0 ==> any literal/EOB code + any length code with its RFC extra bits +
 * any distance code with its RFC extra bits fit the 56 bits the bit buffer accepts between flushes
 * (MAX_BITBUF_BIT_WRITE; the level-0 kernels emit literal+length+distance with one write_bits).
 * Ghost indices: g_lit (any lit/len-alphabet symbol), g_lsym (length symbol), g_dsym (distance symbol).
 * All 29 length symbols 257..285 (285 = length 258, no extra bits) and all 30 distance symbols count:
 * the pinned tree skipped 285 (finding C18-useable-285, repaired by the fix: commit in /repo). */
extern uint32_t g_lit, g_lsym, g_dsym;
#define C_are_hufftables_useable                                                                   \
        __CPROVER_requires(__CPROVER_is_fresh(lit_len_hufftable, 286 * sizeof(struct huff_code)))  \
        __CPROVER_requires(__CPROVER_is_fresh(dist_hufftable, 30 * sizeof(struct huff_code)))      \
        __CPROVER_requires(g_lit < 286 && 257 <= g_lsym && g_lsym <= 285 && g_dsym < 30)  \
        __CPROVER_assigns()                                                                        \
        __CPROVER_ensures(__CPROVER_return_value == 0 || __CPROVER_return_value == 1)              \
        __CPROVER_ensures(__CPROVER_return_value == 0 ==>                                          \
                          (uint32_t) lit_len_hufftable[g_lit].length +                             \
                                          ((uint32_t) lit_len_hufftable[g_lsym].length +           \
                                           rfc_len_extra[g_lsym - 257]) +                          \
                                          ((uint32_t) dist_hufftable[g_dsym].length +              \
                                           rfc_dist_extra[g_dsym]) <=                              \
                                  56)
#define L_are_hufftables_useable_1                                                                 \
        __CPROVER_assigns(i, max_lit_code_len)                                                     \
        __CPROVER_loop_invariant(0 <= i && i <= 286 && 0 <= max_lit_code_len && max_lit_code_len <= 255 && \
                                 (g_lit < (uint32_t) i ==>                                         \
                                  lit_len_hufftable[g_lit].length <= max_lit_code_len))            \
        __CPROVER_decreases(286 - i)
#define H_are_hufftables_useable_1 VCANARY();
/* the code derives the extra-bit count from a running counter (264, +4): the invariant ties it to the RFC table */
#define L_are_hufftables_useable_2                                                                 \
        __CPROVER_assigns(i, max_len_code_len, gain_len_extra_bits, len_extra_bits)                \
        __CPROVER_loop_invariant(257 <= i && i <= 285 && 0 <= max_len_code_len && max_len_code_len <= 260 && \
                                 0 <= len_extra_bits && len_extra_bits <= 6 &&                     \
                                 gain_len_extra_bits == 264 + 4 * len_extra_bits &&                \
                                 (i <= 284 ==> len_extra_bits == rfc_len_extra[i <= 284 ? i - 257 : 0]) && \
                                 (i == 285 ==> len_extra_bits == 6) &&                             \
                                 ((g_lsym < (uint32_t) i && g_lsym <= 284) ==>                     \
                                  lit_len_hufftable[g_lsym].length + rfc_len_extra[g_lsym <= 284 ? g_lsym - 257 : 0] <= \
                                          max_len_code_len))                                       \
        __CPROVER_decreases(285 - i)
#define H_are_hufftables_useable_2 VCANARY();
#define L_are_hufftables_useable_3                                                                 \
        __CPROVER_assigns(i, max_dist_code_len, gain_dist_extra_bits, dist_extra_bits)             \
        __CPROVER_loop_invariant(0 <= i && i <= 30 && 0 <= max_dist_code_len && max_dist_code_len <= 270 && \
                                 0 <= dist_extra_bits && dist_extra_bits <= 14 &&                  \
                                 gain_dist_extra_bits == 3 + 2 * dist_extra_bits &&                \
                                 (i <= 29 ==> dist_extra_bits == rfc_dist_extra[i <= 29 ? i : 0]) && \
                                 (i == 30 ==> dist_extra_bits == 14) &&                            \
                                 (g_dsym < (uint32_t) i ==>                                        \
                                  dist_hufftable[g_dsym].length + rfc_dist_extra[g_dsym] <= max_dist_code_len)) \
        __CPROVER_decreases(30 - i)
#define H_are_hufftables_useable_3 VCANARY();

/* ------------------------------------------------------------------------------------------------
 * write_rl: run-length coding of one run (value v = last_len repeated run_len times) in the RFC 1951
 * 3.2.7 code-length alphabet.  spec_rl_* is the greedy (longest repeat first) coding in closed form;
 * that this coding is RFC-valid and expands to exactly run_len copies of v is the lemma
 * h_spec_rl_valid (prefix-sum witness spec_rl_P, checked at an arbitrary ghost position).
 * ---------------------------------------------------------------------------------------------- */
/* Euclidean decompositions are passed in as ghost scalars (tied by requires) so that no clause divides:
 *   run     == 138*k0 + r0, 1 <= r0 <= 138      (zero runs: k0 maximal repeats of 138, then r0)
 *   run - 1 == 6*k1 + r1,   1 <= r1 <= 6  or run == 1 and k1 == r1 == 0   (after the first literal length) */
extern uint32_t g_k0, g_r0, g_k1, g_r1;
#define RL_DECOMP(run)                                                                             \
        (g_k0 <= (run) / 2 && g_k1 <= (run) / 2 && (run) == 138 * g_k0 + g_r0 && 1 <= g_r0 && g_r0 <= 138 && \
         ((run) == 1 ? (g_k1 == 0 && g_r1 == 0) : ((run) - 1 == 6 * g_k1 + g_r1 && 1 <= g_r1 && g_r1 <= 6)))
static inline uint32_t
spec_rl_n(uint32_t v, uint32_t run, uint32_t k0, uint32_t r0, uint32_t k1, uint32_t r1)
{
        return v == 0 ? k0 + (r0 == 2 ? 2u : 1u) : (run == 1 ? 1u : 1u + k1 + (r1 == 2 ? 2u : 1u));
}
static inline uint32_t
spec_rl_code(uint32_t v, uint32_t run, uint32_t k0, uint32_t r0, uint32_t k1, uint32_t r1, uint32_t i)
{
        return v == 0 ? (i < k0 ? 18u : r0 > 10 ? 18u : r0 > 2 ? 17u : 0u)
                      : (i == 0 ? v : i <= k1 ? 16u : r1 >= 3 ? 16u : v);
}
static inline uint32_t
spec_rl_extra(uint32_t v, uint32_t run, uint32_t k0, uint32_t r0, uint32_t k1, uint32_t r1, uint32_t i)
{
        return v == 0 ? (i < k0 ? 127u : r0 > 10 ? r0 - 11 : r0 > 2 ? r0 - 3 : 0u)
                      : (i == 0 ? 0u : i <= k1 ? 3u : r1 >= 3 ? r1 - 3 : 0u);
}
/* prefix sums of the expansion: P(i) = number of code lengths produced by entries 0..i-1 */
static inline uint32_t
spec_rl_P(uint32_t v, uint32_t run, uint32_t k0, uint32_t r0, uint32_t k1, uint32_t r1, uint32_t i)
{
        return v == 0 ? (i <= k0 ? 138 * i : (i == k0 + 1 && r0 == 2) ? 138 * k0 + 1 : run)
                      : (i == 0 ? 0u : i <= k1 + 1 ? 1 + 6 * (i - 1) : (i == k1 + 2 && r1 == 2) ? 6 * k1 + 2 : run);
}
/* histogram of the emitted symbols */
static inline uint32_t
spec_rl_count(uint32_t v, uint32_t run, uint32_t k0, uint32_t r0, uint32_t k1, uint32_t r1, uint32_t c)
{
        return v == 0 ? (c == 18 ? k0 + (r0 > 10 ? 1u : 0u)
                                 : c == 17 ? ((r0 > 2 && r0 <= 10) ? 1u : 0u) : c == 0 ? (r0 == 1 ? 1u : r0 == 2 ? 2u : 0u) : 0u)
                      : (c == v    ? 1u + (run == 1 ? 0u : r1 == 1 ? 1u : r1 == 2 ? 2u : 0u)
                         : c == 16 ? (run == 1 ? 0u : k1 + (r1 >= 3 ? 1u : 0u))
                                   : 0u);
}
#define RL_ARGS(v, run) (v), (run), g_k0, g_r0, g_k1, g_r1
extern uint32_t g_c, g_n; /* ghost code-length symbol 0..18; ghost copy of the number of entries */
#ifndef RL_MAXRUN
#define RL_MAXRUN 0x7fffffffu
#endif
#define RL_N spec_rl_n(RL_ARGS(last_len, run_len))
/* the two cases are proved by separate harnesses (-DRL_ONLY_ZERO / -DRL_ONLY_NONZERO) to keep each small */
#if defined(RL_ONLY_ZERO)
#define RL_CASE (last_len == 0)
#elif defined(RL_ONLY_NONZERO)
#define RL_CASE (last_len != 0)
#else
#define RL_CASE 1
#endif
#ifndef RL_ENCODE_LOOP
#define C_write_rl                                                                                 \
        __CPROVER_requires(last_len <= 15 && 1 <= run_len && run_len <= RL_MAXRUN && RL_DECOMP(run_len) && RL_CASE) \
        __CPROVER_requires(__CPROVER_is_fresh(pout, RL_N * sizeof(struct rl_code)))                \
        __CPROVER_requires(__CPROVER_is_fresh(counts, 19 * sizeof(uint64_t)))                      \
        __CPROVER_requires(g_c < 19 && g_n == RL_N)                                                \
        __CPROVER_assigns(__CPROVER_object_upto(pout, g_n * sizeof(struct rl_code)),               \
                          __CPROVER_object_whole(counts))                                          \
        __CPROVER_ensures(__CPROVER_return_value == pout + RL_N)                                   \
        __CPROVER_ensures(g_k < RL_N ==> (pout[g_k].code == spec_rl_code(RL_ARGS(last_len, run_len), g_k) && \
                                          pout[g_k].extra_bits == spec_rl_extra(RL_ARGS(last_len, run_len), g_k))) \
        __CPROVER_ensures(counts[g_c] == __CPROVER_old(counts[g_c]) + spec_rl_count(RL_ARGS(last_len, run_len), g_c))
/* j = entries written so far = (pout - entry)/2 */
#define RL_J ((__CPROVER_POINTER_OFFSET(pout) - __CPROVER_POINTER_OFFSET(__CPROVER_loop_entry(pout))) / 2)
#define L_write_rl_1                                                                               \
        __CPROVER_assigns(pout, run_len, __CPROVER_object_whole(pout), counts[18])                 \
        __CPROVER_loop_invariant(__CPROVER_same_object(pout, __CPROVER_loop_entry(pout)) &&        \
                                 __CPROVER_POINTER_OFFSET(pout) >= __CPROVER_POINTER_OFFSET(__CPROVER_loop_entry(pout)) && \
                                 ((__CPROVER_POINTER_OFFSET(pout) - __CPROVER_POINTER_OFFSET(__CPROVER_loop_entry(pout))) & 1) == 0 && \
                                 1 <= run_len && run_len <= __CPROVER_loop_entry(run_len) &&       \
                                 run_len + 138 * RL_J == __CPROVER_loop_entry(run_len) &&          \
                                 counts[18] == __CPROVER_loop_entry(counts[18]) + RL_J &&          \
                                 (g_k < RL_J ==> (__CPROVER_loop_entry(pout)[g_k].code == 18 &&    \
                                                  __CPROVER_loop_entry(pout)[g_k].extra_bits == 127))) \
        __CPROVER_decreases(run_len)
#if !defined(RL_ONLY_NONZERO) && !defined(RL_NO_HOOKS)
#define H_write_rl_1 VCANARY();
#endif
#define L_write_rl_2                                                                               \
        __CPROVER_assigns(pout, run_len, __CPROVER_object_whole(pout), counts[16])                 \
        __CPROVER_loop_invariant(__CPROVER_same_object(pout, __CPROVER_loop_entry(pout)) &&        \
                                 __CPROVER_POINTER_OFFSET(pout) >= __CPROVER_POINTER_OFFSET(__CPROVER_loop_entry(pout)) && \
                                 ((__CPROVER_POINTER_OFFSET(pout) - __CPROVER_POINTER_OFFSET(__CPROVER_loop_entry(pout))) & 1) == 0 && \
                                 1 <= run_len && run_len <= __CPROVER_loop_entry(run_len) &&       \
                                 run_len + 6 * RL_J == __CPROVER_loop_entry(run_len) &&            \
                                 counts[16] == __CPROVER_loop_entry(counts[16]) + RL_J &&          \
                                 (g_k >= 1 && g_k - 1 < RL_J ==>                                   \
                                  (__CPROVER_loop_entry(pout)[g_k - 1].code == 16 &&               \
                                   __CPROVER_loop_entry(pout)[g_k - 1].extra_bits == 3)))          \
        __CPROVER_decreases(run_len)
#if !defined(RL_ONLY_ZERO) && !defined(RL_NO_HOOKS)
#define H_write_rl_2 VCANARY();
#endif
#else /* RL_ENCODE_LOOP: rl_encode is the function under contract (loop contract, any num_codes <= 316) */
/* rl_encode by loop contract.  write_rl is replaced by a BLOCK stub: what one call emits is the subject of the
 * write_rl harnesses (exact greedy coding) and of the lemma spec_rl_valid (that coding is RFC-valid and expands to
 * exactly run_len copies of last_len, self-contained: a non-zero block starts with the literal length).  Here the
 * stub only does the bookkeeping that makes "the blocks tile the input in order" a checked statement:
 *   requires (checked at both call sites): last_len <= 15, run_len >= 1, the block starts where the previous one
 *            ended (pout == w_next) and has room for run_len entries;
 *   effect:  w_cov += run_len (input positions covered so far); w_next = returned end of the block (1..run_len
 *            entries further); if the ghost input position g_p lies in [old w_cov, old w_cov + run_len) the call is
 *            recorded: segment [w_seg_s, w_seg_e), value w_seg_v, start of its block w_seg_out, w_seg_hit++.
 * Proved for rl_encode: the calls cover [0, num_codes) without gap or overlap (w_cov runs from 0 to num_codes and
 * equals i - run_len in the loop), the blocks are consecutive in `out` and the return value is their total
 * length; every input position g_p is inside exactly one segment, the block for that segment was produced
 * with last_len == codes[g_p] and run_len == segment length, and EVERY position g_q of the segment holds that
 * value.  Together with write_rl / spec_rl_valid: the expansion of out[0..ret) is codes[0..num_codes). */
extern uint32_t g_p, g_q, w_cov, w_seg_s, w_seg_e, w_seg_v, w_seg_hit;
extern struct rl_code *w_next, *w_seg_out;
#define RLE_HIT (__CPROVER_old(w_cov) <= g_p && g_p < __CPROVER_old(w_cov) + run_len)
#define C_write_rl                                                                                 \
        __CPROVER_requires(last_len <= 15 && 1 <= run_len && run_len <= 316 && pout == w_next)     \
        __CPROVER_requires(__CPROVER_w_ok(pout, run_len * sizeof(struct rl_code)) && __CPROVER_w_ok(counts, 19 * 8)) \
        /* the entries written are not modelled here (no statement of this harness reads them; a havoc through the    \
         * loop-havocked pout fans out over every object and exhausts memory) */                   \
        __CPROVER_assigns(__CPROVER_object_whole(counts), w_cov, w_next, w_seg_s, w_seg_e, w_seg_v, \
                          w_seg_hit, w_seg_out)                                                    \
        __CPROVER_ensures(__CPROVER_return_value == w_next && __CPROVER_same_object(w_next, pout) && \
                          __CPROVER_POINTER_OFFSET(w_next) >= __CPROVER_POINTER_OFFSET(pout) + 2 && \
                          __CPROVER_POINTER_OFFSET(w_next) <= __CPROVER_POINTER_OFFSET(pout) + 2 * run_len && \
                          (__CPROVER_POINTER_OFFSET(w_next) & 1) == (__CPROVER_POINTER_OFFSET(pout) & 1)) \
        __CPROVER_ensures(w_cov == __CPROVER_old(w_cov) + run_len)                                 \
        __CPROVER_ensures(RLE_HIT ==> (w_seg_s == __CPROVER_old(w_cov) && w_seg_e == w_cov && w_seg_v == last_len && \
                                       w_seg_out == pout && w_seg_hit == __CPROVER_old(w_seg_hit) + 1)) \
        __CPROVER_ensures(!RLE_HIT ==> (w_seg_s == __CPROVER_old(w_seg_s) && w_seg_e == __CPROVER_old(w_seg_e) && \
                                        w_seg_v == __CPROVER_old(w_seg_v) && w_seg_out == __CPROVER_old(w_seg_out) && \
                                        w_seg_hit == __CPROVER_old(w_seg_hit)))
#define RLE_OFF(p) __CPROVER_POINTER_OFFSET(p)
#define RLE_SEG_OK                                                                                 \
        (w_seg_hit == 1 && w_seg_s <= g_p && g_p < w_seg_e && w_seg_e <= num_codes && w_seg_v == codes[g_p] && \
         ((w_seg_s <= g_q && g_q < w_seg_e) ==> codes[g_q] == w_seg_v) &&                          \
         __CPROVER_same_object(w_seg_out, out) && RLE_OFF(w_seg_out) - RLE_OFF(out) <= 2 * (size_t) w_seg_s)
#define C_rl_encode                                                                                \
        __CPROVER_requires(1 <= num_codes && num_codes <= 316 && g_p < num_codes && g_q < num_codes) \
        __CPROVER_requires(__CPROVER_is_fresh(codes, 316 * sizeof(uint16_t)))                      \
        __CPROVER_requires(__CPROVER_forall {                                                      \
                unsigned q_;                                                                       \
                (q_ < 316) ==> codes[q_] <= 15                                                     \
        })                                                                                         \
        __CPROVER_requires(__CPROVER_is_fresh(counts, 19 * sizeof(uint64_t)))                      \
        __CPROVER_requires(__CPROVER_is_fresh(out, 316 * sizeof(struct rl_code)))                  \
        __CPROVER_requires(w_cov == 0 && w_seg_hit == 0) /* w_next = out: E_ hook (ghost pointers are set by assignment) */ \
        __CPROVER_assigns(__CPROVER_object_whole(out), __CPROVER_object_whole(counts), w_cov, w_next, w_seg_s, w_seg_e, \
                          w_seg_v, w_seg_hit, w_seg_out)                                           \
        __CPROVER_ensures(w_cov == num_codes && RLE_SEG_OK)                                        \
        __CPROVER_ensures(__CPROVER_same_object(w_next, out) &&                                    \
                          2 * (size_t) __CPROVER_return_value == RLE_OFF(w_next) - RLE_OFF(out) && \
                          1 <= __CPROVER_return_value && __CPROVER_return_value <= num_codes)
#define L_rl_encode_1                                                                              \
        __CPROVER_assigns(i, run_len, last_len, len, pout, __CPROVER_object_whole(out), __CPROVER_object_whole(counts), \
                          w_cov, w_next, w_seg_s, w_seg_e, w_seg_v, w_seg_hit, w_seg_out)          \
        __CPROVER_loop_invariant(1 <= i && i <= num_codes && 1 <= run_len && run_len <= i && w_cov == i - run_len && \
                                 last_len == codes[i - 1] &&                                       \
                                 ((i - run_len <= g_q && g_q < i) ==> codes[g_q] == last_len) &&   \
                                 ((i - run_len <= g_p && g_p < i) ==> codes[g_p] == last_len) &&   \
                                 pout == w_next && __CPROVER_same_object(pout, out) &&             \
                                 RLE_OFF(pout) >= RLE_OFF(out) && RLE_OFF(pout) - RLE_OFF(out) <= 2 * (size_t) w_cov && \
                                 ((RLE_OFF(pout) - RLE_OFF(out)) & 1) == 0 &&                      \
                                 (w_cov > 0 ==> RLE_OFF(pout) - RLE_OFF(out) >= 2) &&              \
                                 (g_p < w_cov ==> RLE_SEG_OK) && (g_p >= w_cov ==> w_seg_hit == 0)) \
        __CPROVER_decreases(num_codes - i)
#define H_rl_encode_1 VCANARY();
#define E_rl_encode w_next = out;
#endif /* RL_ENCODE_LOOP */


/* ------------------------------------------------------------------------------------------------
 * Packed level-0 tables and the ICF length expansion against the RFC tables.  These discharge the
 * "well-formed packed entry" preconditions of get_len_code / get_dist_code (huffman.h) and tie the ICF
 * length token 254+length (get_len_icf_code) to the RFC length symbol.
 *   create_packed_len_table : for every length 3..258 (ghost g_L), sym = RFC symbol of the length:
 *        packed_table[length-3] == ((code[sym] | extra_val(length) << len[sym]) << 5) | (len[sym] + extra_bits[sym])
 *   create_packed_dist_table: the same for every distance 1..length (ghost g_D) and the distance alphabet
 *   expand_hufftables_icf   : lit_len_table[254+length] == (code[sym] | extra_val(length) << len[sym],
 *        len[sym] + extra_bits[sym]) for every length 3..258; entries below 265 unchanged; dist_table[30] cleared
 * The code walks the alphabets with running extra-bit counters (264/+4, 3/+2); the loop invariants tie
 * those counters to rfc_len_extra / rfc_dist_extra and the write position to rfc_*_base.
 * ---------------------------------------------------------------------------------------------- */
extern uint32_t g_L, g_D, g_U; /* ghost length 3..258, ghost distance, ghost unchanged-entry index */
extern uint32_t g_pexp; /* expected packed entry at the ghost position (loop invariants may not call the spec functions) */
#define PK_LSYM rfc_len_sym(g_L)
#define PK_LENT(L) ((L) >= 3 && (L) <= 258 ? (L) - 3 : 0)
#define PK_LEN_OK(idx)                                                                             \
        (packed_table[idx] ==                                                                      \
         spec_pack_code(lit_len_hufftable[rfc_len_sym((idx) + 3)].code, lit_len_hufftable[rfc_len_sym((idx) + 3)].length, \
                        rfc_len_extra_val((idx) + 3), rfc_len_extra_bits(rfc_len_sym((idx) + 3))))
#define C_create_packed_len_table                                                                  \
        __CPROVER_requires(__CPROVER_is_fresh(packed_table, 256 * sizeof(uint32_t)))               \
        __CPROVER_requires(__CPROVER_is_fresh(lit_len_hufftable, 286 * sizeof(struct huff_code)))  \
        __CPROVER_requires(3 <= g_L && g_L <= 258)                                                 \
        __CPROVER_requires(__CPROVER_forall {                                                      \
                unsigned q_;                                                                       \
                (q_ < 286) ==> lit_len_hufftable[q_].length <= 15                                  \
        })                                                                                         \
        __CPROVER_requires(g_pexp == spec_pack_code(lit_len_hufftable[PK_LSYM].code, lit_len_hufftable[PK_LSYM].length, \
                                                    rfc_len_extra_val(g_L), rfc_len_extra_bits(PK_LSYM))) \
        __CPROVER_assigns(__CPROVER_object_whole(packed_table))                                    \
        __CPROVER_ensures(PK_LEN_OK(g_L - 3))
/* the 2^extra entries of symbol i start at rfc_len_base[i-257]-3 */
#define PKL_I (i >= 257 && i <= 284 ? i - 257 : 0)
#define L_create_packed_len_table_1                                                                \
        __CPROVER_assigns(i, count, extra_bits, extra_bits_count, gain_extra_bits, __CPROVER_object_whole(packed_table)) \
        __CPROVER_loop_invariant(257 <= i && i <= 285 && extra_bits_count <= 6 &&                  \
                                 gain_extra_bits == 264 + 4 * extra_bits_count &&                  \
                                 (i <= 284 ==> (extra_bits_count == rfc_len_extra[PKL_I] && count == rfc_len_base[PKL_I] - 3)) && \
                                 (i == 285 ==> count == 255) &&                                    \
                                 (g_L - 3 < (uint32_t) count ==> packed_table[g_L - 3] == g_pexp))              \
        __CPROVER_decreases(285 - i)
#define L_create_packed_len_table_2                                                                \
        __CPROVER_assigns(count, extra_bits, __CPROVER_object_whole(packed_table))                 \
        __CPROVER_loop_invariant(257 <= i && i <= 284 && extra_bits <= (1 << extra_bits_count) &&  \
                                 extra_bits_count == rfc_len_extra[PKL_I] &&                       \
                                 count == rfc_len_base[PKL_I] - 3 + extra_bits && count <= 255 &&  \
                                 (g_L - 3 < (uint32_t) count ==> packed_table[g_L - 3] == g_pexp))              \
        __CPROVER_decreases((1 << extra_bits_count) - extra_bits)
#define H_create_packed_len_table_1 VCANARY();
#define H_create_packed_len_table_2 VCANARY();

#define PK_DIST_OK(idx)                                                                            \
        (packed_table[idx] ==                                                                      \
         spec_pack_code(dist_hufftable[rfc_dist_sym((idx) + 1)].code, dist_hufftable[rfc_dist_sym((idx) + 1)].length, \
                        rfc_dist_extra_val((idx) + 1), rfc_dist_extra_bits(rfc_dist_sym((idx) + 1))))
#ifndef PK_MAXLEN
#define PK_MAXLEN 8192 /* IGZIP_DIST_TABLE_SIZE of the LONGER_HUFFTABLE build; 11 extra bits + 15 + 5 <= 31 */
#endif
#define C_create_packed_dist_table                                                                 \
        __CPROVER_requires(1 <= length && length <= PK_MAXLEN)                                     \
        __CPROVER_requires(__CPROVER_is_fresh(packed_table, length * sizeof(uint32_t)))            \
        __CPROVER_requires(__CPROVER_is_fresh(dist_hufftable, 30 * sizeof(struct huff_code)))      \
        __CPROVER_requires(1 <= g_D && g_D <= length)                                              \
        __CPROVER_requires(__CPROVER_forall {                                                      \
                unsigned q_;                                                                       \
                (q_ < 30) ==> dist_hufftable[q_].length <= 15                                      \
        })                                                                                         \
        __CPROVER_requires(g_pexp == spec_pack_code(dist_hufftable[rfc_dist_sym(g_D)].code,        \
                                                    dist_hufftable[rfc_dist_sym(g_D)].length, rfc_dist_extra_val(g_D), \
                                                    rfc_dist_extra_bits(rfc_dist_sym(g_D))))       \
        __CPROVER_assigns(__CPROVER_object_whole(packed_table))                                    \
        __CPROVER_ensures(PK_DIST_OK(g_D - 1))
#define PKD_I (i >= 0 && i <= 29 ? i : 0)
#define L_create_packed_dist_table_1                                                               \
        __CPROVER_assigns(i, count, extra_bits, extra_bits_count, gain_extra_bits, __CPROVER_object_whole(packed_table)) \
        __CPROVER_loop_invariant(0 <= i && i <= 30 && extra_bits_count <= 14 &&                    \
                                 gain_extra_bits == 3 + 2 * extra_bits_count &&                    \
                                 (i <= 29 ==> (extra_bits_count == rfc_dist_extra[PKD_I] && count == rfc_dist_base[PKD_I] - 1)) && \
                                 (i == 30 ==> count == 32768) &&                                   \
                                 0 <= count && (uint32_t) count <= length &&                       \
                                 (g_D - 1 < (uint32_t) count ==> packed_table[g_D - 1] == g_pexp))             \
        __CPROVER_decreases(30 - i)
#define L_create_packed_dist_table_2                                                               \
        __CPROVER_assigns(count, extra_bits, __CPROVER_object_whole(packed_table))                 \
        __CPROVER_loop_invariant(0 <= i && i <= 29 && extra_bits <= (1 << extra_bits_count) &&     \
                                 extra_bits_count == rfc_dist_extra[PKD_I] &&                      \
                                 count == rfc_dist_base[PKD_I] - 1 + extra_bits && (uint32_t) count <= length && \
                                 (g_D - 1 < (uint32_t) count ==> packed_table[g_D - 1] == g_pexp))             \
        __CPROVER_decreases((1 << extra_bits_count) - extra_bits)
#define H_create_packed_dist_table_1 VCANARY();
#define H_create_packed_dist_table_2 VCANARY();

/* ------------------------------------------------------------------------------------------------
 * create_hufftables_icf: FRAME contract (C15: no library global is written, in particular not the
 * non-const `static_hufftables`; C05 for the glue).  All callees are replaced by frame-only contracts
 * (ASSUMED; init_heap32/gen_huff_code_lens end in the NASM heap routines): each may write exactly the
 * objects it is handed.  What is proved: create_hufftables_icf itself (its three loops, the memcpy's, the
 * choice between dynamic and static tables) writes only *bb, the output bytes, *hufftables and *hist, and
 * hands its callees only those objects and its own locals.
 * ---------------------------------------------------------------------------------------------- */
#define C_init_heap32                                                                              \
        __CPROVER_requires(__CPROVER_w_ok(heap_space, sizeof(*heap_space)) && __CPROVER_r_ok(histogram, hist_size * 4)) \
        __CPROVER_assigns(__CPROVER_object_upto((uint8_t *) heap_space, sizeof(struct heap_tree))) \
        __CPROVER_ensures(1)
#define C_gen_huff_code_lens                                                                       \
        __CPROVER_requires(__CPROVER_w_ok(heap_space, sizeof(*heap_space)) && max_code_len <= 15 && \
                           __CPROVER_w_ok(bl_count, 16 * 4) && codes_count <= 513 &&               \
                           __CPROVER_w_ok(codes, codes_count * sizeof(struct huff_code)))          \
        __CPROVER_assigns(__CPROVER_object_upto((uint8_t *) heap_space, sizeof(struct heap_tree)), \
                          __CPROVER_object_upto((uint8_t *) bl_count, 16 * 4),                     \
                          __CPROVER_object_upto((uint8_t *) codes, codes_count * sizeof(struct huff_code))) \
        __CPROVER_ensures(1)
#define C_set_huff_codes                                                                           \
        __CPROVER_requires(0 < table_length && table_length <= 513 &&                              \
                           __CPROVER_w_ok(huff_code_table, table_length * sizeof(struct huff_code)) && \
                           __CPROVER_r_ok(count, 16 * 4))                                          \
        __CPROVER_assigns(__CPROVER_object_upto((uint8_t *) huff_code_table, table_length * sizeof(struct huff_code))) \
        /* ASSUMED: a symbol with a non-zero count gets a code -- EOB (256) is forced to count >= 1 by the caller */ \
        __CPROVER_ensures(__CPROVER_return_value < (uint32_t) table_length &&                      \
                          (table_length == 286 ==> __CPROVER_return_value >= 256))
#define C_set_dist_huff_codes                                                                      \
        __CPROVER_requires(__CPROVER_w_ok(codes, 30 * sizeof(struct huff_code)) && __CPROVER_w_ok(bl_count, 16 * 4)) \
        __CPROVER_assigns(__CPROVER_object_upto((uint8_t *) codes, 30 * sizeof(struct huff_code)), bl_count[0]) \
        /* ASSUMED: the heap always holds at least two symbols (init_heap32), so symbol 1 or higher has a code */ \
        __CPROVER_ensures(1 <= __CPROVER_return_value && __CPROVER_return_value < 30)
#ifndef RL_ENCODE_LOOP
#define C_rl_encode                                                                                \
        __CPROVER_requires(1 <= num_codes && num_codes <= 316 && __CPROVER_r_ok(codes, num_codes * 2) && \
                           __CPROVER_w_ok(counts, 19 * 8) && __CPROVER_w_ok(out, 316 * sizeof(struct rl_code))) \
        __CPROVER_assigns(__CPROVER_object_upto((uint8_t *) counts, 19 * 8),                       \
                          __CPROVER_object_upto((uint8_t *) out, 316 * sizeof(struct rl_code)))    \
        __CPROVER_ensures(__CPROVER_return_value <= 316)
#endif
#define C_create_header                                                                            \
        __CPROVER_requires(__CPROVER_w_ok(header_bitbuf, sizeof(*header_bitbuf)) && length <= 316 && \
                           __CPROVER_r_ok(huffman_rep, 316 * sizeof(struct rl_code)) &&            \
                           __CPROVER_r_ok(histogram, 19 * 8) && hlit <= 29 && hdist <= 29)         \
        __CPROVER_assigns(__CPROVER_object_upto((uint8_t *) header_bitbuf, sizeof(struct BitBuf2)), \
                          __CPROVER_object_whole(header_bitbuf->m_out_start))                      \
        __CPROVER_ensures(header_bitbuf->m_out_start == __CPROVER_old(header_bitbuf->m_out_start) && \
                          header_bitbuf->m_out_end == __CPROVER_old(header_bitbuf->m_out_end) &&   \
                          __CPROVER_same_object(header_bitbuf->m_out_buf, header_bitbuf->m_out_start) && \
                          __CPROVER_POINTER_OFFSET(header_bitbuf->m_out_buf) + 8 <= g_osz && header_bitbuf->m_bit_count <= 7)
/* expand_hufftables_icf: full contract (enforced by harness expand_hufftables_icf; its frame is what
 * create_hufftables_icf_frame uses).  g_ocode/g_olen: code and length of the RFC symbol of g_L on entry. */
extern uint32_t g_ocode, g_olen;
#define EX_SYM rfc_len_sym(g_L)
#ifdef EXPAND_FRAME_ONLY
#define C_expand_hufftables_icf                                                                    \
        __CPROVER_requires(__CPROVER_w_ok(hufftables, sizeof(*hufftables)))                        \
        __CPROVER_assigns(__CPROVER_object_upto((uint8_t *) hufftables, sizeof(struct hufftables_icf))) \
        __CPROVER_ensures(1)
#else
#define C_expand_hufftables_icf                                                                    \
        __CPROVER_requires(__CPROVER_w_ok(hufftables, sizeof(*hufftables)))                        \
        __CPROVER_requires(3 <= g_L && g_L <= 258 && g_U < 265)                                    \
        __CPROVER_requires(__CPROVER_forall {                                                      \
                unsigned q_;                                                                       \
                (q_ < 21) ==> hufftables->lit_len_table[265 + q_].length <= 15                     \
        })                                                                                         \
        /* entry of the RFC symbol on entry: 16-bit code, nothing in the extra-bits byte (set_huff_codes output) */ \
        __CPROVER_requires(g_ocode == hufftables->lit_len_table[EX_SYM].code &&                    \
                           g_ocode == hufftables->lit_len_table[EX_SYM].code_and_extra &&          \
                           g_olen == hufftables->lit_len_table[EX_SYM].length)                     \
        __CPROVER_assigns(__CPROVER_object_upto((uint8_t *) hufftables, sizeof(struct hufftables_icf))) \
        __CPROVER_ensures(g_L >= 11 ==>                                                            \
                          (hufftables->lit_len_table[254 + g_L].code_and_extra ==                  \
                                   (g_ocode | (rfc_len_extra_val(g_L) << g_olen)) &&               \
                           hufftables->lit_len_table[254 + g_L].length == g_olen + rfc_len_extra_bits(EX_SYM))) \
        __CPROVER_ensures(hufftables->lit_len_table[g_U].code_and_length ==                        \
                          __CPROVER_old(hufftables->lit_len_table[g_U].code_and_length))           \
        __CPROVER_ensures(hufftables->dist_table[30].code_and_extra == 0 && hufftables->dist_table[30].length == 0)
#endif
extern uint64_t g_osz; /* ghost: size of the output object behind bb */
#define C_create_hufftables_icf                                                                    \
        __CPROVER_requires(__CPROVER_is_fresh(bb, sizeof(*bb)))                                    \
        __CPROVER_requires(__CPROVER_is_fresh(hufftables, sizeof(*hufftables)))                    \
        __CPROVER_requires(__CPROVER_is_fresh(hist, sizeof(*hist)))                                \
        __CPROVER_requires(16 <= g_osz && g_osz <= 0x100000 && __CPROVER_is_fresh(bb->m_out_start, g_osz)) \
        __CPROVER_requires(bb->m_out_end == bb->m_out_start + (g_osz - 8) &&                       \
                           __CPROVER_same_object(bb->m_out_buf, bb->m_out_start) &&                \
                           __CPROVER_POINTER_OFFSET(bb->m_out_buf) + 8 <= g_osz && bb->m_bit_count <= 7 && \
                           (bb->m_bits >> bb->m_bit_count) == 0)                                   \
        __CPROVER_assigns(__CPROVER_object_whole(bb), __CPROVER_object_whole(bb->m_out_start),     \
                          __CPROVER_object_whole(hufftables), __CPROVER_object_whole(hist))        \
        __CPROVER_ensures(hist->ll_hist[256] != 0)
#define L_create_hufftables_icf_1                                                                  \
        __CPROVER_assigns(i, compressed_len, static_compressed_len, __CPROVER_object_whole(combined_table)) \
        __CPROVER_loop_invariant(0 <= i && i <= 257)                                               \
        __CPROVER_decreases(257 - i)
#define L_create_hufftables_icf_2                                                                  \
        __CPROVER_assigns(i, compressed_len, static_compressed_len, __CPROVER_object_whole(combined_table)) \
        __CPROVER_loop_invariant(257 <= i && i <= 286 && (uint32_t) i <= max_ll_code + 1)          \
        __CPROVER_decreases(286 - i)
#define L_create_hufftables_icf_3                                                                  \
        __CPROVER_assigns(i, compressed_len, static_compressed_len, __CPROVER_object_whole(combined_table)) \
        __CPROVER_loop_invariant(0 <= i && i <= 30 && (uint32_t) i <= max_d_code + 1)              \
        __CPROVER_decreases(30 - i)


#ifdef HUFF_HDR
/* ------------------------------------------------------------------------------------------------
 * create_huffman_header / create_header (C18): layout of the dynamic block header, RFC 1951 3.2.7.
 * write_bits is redirected (macro in harness/igzip/huff_c_hdr.c) to the RECORDING MODEL hh_write_bits:
 * it checks that the value fits its bit count and that the count fits the bit buffer, advances the
 * logical position of the bit buffer (out_buf / bit_count exactly as write_bits+flush_bits do) without
 * storing bytes, and records (value, count) of the calls the contract talks about.  That write_bits
 * appends exactly value[0..count) to the bit string is the bit-writer contract of the deflate-frame family.
 * Proved for create_huffman_header (all of it by loop contract, any number of run-length symbols <= 316):
 *   call 0: 20 bits = BFINAL (end_of_block != 0) | BTYPE=10 | HLIT (5) | HDIST (5) | HCLEN (4) |
 *           length of code-length code 16 (3)        -- the first entry of the 16,17,18,0,8,... order
 *   call 1: 3*(hclen+3) bits: 3-bit group j (ghost g_j) = length of code-length code order[j+1]; together
 *           with call 0 that is HCLEN+4 lengths in the RFC order
 *   then per run-length symbol i (ghost g_ri), in sequence: its code-length code (code, length), and iff the
 *           symbol is 16/17/18 a second call with its extra_bits in 2/3/7 bits; no other call
 *   return value = total number of bits handed to write_bits.
 * ---------------------------------------------------------------------------------------------- */
extern uint32_t w_wb_calls, w_wb_bits, w_wb_cnt0, w_wb_cnt1, w_cur, w_sub, w_r_n, w_r_cnt, w_r_xcnt;
extern uint64_t w_wb_code0, w_wb_code1, w_r_code, w_r_xcode, g_bits0;
extern uint32_t g_j, g_ri;
static const uint8_t rfc_cl_order[19] = { 16, 17, 18, 0, 8, 7, 9, 6, 10, 5, 11, 4, 12, 3, 13, 2, 14, 1, 15 };
#define HH_GHOSTS                                                                                  \
        w_wb_calls, w_wb_bits, w_wb_cnt0, w_wb_cnt1, w_cur, w_sub, w_r_n, w_r_cnt, w_r_xcnt, w_wb_code0, w_wb_code1, \
                w_r_code, w_r_xcode
#define HH_BB header_bitbuf
#define HH_POS(bb) (8 * (__CPROVER_POINTER_OFFSET((bb)->m_out_buf) - __CPROVER_POINTER_OFFSET((bb)->m_out_start)) + (bb)->m_bit_count)
#define HH_REP huffman_rep
#define HH_XBITS(c) ((c) == 16 ? 2u : (c) == 17 ? 3u : 7u)
#ifndef HDR_CREATE_HEADER
#define C_create_huffman_header                                                                    \
        __CPROVER_requires(__CPROVER_is_fresh(HH_BB, sizeof(*HH_BB)))                              \
        __CPROVER_requires(__CPROVER_is_fresh(lookup_table, 19 * sizeof(struct huff_code)))        \
        __CPROVER_requires(huffman_rep_length <= 316 && __CPROVER_is_fresh(HH_REP, 316 * sizeof(struct rl_code))) \
        __CPROVER_requires(hclen <= 15 && hlit <= 29 && hdist <= 29 && g_j < hclen + 3 && g_ri < huffman_rep_length) \
        __CPROVER_requires(__CPROVER_forall {                                                      \
                unsigned q_;                                                                       \
                (q_ < 19) ==> (lookup_table[q_].length <= 7 && lookup_table[q_].code < (1u << lookup_table[q_].length)) \
        })                                                                                         \
        __CPROVER_requires(__CPROVER_forall {                                                      \
                unsigned r_;                                                                       \
                (r_ < 316) ==> (HH_REP[r_].code <= 18 && HH_REP[r_].extra_bits < (1u << HH_XBITS(HH_REP[r_].code))) \
        })                                                                                         \
        __CPROVER_requires(__CPROVER_is_fresh(HH_BB->m_out_start, 2048) && HH_BB->m_out_buf == HH_BB->m_out_start && \
                           HH_BB->m_bit_count <= 7 && g_bits0 == HH_BB->m_bit_count)               \
        __CPROVER_requires(w_wb_calls == 0 && w_wb_bits == 0 && w_r_n == 0)                        \
        __CPROVER_assigns(HH_BB->m_out_buf, HH_BB->m_bit_count, HH_BB->m_bits, HH_GHOSTS)          \
        __CPROVER_ensures(w_wb_cnt0 == 20 &&                                                       \
                          w_wb_code0 == ((end_of_block ? 1u : 0u) | (2u << 1) | (hlit << 3) | (hdist << 8) | (hclen << 13) | \
                                         ((uint32_t) lookup_table[rfc_cl_order[0]].length << 17))) \
        __CPROVER_ensures(w_wb_cnt1 == 3 * (hclen + 3) &&                                          \
                          ((w_wb_code1 >> (3 * g_j)) & 7) == lookup_table[rfc_cl_order[g_j + 1]].length && \
                          (w_wb_code1 >> (3 * (hclen + 3))) == 0)                                  \
        __CPROVER_ensures(w_r_n == (HH_REP[g_ri].code > 15 ? 2u : 1u) &&                           \
                          w_r_code == lookup_table[HH_REP[g_ri].code].code &&                      \
                          w_r_cnt == lookup_table[HH_REP[g_ri].code].length)                       \
        __CPROVER_ensures(HH_REP[g_ri].code > 15 ==>                                               \
                          (w_r_xcode == HH_REP[g_ri].extra_bits && w_r_xcnt == HH_XBITS(HH_REP[g_ri].code))) \
        __CPROVER_ensures(w_wb_calls >= 2 + huffman_rep_length && w_wb_calls <= 2 + 2 * (uint32_t) huffman_rep_length) \
        __CPROVER_ensures((uint32_t) __CPROVER_return_value == w_wb_bits && HH_POS(HH_BB) == g_bits0 + w_wb_bits)
/* loop 1 builds the second word from the highest index down: after the iteration for index i the groups of
 * indices i..hclen+3 are in place, index k at bit 3*(k-i) */
#define L_create_huffman_header_1                                                                  \
        __CPROVER_assigns(i, data)                                                                 \
        __CPROVER_loop_invariant(0 <= i && (uint32_t) i <= hclen + 3 &&                            \
                                 (data >> (3 * (hclen + 3 - (uint32_t) i))) == 0 &&                \
                                 ((uint32_t) i <= g_j ==>                                          \
                                  ((data >> (3 * (g_j - (uint32_t) i))) & 7) == lookup_table[rfc_cl_order[g_j + 1]].length)) \
        __CPROVER_decreases(i)
#define H_create_huffman_header_1 VCANARY();
#define L_create_huffman_header_2                                                                  \
        __CPROVER_assigns(i, huffman_value, HH_BB->m_out_buf, HH_BB->m_bit_count, HH_BB->m_bits, w_wb_calls, w_wb_bits, \
                          w_cur, w_sub, w_r_n, w_r_cnt, w_r_xcnt, w_r_code, w_r_xcode)             \
        __CPROVER_loop_invariant(0 <= i && i <= huffman_rep_length &&                              \
                                 w_wb_calls >= 2 + (uint32_t) i && w_wb_calls <= 2 + 2 * (uint32_t) i && \
                                 w_wb_bits <= 20 + 54 + 14 * (uint32_t) i &&                       \
                                 __CPROVER_same_object(HH_BB->m_out_buf, HH_BB->m_out_start) &&    \
                                 HH_BB->m_bit_count <= 7 && HH_POS(HH_BB) == g_bits0 + w_wb_bits && \
                                 ((uint32_t) i <= g_ri ==> w_r_n == 0) &&                          \
                                 ((uint32_t) i > g_ri ==>                                          \
                                  (w_r_n == (HH_REP[g_ri].code > 15 ? 2u : 1u) &&                  \
                                   w_r_code == lookup_table[HH_REP[g_ri].code].code &&             \
                                   w_r_cnt == lookup_table[HH_REP[g_ri].code].length &&            \
                                   (HH_REP[g_ri].code > 15 ==>                                     \
                                    (w_r_xcode == HH_REP[g_ri].extra_bits &&                       \
                                     w_r_xcnt == (HH_REP[g_ri].code == 16 ? 2u : HH_REP[g_ri].code == 17 ? 3u : 7u))))))  \
        __CPROVER_decreases(huffman_rep_length - i)
#define H_create_huffman_header_2                                                                  \
        w_cur = (uint32_t) i;                                                                      \
        w_sub = 0;                                                                                 \
        VCANARY();
#else /* HDR_CREATE_HEADER: create_header is the function under contract */
/* create_header: builds the code-length code (heap routines and canonical assignment: frame-only stubs),
 * determines HCLEN and calls create_huffman_header.  create_huffman_header is replaced by a CHECKING stub
 * whose requires are obligations of the call site:
 *   - hclen <= 15, and every code-length code beyond index hclen+3 of the RFC order has length 0 (ghost index
 *     g_j): dropping them from the header loses nothing -- the decoder assumes 0 for the missing ones;
 *   - hclen is minimal (hclen == 0 or the last transmitted length is non-zero);
 *   - hlit, hdist, end_of_block, the run-length symbols and their number are passed through unchanged.
 * Its return value is an unconstrained ghost (g_hret) that create_header must return. */
extern uint32_t w_ch_hlit, w_ch_hdist, w_ch_eob, w_ch_len, w_ch_calls;
extern struct rl_code *w_ch_rep;
extern struct BitBuf2 *w_ch_bb;
extern int g_hret;
#define C_create_huffman_header                                                                    \
        __CPROVER_requires(hclen <= 15 && g_j < 19)                                                \
        __CPROVER_requires(g_j > hclen + 3 ==> lookup_table[rfc_cl_order[g_j]].length == 0)        \
        __CPROVER_requires(hclen == 0 || lookup_table[rfc_cl_order[hclen + 3]].length != 0)        \
        __CPROVER_assigns(w_ch_hlit, w_ch_hdist, w_ch_eob, w_ch_len, w_ch_calls, w_ch_rep, w_ch_bb) \
        __CPROVER_ensures(w_ch_hlit == hlit && w_ch_hdist == hdist && w_ch_eob == end_of_block &&  \
                          w_ch_len == huffman_rep_length && w_ch_rep == huffman_rep &&             \
                          w_ch_bb == header_bitbuf && w_ch_calls == __CPROVER_old(w_ch_calls) + 1) \
        __CPROVER_ensures(__CPROVER_return_value == g_hret)
#define C_init_heap64                                                                              \
        __CPROVER_requires(__CPROVER_w_ok(heap_space, sizeof(*heap_space)) && __CPROVER_r_ok(histogram, hist_size * 8)) \
        __CPROVER_assigns(__CPROVER_object_upto((uint8_t *) heap_space, sizeof(struct heap_tree))) \
        __CPROVER_ensures(1)
#define C_create_header                                                                            \
        __CPROVER_requires(__CPROVER_is_fresh(header_bitbuf, sizeof(*header_bitbuf)))              \
        __CPROVER_requires(length <= 316 && __CPROVER_is_fresh(huffman_rep, 316 * sizeof(struct rl_code))) \
        __CPROVER_requires(__CPROVER_is_fresh(histogram, 19 * sizeof(uint64_t)))                   \
        __CPROVER_requires(w_ch_calls == 0 && g_j < 19)                                            \
        __CPROVER_assigns(w_ch_hlit, w_ch_hdist, w_ch_eob, w_ch_len, w_ch_calls, w_ch_rep, w_ch_bb) \
        __CPROVER_ensures(w_ch_calls == 1 && w_ch_hlit == hlit && w_ch_hdist == hdist && w_ch_eob == end_of_block && \
                          w_ch_len == length && w_ch_rep == huffman_rep && w_ch_bb == header_bitbuf) \
        __CPROVER_ensures(__CPROVER_return_value == g_hret)
#define L_create_header_1                                                                          \
        __CPROVER_assigns(i)                                                                       \
        __CPROVER_loop_invariant(3 <= i && i <= 18 &&                                              \
                                 ((uint32_t) i < g_j ==> lookup_table[rfc_cl_order[g_j]].length == 0)) \
        __CPROVER_decreases(i)
#define H_create_header_1 VCANARY();
#endif
#endif /* HUFF_HDR */

#endif /* HUFF_WITH_CODES */

#endif
