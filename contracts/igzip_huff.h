/* Contracts for the Huffman-side helpers of the igzip compressor (properties C18, C17, C01):
 *   igzip/huffman.h   bsr, tzbytecnt, compute_dist_code, get_dist_code, get_len_code,
 *                     compute_dist_icf_code, get_dist_icf_code, get_len_icf_code, compare258, compare
 *   igzip/huff_codes.c convert_dist_to_dist_sym, convert_length_to_len_sym, are_hufftables_useable,
 *                     write_rl, rl_encode, set_huff_codes, set_dist_huff_codes, fix_code_lens,
 *                     create_packed_len_table, create_packed_dist_table, expand_hufftables_icf
 *   igzip/igzip.c     isal_deflate_set_hufftables
 * Postconditions are stated against contracts/spec_deflate_rfc.h (RFC 1951 tables typed in from the RFC).
 * C_<fn> is spliced in front of the body of <fn>, L_<fn>_<n> after the header of its n-th loop,
 * H_<fn>_<n> as first statement of that loop's body. */
#ifndef IGZIP_HUFF_H
#define IGZIP_HUFF_H
#include "verif_common.h"
#include "spec_deflate_rfc.h"

/* ------------------------------------------------------------------------------------------------
 * bit scans: mathematical definitions (position of the most significant one / number of zero low bytes)
 * ---------------------------------------------------------------------------------------------- */
#define C_bsr                                                                                      \
        __CPROVER_ensures(val == 0 ? __CPROVER_return_value == 0                                   \
                                   : (__CPROVER_return_value >= 1 && __CPROVER_return_value <= 32 && \
                                      (val >> (__CPROVER_return_value - 1)) == 1))                 \
        __CPROVER_assigns()

#define C_tzbytecnt                                                                                \
        __CPROVER_ensures(val == 0 ? __CPROVER_return_value == 8                                   \
                                   : (__CPROVER_return_value < 8 &&                                \
                                      ((val >> (8 * __CPROVER_return_value)) & 0xff) != 0 &&       \
                                      (__CPROVER_return_value == 0 ||                              \
                                       (val << (64 - 8 * __CPROVER_return_value)) == 0)))          \
        __CPROVER_assigns()

/* ------------------------------------------------------------------------------------------------
 * distance -> (symbol, extra) for the intermediate format: RFC 1951 distance table, full domain
 * ---------------------------------------------------------------------------------------------- */
#define C_get_dist_icf_code                                                                        \
        __CPROVER_requires(1 <= dist && dist <= 32768)                                             \
        __CPROVER_requires(__CPROVER_is_fresh(code, sizeof(*code)))                                \
        __CPROVER_requires(__CPROVER_is_fresh(extra_bits, sizeof(*extra_bits)))                    \
        __CPROVER_assigns(*code, *extra_bits)                                                      \
        __CPROVER_ensures(rfc_dist_sym_encodes(*code, *extra_bits, dist))

#define C_compute_dist_icf_code                                                                    \
        __CPROVER_requires(3 <= dist && dist <= 32768)                                             \
        __CPROVER_requires(__CPROVER_is_fresh(code, sizeof(*code)))                                \
        __CPROVER_requires(__CPROVER_is_fresh(extra_bits, sizeof(*extra_bits)))                    \
        __CPROVER_assigns(*code, *extra_bits)                                                      \
        __CPROVER_ensures(rfc_dist_sym_encodes(*code, *extra_bits, dist))

/* ICF length token = LEN_OFFSET (254) + length, the index into hufftables_icf.lit_len_table after
 * expand_hufftables_icf (format definition in encode_df.h); tied to the RFC by C_expand_hufftables_icf */
#define C_get_len_icf_code                                                                         \
        __CPROVER_requires(3 <= length && length <= 258)                                           \
        __CPROVER_requires(__CPROVER_is_fresh(code, sizeof(*code)))                                \
        __CPROVER_assigns(*code)                                                                   \
        __CPROVER_ensures(*code >= 257 && *code <= 512 && *code - 254 == length)

/* ------------------------------------------------------------------------------------------------
 * level-0 table lookups.  isal_hufftables stores, per igzip_lib.h, "bits 4:0 are the code length,
 * bits 31:5 are the code"; the code of a match component is <Huffman code> followed by the RFC extra
 * bits (LSB-first bit order: extra bits sit above the Huffman code).
 * Well-formedness of a packed entry for value v (symbol s, Huffman code c of n bits):
 *      entry == ((c | extra(v) << n) << 5) | (n + extra_bits(s))
 * ---------------------------------------------------------------------------------------------- */
static inline uint32_t
spec_pack_code(uint32_t huff_code, uint32_t huff_len, uint32_t extra_val, uint32_t extra_bits)
{
        return ((huff_code | (extra_val << huff_len)) << 5) | (huff_len + extra_bits);
}
#define HD_SYM rfc_dist_sym(dist)
#define HD_CODE ((uint32_t) hufftables->dcodes[HD_SYM - IGZIP_DECODE_OFFSET])
#define HD_LEN ((uint32_t) hufftables->dcodes_sizes[HD_SYM - IGZIP_DECODE_OFFSET])

#define C_get_dist_code                                                                            \
        __CPROVER_requires(1 <= dist && dist <= 32768)                                             \
        __CPROVER_requires(__CPROVER_is_fresh(hufftables, sizeof(*hufftables)))                    \
        __CPROVER_requires(__CPROVER_is_fresh(code, sizeof(*code)))                                \
        __CPROVER_requires(__CPROVER_is_fresh(len, sizeof(*len)))                                  \
        __CPROVER_requires(HD_LEN <= 15)                                                           \
        __CPROVER_requires(dist <= IGZIP_DIST_TABLE_SIZE ==>                                       \
                           hufftables->dist_table[dist <= IGZIP_DIST_TABLE_SIZE ? dist - 1 : 0] == \
                                   spec_pack_code(HD_CODE, HD_LEN, rfc_dist_extra_val(dist),       \
                                                  rfc_dist_extra_bits(HD_SYM)))                    \
        __CPROVER_assigns(*code, *len)                                                             \
        __CPROVER_ensures(*len == HD_LEN + rfc_dist_extra_bits(HD_SYM))                            \
        __CPROVER_ensures(*code == (HD_CODE | (rfc_dist_extra_val(dist) << HD_LEN)))

#define C_compute_dist_code                                                                        \
        __CPROVER_requires(IGZIP_DIST_TABLE_SIZE < dist && dist <= 32768)                          \
        __CPROVER_requires(__CPROVER_is_fresh(hufftables, sizeof(*hufftables)))                    \
        __CPROVER_requires(__CPROVER_is_fresh(p_code, sizeof(*p_code)))                            \
        __CPROVER_requires(__CPROVER_is_fresh(p_len, sizeof(*p_len)))                              \
        __CPROVER_requires(HD_LEN <= 15)                                                           \
        __CPROVER_assigns(*p_code, *p_len)                                                         \
        __CPROVER_ensures(*p_len == HD_LEN + rfc_dist_extra_bits(HD_SYM))                          \
        __CPROVER_ensures(*p_code == (HD_CODE | (rfc_dist_extra_val(dist) << HD_LEN)))

/* len_table is the only representation of the length codes inside isal_hufftables, so the Huffman
 * code of the length symbol is a ghost pair (g_lcode, g_llen) */
extern uint32_t g_lcode, g_llen;
#define C_get_len_code                                                                             \
        __CPROVER_requires(3 <= length && length <= 258)                                           \
        __CPROVER_requires(__CPROVER_is_fresh(hufftables, sizeof(*hufftables)))                    \
        __CPROVER_requires(__CPROVER_is_fresh(code, sizeof(*code)))                                \
        __CPROVER_requires(__CPROVER_is_fresh(len, sizeof(*len)))                                  \
        __CPROVER_requires(g_llen <= 15 && g_lcode < (1u << g_llen))                               \
        __CPROVER_requires(hufftables->len_table[length - 3] ==                                    \
                           spec_pack_code(g_lcode, g_llen, rfc_len_extra_val(length),              \
                                          rfc_len_extra_bits(rfc_len_sym(length))))                \
        __CPROVER_assigns(*code, *len)                                                             \
        __CPROVER_ensures(*len == g_llen + rfc_len_extra_bits(rfc_len_sym(length)))                \
        __CPROVER_ensures(*code == (g_lcode | (rfc_len_extra_val(length) << g_llen)))

/* ------------------------------------------------------------------------------------------------
 * compare258 / compare: length of the common prefix, capped.  Ghost index g_k picks an arbitrary
 * position below the result.  CMP_MEM selects how the two readable ranges are provided: fresh
 * (disjoint) objects by default; the *_overlap harnesses define CMP_MEM_OVERLAP and hand in two
 * pointers into one object (the shape of the real call compare258(next_in - dist, next_in, n)).
 * ---------------------------------------------------------------------------------------------- */
extern uint32_t g_k;
extern uint32_t w_ret;
#ifdef CMP_MEM_OVERLAP
#define CMP_MEM(p, n) __CPROVER_r_ok(p, n)
#else
#define CMP_MEM(p, n) __CPROVER_is_fresh(p, n)
#endif
#define CMP_N258 (max_length > 258u ? 258u : max_length)
#define CMP_CONTRACT(N)                                                                            \
        __CPROVER_requires(CMP_MEM(str1, N))                                                       \
        __CPROVER_requires(CMP_MEM(str2, N))                                                       \
        __CPROVER_assigns()                                                                        \
        __CPROVER_ensures((uint32_t) __CPROVER_return_value <= (N))                                \
        __CPROVER_ensures(g_k < (uint32_t) __CPROVER_return_value ==> str1[g_k] == str2[g_k])      \
        __CPROVER_ensures((uint32_t) __CPROVER_return_value < (N) ==>                              \
                          str1[(uint32_t) __CPROVER_return_value] != str2[(uint32_t) __CPROVER_return_value])
#define CMP_LOOP                                                                                   \
        __CPROVER_assigns(count, test, str1, str2)                                                 \
        __CPROVER_loop_invariant(count <= loop_length && (count & 7) == 0 &&                       \
                                 str1 == __CPROVER_loop_entry(str1) + count &&                     \
                                 str2 == __CPROVER_loop_entry(str2) + count &&                     \
                                 (g_k < count ==> __CPROVER_loop_entry(str1)[g_k] ==               \
                                                          __CPROVER_loop_entry(str2)[g_k]))        \
        __CPROVER_decreases(loop_length - count)
#define C_compare258 CMP_CONTRACT(CMP_N258)
#define L_compare258_1 CMP_LOOP
#define H_compare258_1 VCANARY();
#define C_compare CMP_CONTRACT(max_length)
#define L_compare_1 CMP_LOOP
#define H_compare_1 VCANARY();

#endif
