/* Contracts for the portable level 1-3 match finders that emit ICF tokens
 *   igzip/igzip_icf_base.c  isal_deflate_icf_body_hash_hist_base, isal_deflate_icf_finish_hash_hist_base,
 *                           isal_deflate_icf_finish_hash_map_base, isal_deflate_hash_mad_base, update_state
 *   igzip/igzip_icf_body.c  gen_icf_map_h1_base (ICF_MAP part below)
 * (C01 component: every emitted match token is a true match / every literal token is the input byte; C17 distance
 *  inside the window; C05 input reads and ICF writes in bounds; counters).  Same recipe as contracts/igzip_body.h
 * (level 0), whose callee models (contracts/stubs_body.h) are reused:
 *   - input = ONE object g_in, next_in+avail_in at offset g_inend, ISAL_LOOK_AHEAD unreadable slack bytes behind
 *     it (the loop guard forms next_in + ISAL_LOOK_AHEAD), total_in <= offset of next_in (virtual file_start
 *     inside the object);
 *   - stream->level_buf = one object of exactly sizeof(struct level_buf) bytes (the real struct);
 *   - ICF output = ONE object g_icf; icf_buf_next points into it, icf_buf_avail_out (bytes) reaches exactly to
 *     its end (offset g_icfend): a token store at or behind it is an out-of-bounds write AND violates the
 *     E_write_deflate_icf assertion;
 *   - dist_mask <= 32767, hash_mask <= (heads of the table the function uses) - 1;
 *   - WINDOW INVARIANT for every hash head, stated for the ghost head g_h: d = (uint16)(position - head[g_h]) is
 *     0, or > dist_mask, or <= readable bytes in front of next_in.  Required at entry, preserved by every
 *     iteration, ensured at exit.
 * Look-back facts are stated "when the head used by the iteration is g_h" (BD_HIT); g_h is arbitrary.
 * CBMC's pointer-overflow instrumentation is off (see igzip_body.h); dereference/bounds checks are on.
 *
 * STATUS: isal_deflate_hash_mad_base and update_state are PROVED (harness/reg_igzip_icf_body.py).  The contracts of
 * the three bodies below are complete but their solver queries do not finish (> 1000 s per obligation class with z3
 * and cvc5, SAT back ends out of memory): NOTHING is claimed for them.  What was learned about the memory model is
 * written next to IB_LEVEL_BUF and in harness/igzip/icf_body_base.c (histogram redirect). */
#ifndef IGZIP_ICF_BODY_H
#define IGZIP_ICF_BODY_H
#include "verif_common.h"
#include "igzip_lib.h"
#include "stubs_body.h"
/* (no igzip/*.h here: the spliced headers must come after splice_defaults.h; struct level_buf, struct deflate_icf
 * and the ICF constants are only used inside macros that expand in the source file) */

#define IBS stream->internal_state
#define IB_LB ((struct level_buf *) stream->level_buf)
#define IB_OFF(p) __CPROVER_POINTER_OFFSET(p)
#define IB_OLD(e) __CPROVER_old(e)

extern size_t g_insz, g_F, g_off0;
extern uint8_t *g_icf;   /* ICF output object */
extern size_t g_icfend;  /* its size = offset of the end of the space announced by icf_buf_avail_out */
extern size_t g_icf0;    /* offset of icf_buf_next at entry */
extern uint32_t g_dlim;  /* largest distance a token may carry: dist_mask (hash paths), dist_mask + 1 (map path) */
extern int g_cmp;        /* 1: distances/lengths come from a compare258 call of the same iteration */

/* extra emission-site assertions in front of the REAL bodies of the ICF code helpers (their own asserts
 * 3 <= length <= 258, 1 <= dist <= 32768, lit <= 256 are obligations as well) */
#define E_get_len_icf_code                                                                         \
        __CPROVER_assert(!g_cmp || length == w_it.mlen, "emitted match length is the compare258 result of this iteration");
#define E_get_dist_icf_code                                                                        \
        __CPROVER_assert(dist <= g_dlim && g_dlim <= 32768, "emitted distance within the window limit"); \
        __CPROVER_assert(!g_cmp || dist == w_it.dist, "emitted distance is the look-back distance that was compared");
#define E_get_lit_icf_code                                                                         \
        __CPROVER_assert(lit == g_lit, "emitted literal is the byte at next_in");
#define E_write_deflate_icf                                                                        \
        __CPROVER_assert(__CPROVER_same_object(icf, g_icf) && IB_OFF(icf) >= g_icf0 &&             \
                                 IB_OFF(icf) + sizeof(struct deflate_icf) <= g_icfend,             \
                         "token store inside [icf_buf_next, icf_buf_next + icf_buf_avail_out)");
#define E_compute_hash_mad return bd_compute_hash(data);

/* stream->level_buf is raw user memory of AT LEAST sizeof(struct level_buf) bytes (in igzip.c the ICF buffer
 * follows the struct in the same user buffer).  The size is a symbolic ghost scalar on purpose: with a constant
 * size CBMC types the object as struct level_buf and bit-blasts the 83 KB union inside it on every symbolic
 * hash-table access (SAT: out of memory; SMT: one 664 kbit vector); as untyped memory of symbolic size it
 * stays an array for the solver.  Price: an access behind the struct but inside the object is not flagged. */
extern size_t g_lbsz;
#define IB_LEVEL_BUF                                                                               \
        __CPROVER_requires(g_lbsz >= sizeof(struct level_buf) && g_lbsz <= 0x7fffffffu && g_b < g_lbsz && \
                           __CPROVER_is_fresh(stream->level_buf, g_lbsz))

#define IB_D16(off, HEAD) ((uint16_t) ((off) - g_F - (size_t) (HEAD)[g_h]))
#define IB_WIN(off, HEAD)                                                                          \
        (IB_D16(off, HEAD) == 0 || IB_D16(off, HEAD) > g_dmask || IB_D16(off, HEAD) <= (off))

#define IB_PRE_COMMON                                                                              \
        __CPROVER_requires(__CPROVER_is_fresh(stream, sizeof(*stream)))                            \
        IB_LEVEL_BUF                                                                               \
        __CPROVER_requires(g_inend <= 0x7fffffffu && g_insz == g_inend + ISAL_LOOK_AHEAD &&        \
                           __CPROVER_is_fresh(g_in, g_insz))                                       \
        __CPROVER_requires(__CPROVER_pointer_in_range_dfcc(g_in, stream->next_in, g_in + g_inend)) \
        __CPROVER_requires(g_off0 == IB_OFF(stream->next_in) && stream->avail_in == g_inend - g_off0) \
        __CPROVER_requires(stream->total_in <= g_off0 && g_F == g_off0 - stream->total_in)         \
        __CPROVER_requires(g_icfend <= 0x7fffffffu && __CPROVER_is_fresh(g_icf, g_icfend))         \
        __CPROVER_requires(__CPROVER_pointer_in_range_dfcc(g_icf, IB_LB->icf_buf_next, g_icf + g_icfend)) \
        __CPROVER_requires(g_icf0 == IB_OFF(IB_LB->icf_buf_next) && (g_icf0 & 3) == 0 &&           \
                           IB_LB->icf_buf_avail_out == g_icfend - g_icf0)                          \
        __CPROVER_requires(IBS.dist_mask <= 32767 && g_dmask == IBS.dist_mask && g_dlim == g_dmask && g_cmp == 1)

#define IB_PRE(TABLE)                                                                              \
        IB_PRE_COMMON                                                                              \
        __CPROVER_requires(IBS.hash_mask <= sizeof(IB_LB->TABLE) / sizeof(uint16_t) - 1 &&         \
                           g_hmask == IBS.hash_mask && g_h <= g_hmask)                             \
        __CPROVER_requires(IB_WIN(g_off0, IB_LB->TABLE))

/* frame: next_in, avail_in, total_in, has_hist, block_end, state; the ICF buffer; level_buf as a whole object
 * for dfcc (a loop-contract havoc of the 64 KB hash table *inside* the object is bit-blasted: out of memory), made
 * precise again by the ghost byte g_b: every byte of level_buf outside icf_buf_next, icf_buf_avail_out, the
 * histograms and the hash-table union keeps its value (IB_LB_KEPT) */
#define IB_FRAME(TABLE)                                                                            \
        w_it, stream->next_in, stream->avail_in, stream->total_in, IBS.has_hist, IBS.block_end, IBS.state, \
                __CPROVER_object_whole(stream->level_buf), __CPROVER_object_whole(g_icf)

extern size_t g_b; /* ghost byte offset inside level_buf */
#define IB_LB_PROTECTED(b)                                                                         \
        ((b) < __builtin_offsetof(struct level_buf, hist) ||                                       \
         ((b) >= __builtin_offsetof(struct level_buf, deflate_hdr_count) &&                        \
          (b) < __builtin_offsetof(struct level_buf, icf_buf_next)) ||                             \
         ((b) >= __builtin_offsetof(struct level_buf, icf_buf_start) &&                            \
          (b) < __builtin_offsetof(struct level_buf, hash_map)))
#define IB_C (IB_OFF(stream->next_in) - g_off0)                             /* bytes consumed */
#define IB_T ((IB_OFF(IB_LB->icf_buf_next) - g_icf0) / sizeof(struct deflate_icf)) /* tokens produced */
#define IB_CHANGED (IB_OLD(stream->avail_in) != 0)
/* counters.  icf_buf_avail_out: see the note at the end of this file (unit mismatch in update_state) --
 * stated here is only that the space it announces lies inside the buffer */
#define IB_COUNTERS                                                                                \
        __CPROVER_ensures(__CPROVER_same_object(stream->next_in, g_in) && IB_OFF(stream->next_in) >= g_off0 && \
                          IB_OFF(stream->next_in) <= g_inend)                                      \
        __CPROVER_ensures(stream->avail_in == IB_OLD(stream->avail_in) - IB_C &&                   \
                          stream->total_in == (uint32_t) (IB_OLD(stream->total_in) + IB_C))        \
        __CPROVER_ensures(__CPROVER_same_object(IB_LB->icf_buf_next, g_icf) &&                     \
                          IB_OFF(IB_LB->icf_buf_next) >= g_icf0 && IB_OFF(IB_LB->icf_buf_next) <= g_icfend && \
                          ((IB_OFF(IB_LB->icf_buf_next) - g_icf0) & 3) == 0)                       \
        __CPROVER_ensures(IB_OFF(IB_LB->icf_buf_next) + IB_LB->icf_buf_avail_out <= g_icfend)      \
        __CPROVER_ensures(IBS.has_hist == (IB_C > 0 ? IGZIP_HIST : IB_OLD(IBS.has_hist)))          \
        __CPROVER_ensures(IB_C > 0 ==> IBS.block_end == stream->total_in)                          \
        __CPROVER_ensures(IB_C <= IB_T * 258 && IB_T <= IB_C)                                      \
        __CPROVER_ensures(IB_LB_PROTECTED(g_b) ==> stream->level_buf[g_b] == IB_OLD(stream->level_buf[g_b]))

#define IB_FLUSH_REQ (IB_OLD(stream->end_of_stream) || IB_OLD(stream->flush) != NO_FLUSH)
#define IB_ROOM (g_icfend - IB_OFF(IB_LB->icf_buf_next) >= sizeof(struct deflate_icf)) /* room for a token */

/* ---------------------------------------------------------------------------------------------------
 * isal_deflate_icf_body_hash_hist_base
 * ------------------------------------------------------------------------------------------------- */
#define C_isal_deflate_icf_body_hash_hist_base                                                     \
        IB_PRE(hash_hist.hash_table)                                                               \
        __CPROVER_assigns(IB_FRAME(hash_hist.hash_table))                                          \
        __CPROVER_ensures(!IB_CHANGED ==>                                                          \
                          (stream->next_in == IB_OLD(stream->next_in) && stream->avail_in == 0 &&  \
                           stream->total_in == IB_OLD(stream->total_in) &&                         \
                           IB_LB->icf_buf_next == IB_OLD(IB_LB->icf_buf_next) &&                   \
                           IB_LB->icf_buf_avail_out == IB_OLD(IB_LB->icf_buf_avail_out) &&         \
                           IBS.has_hist == IB_OLD(IBS.has_hist) &&                                 \
                           IBS.state == (IB_FLUSH_REQ ? ZSTATE_FLUSH_READ_BUFFER : IB_OLD(IBS.state)))) \
        IB_COUNTERS                                                                                \
        __CPROVER_ensures((IB_CHANGED && stream->avail_in > ISAL_LOOK_AHEAD) ==>                   \
                          (!IB_ROOM && IBS.state == ZSTATE_CREATE_HDR))                            \
        __CPROVER_ensures((IB_CHANGED && IBS.state != ZSTATE_CREATE_HDR) ==>                       \
                          (stream->avail_in <= ISAL_LOOK_AHEAD &&                                  \
                           IBS.state == (IB_FLUSH_REQ ? ZSTATE_FLUSH_READ_BUFFER : IB_OLD(IBS.state)))) \
        __CPROVER_ensures(IB_WIN(IB_OFF(stream->next_in), IB_LB->hash_hist.hash_table))

#define IB_REANCHOR(p, BASE, T)                                                                    \
        {                                                                                          \
                size_t o_ = IB_OFF(p);                                                             \
                T *r_ = (T *) ((uint8_t *) (BASE) + o_);                                           \
                __CPROVER_assert(p == r_, "ghost re-anchoring is the identity");                   \
                p = r_;                                                                            \
        }
#define IB_MAIN_HOOK                                                                               \
        {                                                                                          \
                IB_REANCHOR(next_in, g_in, uint8_t)                                                \
                IB_REANCHOR(next_out, g_icf, struct deflate_icf)                                   \
                __CPROVER_assert(IB_OFF(next_in) < g_inend, "byte at next_in is inside the input"); \
                g_lit = *next_in;                                                                  \
                w_fresh = 1;                                                                       \
                VCANARY();                                                                         \
        }
#define IB_LOCALS literal, hash, dist, match_length, next_hash, end, code, code2, extra_bits
#define IB_MAIN_ASSIGNS(TABLE)                                                                     \
        __CPROVER_assigns(next_in, next_out, IB_LOCALS, w_it, __CPROVER_object_whole(level_buf),   \
                          __CPROVER_object_whole(g_icf))
#define IB_TOKENS ((IB_OFF(next_out) - g_icf0) / sizeof(struct deflate_icf))
#define IB_MAIN_INV                                                                                \
        __CPROVER_loop_invariant(__CPROVER_same_object(next_in, g_in) && IB_OFF(next_in) >= g_off0 && \
                                 IB_OFF(next_in) <= g_inend)                                       \
        __CPROVER_loop_invariant(__CPROVER_same_object(next_out, g_icf) && IB_OFF(next_out) >= g_icf0 && \
                                 IB_OFF(next_out) <= g_icfend && ((IB_OFF(next_out) - g_icf0) & 3) == 0) \
        __CPROVER_loop_invariant(IB_OFF(next_in) - g_off0 <= IB_TOKENS * 258 &&                    \
                                 IB_TOKENS <= IB_OFF(next_in) - g_off0)                            \
        __CPROVER_loop_invariant(IB_WIN(IB_OFF(next_in), last_seen))                               \
        __CPROVER_loop_invariant(IB_LB_PROTECTED(g_b) ==>                                          \
                                 ((uint8_t *) level_buf)[g_b] == __CPROVER_loop_entry(((uint8_t *) level_buf)[g_b])) \
        __CPROVER_decreases(g_inend - IB_OFF(next_in))

#define L_isal_deflate_icf_body_hash_hist_base_1 IB_MAIN_ASSIGNS(hash_hist.hash_table) IB_MAIN_INV
#define H_isal_deflate_icf_body_hash_hist_base_1 IB_MAIN_HOOK

#define IB_POS2 (IB_OFF(next_in) + match_length)
#define IB_INNER(TABLE)                                                                            \
        __CPROVER_assigns(next_hash, literal, hash, w_it, __CPROVER_object_whole(level_buf))       \
        __CPROVER_loop_invariant(__CPROVER_same_object(next_hash, g_in) &&                         \
                                 IB_OFF(next_hash) > IB_OFF(next_in) &&                            \
                                 IB_OFF(next_hash) <= IB_OFF(next_in) + 3)                         \
        __CPROVER_loop_invariant(w_it.fresh == 0 && w_it.hash == __CPROVER_loop_entry(w_it.hash) && \
                                 w_it.mlen == match_length && w_it.dist == dist)                   \
        __CPROVER_loop_invariant(match_length >= SHORTEST_MATCH && match_length <= 258 &&          \
                                 IB_POS2 <= g_inend && 1 <= dist && dist <= g_dmask &&             \
                                 (BD_HIT ==> (dist <= IB_OFF(next_in) &&                           \
                                              (g_k < match_length ==>                              \
                                               next_in[g_k] == (next_in - dist)[g_k]))))           \
        __CPROVER_loop_invariant(IB_WIN(IB_POS2, last_seen))                                       \
        __CPROVER_loop_invariant(IB_LB_PROTECTED(g_b) ==>                                          \
                                 ((uint8_t *) level_buf)[g_b] == __CPROVER_loop_entry(((uint8_t *) level_buf)[g_b])) \
        __CPROVER_decreases(IB_OFF(next_in) + 3 - IB_OFF(next_hash))
#define IB_INNER_HOOK                                                                              \
        {                                                                                          \
                IB_REANCHOR(next_hash, g_in, uint8_t)                                              \
                VCANARY();                                                                         \
        }
/* dead loop body in the finish functions (ISAL_LIMIT_HASH_UPDATE: end - 3 == next_in): no canary */
#define IB_INNER_HOOK_DEAD                                                                         \
        {                                                                                          \
                IB_REANCHOR(next_hash, g_in, uint8_t)                                              \
        }
#define L_isal_deflate_icf_body_hash_hist_base_2 IB_INNER(hash_hist.hash_table)
#define H_isal_deflate_icf_body_hash_hist_base_2 IB_INNER_HOOK

/* ---------------------------------------------------------------------------------------------------
 * isal_deflate_icf_finish_hash_hist_base / isal_deflate_icf_finish_hash_map_base: consume the input to its last
 * byte (reads never pass next_in + avail_in), stop early only when the ICF buffer has no room for a token (then
 * state = CREATE_HDR); all input consumed: CREATE_HDR iff a flush or the end was requested.
 * ------------------------------------------------------------------------------------------------- */
#define IB_FINISH(TABLE)                                                                           \
        IB_PRE(TABLE)                                                                              \
        __CPROVER_assigns(IB_FRAME(TABLE))                                                         \
        IB_COUNTERS                                                                                \
        __CPROVER_ensures(stream->avail_in != 0 ==> (!IB_ROOM && IBS.state == ZSTATE_CREATE_HDR))  \
        __CPROVER_ensures((stream->avail_in == 0 && IBS.state != ZSTATE_CREATE_HDR) ==>            \
                          (!IB_FLUSH_REQ && IBS.state == IB_OLD(IBS.state)))                       \
        __CPROVER_ensures((stream->avail_in == 0 && IB_FLUSH_REQ) ==> IBS.state == ZSTATE_CREATE_HDR) \
        __CPROVER_ensures(IB_WIN(IB_OFF(stream->next_in), IB_LB->TABLE))
#define IB_TAIL_LOOP                                                                               \
        __CPROVER_assigns(next_in, next_out, literal, code, w_it, __CPROVER_object_whole(level_buf), \
                          __CPROVER_object_whole(g_icf))                                           \
        IB_MAIN_INV

#define C_isal_deflate_icf_finish_hash_hist_base IB_FINISH(hash_hist.hash_table)
#define L_isal_deflate_icf_finish_hash_hist_base_1 IB_MAIN_ASSIGNS(hash_hist.hash_table) IB_MAIN_INV
#define H_isal_deflate_icf_finish_hash_hist_base_1 IB_MAIN_HOOK
#define L_isal_deflate_icf_finish_hash_hist_base_2 IB_INNER(hash_hist.hash_table)
#define H_isal_deflate_icf_finish_hash_hist_base_2 IB_INNER_HOOK_DEAD
#define L_isal_deflate_icf_finish_hash_hist_base_3 IB_TAIL_LOOP
#define H_isal_deflate_icf_finish_hash_hist_base_3 IB_MAIN_HOOK

#define C_isal_deflate_icf_finish_hash_map_base IB_FINISH(hash_map.hash_table)
#define L_isal_deflate_icf_finish_hash_map_base_1 IB_MAIN_ASSIGNS(hash_map.hash_table) IB_MAIN_INV
#define H_isal_deflate_icf_finish_hash_map_base_1 IB_MAIN_HOOK
#define L_isal_deflate_icf_finish_hash_map_base_2 IB_INNER(hash_map.hash_table)
#define H_isal_deflate_icf_finish_hash_map_base_2 IB_INNER_HOOK_DEAD
#define L_isal_deflate_icf_finish_hash_map_base_3 IB_TAIL_LOOP
#define H_isal_deflate_icf_finish_hash_map_base_3 IB_MAIN_HOOK

/* ---------------------------------------------------------------------------------------------------
 * isal_deflate_hash_mad_base: as isal_deflate_hash_base (igzip_body.h)
 * ------------------------------------------------------------------------------------------------- */
extern uint16_t w_t0; /* hash_table[g_h] at entry */
#define HM_D16 ((uint16_t) (current_index - (uint32_t) hash_table[g_h]))
#define C_isal_deflate_hash_mad_base                                                               \
        __CPROVER_requires(hash_mask <= 0xffff && g_hmask == hash_mask && g_h <= hash_mask)        \
        __CPROVER_requires(SHORTEST_MATCH <= dict_len && dict_len <= IGZIP_HIST_SIZE)              \
        __CPROVER_requires(__CPROVER_is_fresh(dict, dict_len))                                     \
        __CPROVER_requires(g_in == dict && g_inend == dict_len)                                    \
        __CPROVER_requires(__CPROVER_is_fresh(hash_table, ((size_t) hash_mask + 1) * sizeof(uint16_t))) \
        __CPROVER_assigns(w_t0, w_it, __CPROVER_object_whole(hash_table))                          \
        __CPROVER_ensures(hash_table[g_h] == __CPROVER_old(hash_table[g_h]) ||                     \
                          (SHORTEST_MATCH <= HM_D16 && HM_D16 <= dict_len))
#define E_isal_deflate_hash_mad_base w_t0 = hash_table[g_h];
#define L_isal_deflate_hash_mad_base_1                                                             \
        __CPROVER_assigns(next_in, literal, hash, index, w_it, __CPROVER_object_whole(hash_table)) \
        __CPROVER_loop_invariant(__CPROVER_same_object(next_in, dict) &&                           \
                                 IB_OFF(next_in) <= dict_len - SHORTEST_MATCH + 1)                 \
        __CPROVER_loop_invariant(index == (uint16_t) (current_index - dict_len + (uint32_t) IB_OFF(next_in))) \
        __CPROVER_loop_invariant(hash_table[g_h] == w_t0 ||                                        \
                                 (dict_len - IB_OFF(next_in) < HM_D16 && HM_D16 <= dict_len))      \
        __CPROVER_decreases(dict_len - IB_OFF(next_in))
#define H_isal_deflate_hash_mad_base_1                                                             \
        {                                                                                          \
                IB_REANCHOR(next_in, dict, uint8_t)                                                \
                VCANARY();                                                                         \
        }

/* ---------------------------------------------------------------------------------------------------
 * update_state (igzip_icf_base.c): next_in/avail_in/total_in/block_end advance by the bytes consumed, has_hist
 * iff input consumed, icf_buf_next = next_out.
 * NOTE (possible defect, see final report): it stores `end_out - next_out` -- a difference of struct
 * deflate_icf pointers, i.e. a TOKEN count -- into icf_buf_avail_out, which every reader (the three bodies
 * above, compress_icf_map_g, igzip.c, the assembly variants) treats as a BYTE count.  The contract states what
 * is safe: the announced space is inside the buffer.  Compiling with -DICF_AVAIL_BYTES selects the byte-exact
 * postcondition; it FAILS on the pinned tree (verifier counterexample and native run: 631 tokens = 2524 bytes
 * written, avail_out 16380 -> 3464 instead of 13856).
 * ------------------------------------------------------------------------------------------------- */
#define US_C (IB_OFF(next_in) - IB_OFF(start_in))
#ifdef ICF_AVAIL_BYTES
#define US_AVAIL (IB_LB->icf_buf_avail_out == IB_OFF(end_out) - IB_OFF(next_out))
#else
#define US_AVAIL (IB_LB->icf_buf_avail_out <= IB_OFF(end_out) - IB_OFF(next_out))
#endif
#define C_update_state                                                                             \
        __CPROVER_requires(__CPROVER_is_fresh(stream, sizeof(*stream)))                            \
        IB_LEVEL_BUF                                                                               \
        __CPROVER_requires(g_insz <= 0x7fffffffu && __CPROVER_is_fresh(start_in, g_insz))          \
        __CPROVER_requires(__CPROVER_pointer_in_range_dfcc(start_in, next_in, start_in + g_insz))  \
        __CPROVER_requires(__CPROVER_pointer_in_range_dfcc(next_in, end_in, start_in + g_insz))    \
        __CPROVER_requires(g_icfend <= 0x7fffffffu && (g_icfend & 3) == 0 &&                       \
                           __CPROVER_is_fresh(start_out, g_icfend))                                \
        __CPROVER_requires(__CPROVER_pointer_in_range_dfcc(start_out, next_out, start_out + g_icfend / 4)) \
        __CPROVER_requires(__CPROVER_pointer_in_range_dfcc(next_out, end_out, start_out + g_icfend / 4)) \
        __CPROVER_requires(((IB_OFF(next_out) | IB_OFF(end_out)) & 3) == 0)                        \
        __CPROVER_assigns(stream->next_in, stream->avail_in, stream->total_in, IBS.has_hist, IBS.block_end, \
                          IB_LB->icf_buf_next, IB_LB->icf_buf_avail_out)                           \
        __CPROVER_ensures(stream->next_in == next_in && stream->avail_in == IB_OFF(end_in) - IB_OFF(next_in)) \
        __CPROVER_ensures(stream->total_in == (uint32_t) (IB_OLD(stream->total_in) + US_C) &&      \
                          IBS.block_end == stream->total_in)                                       \
        __CPROVER_ensures(IBS.has_hist == (US_C > 0 ? IGZIP_HIST : IB_OLD(IBS.has_hist)))          \
        __CPROVER_ensures(IB_LB->icf_buf_next == next_out && US_AVAIL)

#endif
