/* Contracts for the level-3 ICF *map* functions of igzip/igzip_icf_body.c that do not touch the hash tables
 * (properties C05, C17, C01, C10):
 *   compress_icf_map_g      walks the match map [matches_next, matches_end), emits tokens into the ICF buffer
 *   set_long_icf_fg_base    extends the 8-byte matches of the map generator to their true length (<= 258)
 *   icf_body_next_state, icf_body_hash1_fillgreedy_lazy, icf_body_lazyhash1_fillgreedy_greedy,
 *   isal_deflate_icf_body   state glue
 * A map entry is one struct deflate_icf (encode_df.h) = one 32-bit word: lit_len (10 bits) | lit_dist (9) << 10 |
 * dist_extra (13) << 19.  Entry j describes input position j of the mapped stretch: a literal (lit_len = the byte,
 * lit_dist = 30 = NULL_DIST_SYM) or a match (lit_len = 254 + length, lit_dist = RFC distance symbol < 30,
 * dist_extra = RFC extra value).  Each harness TU selects its group with IM_* defines. */
#ifndef IGZIP_ICF_MAP_H
#define IGZIP_ICF_MAP_H
#include "verif_common.h"
#include "spec_deflate_rfc.h"

#define IM_OFF(p) __CPROVER_POINTER_OFFSET(p)
#define IM_W(p, i) (((const uint32_t *) (p))[i]) /* map / ICF entry i as a 32-bit word */
#define IM_LL(w) ((uint32_t) (w) & 0x3ff)
#define IM_LD(w) (((uint32_t) (w) >> 10) & 0x1ff)
#define IM_IS_MATCH(w) (IM_LL(w) >= 257)
/* what the map consumers rely on (and the map producers establish): the lit/len field indexes ll_hist[513] and
 * lit_len_table[513]; a match carries a distance symbol (d_hist[30]); a literal is at most 256 so that the literal
 * pair code 31 + lit fits the 288-entry dist_lit_table */
#define IM_ENTRY_OK(w) (IM_LL(w) <= 512 && (!IM_IS_MATCH(w) || IM_LD(w) < 30))
/* input positions covered by an entry when it is emitted */
#define IM_COVER(w) (IM_IS_MATCH(w) ? IM_LL(w) - 254 : 1u)
#define IM_SLOP 257 /* a match at the last map position reaches at most 257 entries behind matches_end */

#ifdef IM_COMPRESS
/* ------------------------------------------------------------------------------------------------
 * compress_icf_map_g
 * Memory model: the map is ONE object of g_n + ISAL_LOOK_AHEAD entries (struct hash_map_buf: matches[] is
 * followed by overflow[ISAL_LOOK_AHEAD]); matches_next is its base, matches_end = matches_next + g_n; only
 * entries below matches_end are read, the returned pointer may lie up to 257 entries behind matches_end.
 * The ICF buffer is ONE object of exactly icf_buf_avail_out bytes starting at icf_buf_next (a token store
 * behind icf_buf_next + avail_out/4 tokens is an out-of-bounds write).  level_buf is untyped memory of at
 * least sizeof(struct level_buf) bytes (symbolic size: a typed 150 KiB struct is bit-blasted, see
 * contracts/igzip_icf_body.h); stream->next_in is only moved, never dereferenced.
 * Token provenance (ghost output slot g_o): see IM_SLOT_OK.
 * ---------------------------------------------------------------------------------------------- */
extern size_t g_n, g_icfsz, g_o;
extern uint32_t g_llhist[513], g_dhist[30]; /* level_buf->hist, modelled as two separate arrays (harness/igzip/icf_map.c) */
extern uint8_t *g_icf0; /* icf_buf_next at entry = base of the ICF object (snapshot by assignment in the E_ hook) */
extern size_t w_m0, w_i0;    /* map index / ICF slot at the start of the iteration in progress */
extern size_t w_srcA, w_srcB; /* map index at the start of the iteration that began at slot g_o / at slot g_o - 1 */
extern int w_hitA, w_hitB, w_loopA, w_loopB, w_iter, w_loop; /* w_iter: an iteration ran; w_loop: loop (1/2) of the last one */ /* such an iteration happened; which loop it was (1 or 2) */
#define IM_LB ((struct level_buf *) stream->level_buf)
/* -DIM_ICFCAP=n: the ICF object has the constant size n bytes and icf_buf_avail_out <= n (cheap variant: a store
 * between avail_out and n is then not an out-of-bounds write, but still violates the cursor invariant / postcondition
 * icf_buf_next <= icf_buf_next(entry) + avail_out/4 tokens); default: object of exactly avail_out bytes */
#ifdef IM_ICFCAP
#define IM_ICFMAX IM_ICFCAP
#define IM_ICFOBJ IM_ICFCAP
#else
#define IM_ICFMAX 0x7fffffffu
#define IM_ICFOBJ g_icfsz
#endif
#ifndef IM_MAPCAP
#define IM_MAPCAP 8 /* parameter bound on the map length (MATCH_BUF_SIZE = 4096 in the library); the loops are closed by contract */
#endif
/* the token at ICF slot g_o, once written, is -- according to the map entries e0 = map[src], e1 = map[src+1]
 * of the iteration that wrote it --
 *   pair loop, e0 a match:                 e0                       (copied unchanged: same length, same distance)
 *   pair loop, e0 literal, e1 a match:     e0, and slot+1 holds e1  (both copied unchanged)
 *   pair loop, two literals:               lit_len = e0's byte, lit_dist = 31 + e1's byte, no extra bits
 *   tail loop:                             e0                       (copied unchanged)
 * so every emitted match token IS a map entry (no distance or length is invented) and every literal token
 * carries map literals. */
#define IM_SLOT_A_OK(ICF, MAP)                                                                     \
        (w_loopA == 2 || IM_IS_MATCH(IM_W(MAP, w_srcA)) || IM_IS_MATCH(IM_W(MAP, w_srcA + 1))      \
                 ? IM_W(ICF, g_o) == IM_W(MAP, w_srcA)                                             \
                 : IM_W(ICF, g_o) == (IM_LL(IM_W(MAP, w_srcA)) | ((IM_LL(IM_W(MAP, w_srcA + 1)) + 31u) << 10)))
#define IM_SLOT_B_OK(ICF, MAP) (IM_W(ICF, g_o) == IM_W(MAP, w_srcB + 1))
/* slot g_o is the second slot of the iteration that started at g_o - 1 iff that iteration was "literal then match" */
/* map positions consumed by the iteration that started at map index m in loop LP: the positions its tokens cover */
#define IM_STEP(MAP, m, LP)                                                                        \
        ((LP) == 2 || IM_IS_MATCH(IM_W(MAP, m)) ? IM_COVER(IM_W(MAP, m))                            \
                                               : IM_IS_MATCH(IM_W(MAP, (m) + 1)) ? 1u + IM_COVER(IM_W(MAP, (m) + 1)) : 2u)
#define IM_B_PAIR(MAP) (w_hitB && w_loopB == 1 && !IM_IS_MATCH(IM_W(MAP, w_srcB)) && IM_IS_MATCH(IM_W(MAP, w_srcB + 1)))

/* the stream object handed in is only the PREFIX of struct isal_zstream up to and including internal_state.block_end:
 * the function touches nothing behind it (an access there is out of bounds), and a full 83 KiB stream object
 * makes every store through the re-loaded icf_buf_next pointer fan out over 83 KiB more */
#define IM_STREAM_PREFIX (__builtin_offsetof(struct isal_zstream, internal_state.block_end) + sizeof(uint32_t))
#define IM_LB_PREFIX_SZ (__builtin_offsetof(struct level_buf, icf_buf_start) + sizeof(void *))
/* The objects are built by the harness (h_compress_icf_map_g): the stream and the level buffer are TYPED objects
 * (struct isal_zstream, struct level_buf) so that level_buf->icf_buf_next stays a pointer CBMC can track -- in
 * untyped memory the cursor is re-assembled from bytes after every store and each access through it fans out over
 * every object; the histogram members are redirected to ghost arrays, so the 83 KiB union inside struct level_buf
 * is never indexed.  The map (g_mapobj), the ICF buffer and the input are malloc'ed byte objects:
 *     map  : (IM_MAPCAP + ISAL_LOOK_AHEAD) entries, matches_next = its base, matches_end = base + g_n
 *     ICF  : IM_ICFOBJ bytes at icf_buf_next, icf_buf_avail_out = g_icfsz
 *     input: avail_in bytes at next_in (only moved, never dereferenced) */
#define C_compress_icf_map_g                                                                       \
        __CPROVER_requires(__CPROVER_w_ok(stream, sizeof(*stream)) && __CPROVER_w_ok(stream->level_buf, IM_LB_PREFIX_SZ)) \
        __CPROVER_requires(g_n <= IM_MAPCAP && IM_OFF(matches_next) == 0 &&                        \
                           __CPROVER_r_ok(matches_next, (IM_MAPCAP + ISAL_LOOK_AHEAD) * sizeof(struct deflate_icf))) \
        __CPROVER_requires(matches_end == matches_next + g_n)                                      \
        __CPROVER_requires(__CPROVER_forall {                                                      \
                unsigned q_;                                                                       \
                (q_ < IM_MAPCAP) ==> IM_ENTRY_OK(IM_W(matches_next, q_))                           \
        })                                                                                         \
        __CPROVER_requires(g_icfsz <= IM_ICFMAX && IM_LB->icf_buf_avail_out == g_icfsz && IM_OFF(IM_LB->icf_buf_next) == 0 && \
                           __CPROVER_w_ok(IM_LB->icf_buf_next, IM_ICFOBJ))                         \
        __CPROVER_requires(stream->avail_in >= IM_SLOP && stream->avail_in <= 0x7fffffffu &&       \
                           __CPROVER_r_ok(stream->next_in, stream->avail_in))                      \
        __CPROVER_requires(g_o < g_icfsz / 4 && w_hitA == 0 && w_hitB == 0 && w_iter == 0)                        \
        __CPROVER_assigns(stream->next_in, stream->avail_in, stream->total_in, stream->internal_state.block_end, \
                          __CPROVER_object_whole(stream->level_buf), __CPROVER_object_whole(IM_LB->icf_buf_next), \
                          w_m0, w_i0, w_srcA, w_srcB, w_hitA, w_hitB, w_loopA, w_loopB, g_icf0, w_iter, w_loop, \
                          __CPROVER_object_whole(g_llhist), __CPROVER_object_whole(g_dhist))      \
        /* returned position: inside the map or at most 257 entries behind its end (a match that runs over) */ \
        __CPROVER_ensures(__CPROVER_same_object(__CPROVER_return_value, matches_next) &&           \
                          (IM_OFF(__CPROVER_return_value) & 3) == 0 &&                             \
                          IM_OFF(__CPROVER_return_value) <= 4 * (g_n + IM_SLOP))                   \
        /* it stops before the end of the map only when the ICF buffer cannot take the next step */  \
        __CPROVER_ensures(IM_OFF(__CPROVER_return_value) < 4 * g_n ==> IM_LB->icf_buf_avail_out == 0) \
        /* ICF buffer: next/avail stay consistent, inside the object */                            \
        __CPROVER_ensures(__CPROVER_same_object(IM_LB->icf_buf_next, g_icf0))                      \
        __CPROVER_ensures((IM_OFF(IM_LB->icf_buf_next) & 3) == 0 && IM_OFF(IM_LB->icf_buf_next) <= 4 * (g_icfsz / 4)) \
        __CPROVER_ensures(IM_LB->icf_buf_avail_out == 4 * (g_icfsz / 4) - IM_OFF(IM_LB->icf_buf_next)) \
        /* counters: block_end advances by the map positions consumed; input counters move only by the overrun */ \
        __CPROVER_ensures(stream->internal_state.block_end ==                                      \
                          __CPROVER_old(stream->internal_state.block_end) + (uint32_t) (IM_OFF(__CPROVER_return_value) / 4)) \
        __CPROVER_ensures((IM_OFF(__CPROVER_return_value) > 4 * g_n && g_n > 0)                    \
                                  ? (stream->next_in == __CPROVER_old(stream->next_in) + (IM_OFF(__CPROVER_return_value) / 4 - g_n) && \
                                     stream->avail_in == __CPROVER_old(stream->avail_in) - (uint32_t) (IM_OFF(__CPROVER_return_value) / 4 - g_n) && \
                                     stream->total_in == __CPROVER_old(stream->total_in) + (uint32_t) (IM_OFF(__CPROVER_return_value) / 4 - g_n)) \
                                  : (stream->next_in == __CPROVER_old(stream->next_in) &&          \
                                     stream->avail_in == __CPROVER_old(stream->avail_in) &&        \
                                     stream->total_in == __CPROVER_old(stream->total_in)))         \
        /* the cursor advances by exactly the positions the emitted tokens cover (last iteration here, every earlier  \
         * one by the ghost assertion at the top of the following iteration): no gap, no overlap */   \
        __CPROVER_ensures(w_iter ? IM_OFF(__CPROVER_return_value) / 4 == w_m0 + IM_STEP(matches_next, w_m0, w_loop) \
                                 : __CPROVER_return_value == matches_next)                         \
        /* provenance of the token at the ghost slot g_o, if it was written */                      \
        __CPROVER_ensures(4 * g_o < IM_OFF(IM_LB->icf_buf_next) ==>                                \
                          ((w_hitA && w_srcA < g_n && IM_SLOT_A_OK(g_icf0, matches_next)) || \
                           (!w_hitA && IM_B_PAIR(matches_next) && w_srcB + 1 < g_n &&              \
                            IM_SLOT_B_OK(g_icf0, matches_next))))

/* common part of both loop invariants; ICF0 = ICF base (icf_buf_end's object), positions as word indices */
#define IM_POS_INV                                                                                 \
        (__CPROVER_same_object(matches_next, matches_start) && (IM_OFF(matches_next) & 3) == 0 &&  \
         IM_OFF(matches_next) <= IM_OFF(matches_end) + 4 * IM_SLOP &&                              \
         __CPROVER_same_object(level_buf->icf_buf_next, icf_buf_end) && (IM_OFF(level_buf->icf_buf_next) & 3) == 0 && \
         IM_OFF(level_buf->icf_buf_next) <= IM_OFF(icf_buf_end))
#define IM_PROV_INV                                                                                \
        ((4 * g_o < IM_OFF(level_buf->icf_buf_next) ==>                                            \
          ((w_hitA && w_srcA < g_n && IM_SLOT_A_OK(g_icf0, matches_start)) ||                 \
           (!w_hitA && IM_B_PAIR(matches_start) && w_srcB + 1 < g_n && IM_SLOT_B_OK(g_icf0, matches_start)))) && \
         (4 * g_o >= IM_OFF(level_buf->icf_buf_next) ==> w_hitA == 0) &&                           \
         (4 * g_o > IM_OFF(level_buf->icf_buf_next) ==> w_hitB == 0) &&                            \
         (w_hitA ==> (w_srcA < g_n && (w_loopA == 1 ? w_srcA + 1 < g_n : w_loopA == 2))) &&        \
         (w_hitB ==> (w_srcB < g_n && (w_loopB == 1 ? w_srcB + 1 < g_n : w_loopB == 2))))
#ifdef IM_NO_PROV
#define IM_PROV_AND
#else
#define IM_PROV_AND &&IM_PROV_INV
#endif
#define IM_LOOP_ASSIGNS                                                                            \
        __CPROVER_assigns(matches_next, code, lit_len, lit_len2, dist, __CPROVER_object_whole(stream->level_buf), \
                          __CPROVER_object_whole(icf_buf_end), w_m0, w_i0, w_srcA, w_srcB, w_hitA, w_hitB, w_loopA, w_loopB, \
                          __CPROVER_object_whole(g_llhist), __CPROVER_object_whole(g_dhist))
/* Loop contracts (NOT CLOSED: with the cursors re-loaded from havocked memory every access fans out over all objects
 * and the SAT instance exceeds 30 GB even with the value-set refresh below; kept for reference under
 * -DIM_LOOP_CONTRACTS, nothing is claimed from them).  The registered harnesses unwind the loops on a bounded map. */
#ifdef IM_LOOP_CONTRACTS
#define L_compress_icf_map_g_1                                                                     \
        IM_LOOP_ASSIGNS                                                                            \
        __CPROVER_loop_invariant(IM_POS_INV IM_PROV_AND)                                        \
        __CPROVER_decreases(IM_OFF(matches_end) + 4 * (IM_SLOP + 1) - IM_OFF(matches_next))
#define L_compress_icf_map_g_2                                                                     \
        IM_LOOP_ASSIGNS                                                                            \
        __CPROVER_loop_invariant(IM_POS_INV IM_PROV_AND)                                        \
        __CPROVER_decreases(IM_OFF(matches_end) + 4 * (IM_SLOP + 1) - IM_OFF(matches_next))
#endif
#ifdef IM_REFRESH
#define IM_REFRESH_STMTS                                                                           \
                /* VALUE-SET REFRESH (no change of value, asserted): after the loop havoc CBMC knows the two cursors \
                 * only through the invariant (same object, offset), so every access through them would fan out over \
                 * every object of the program; re-deriving them from their bases makes the target explicit */ \
                struct deflate_icf *rm__ = (struct deflate_icf *) ((uint8_t *) matches_start + IM_OFF(matches_next)); \
                struct deflate_icf *ri__ = (struct deflate_icf *) (g_icf0 + IM_OFF(level_buf->icf_buf_next)); \
                __CPROVER_assert(rm__ == matches_next && ri__ == level_buf->icf_buf_next,           \
                                 "value-set refresh of the map / ICF cursors is the identity");    \
                matches_next = rm__;                                                               \
                level_buf->icf_buf_next = ri__;
#else
#define IM_REFRESH_STMTS
#endif
#define IM_HOOK(LOOPNO)                                                                            \
        {                                                                                          \
                IM_REFRESH_STMTS                                                                   \
                __CPROVER_assert(!w_iter || IM_OFF(matches_next) / 4 == w_m0 + IM_STEP(matches_start, w_m0, w_loop), \
                                 "previous iteration advanced the map cursor by exactly the positions its tokens cover"); \
                w_iter = 1;                                                                        \
                w_loop = (LOOPNO);                                                                 \
                w_m0 = IM_OFF(matches_next) / 4;                                                   \
                w_i0 = IM_OFF(level_buf->icf_buf_next) / 4;                                        \
                if (w_i0 == g_o) {                                                                 \
                        w_hitA = 1;                                                                \
                        w_srcA = w_m0;                                                             \
                        w_loopA = (LOOPNO);                                                        \
                }                                                                                  \
                if (w_i0 + 1 == g_o) {                                                             \
                        w_hitB = 1;                                                                \
                        w_srcB = w_m0;                                                             \
                        w_loopB = (LOOPNO);                                                        \
                }                                                                                  \
                VCANARY();                                                                         \
        }
#define E_compress_icf_map_g g_icf0 = (uint8_t *) ((struct level_buf *) stream->level_buf)->icf_buf_next;
#define H_compress_icf_map_g_1 IM_HOOK(1)
#define H_compress_icf_map_g_2 IM_HOOK(2)
#endif /* IM_COMPRESS */

#ifdef IM_GLUE
/* ------------------------------------------------------------------------------------------------
 * State glue.  level_buf is untyped memory of at least sizeof(struct level_buf) bytes (symbolic size): the glue
 * only reads / writes scalar and pointer members at constant offsets and never dereferences the map cursors.
 * ---------------------------------------------------------------------------------------------- */
extern size_t g_lbsz;
#define IM_LB ((struct level_buf *) stream->level_buf)
#define IM_ST stream->internal_state
#define IM_LB_OK (g_lbsz >= sizeof(struct level_buf) && g_lbsz <= 0x7fffffffu && __CPROVER_is_fresh(stream->level_buf, g_lbsz))

/* icf_body_next_state: ICF buffer full -> CREATE_HDR (takes precedence); otherwise, if at most ISAL_LOOK_AHEAD input
 * bytes are left and the caller asked for a flush or announced the end -> FLUSH_READ_BUFFER; otherwise unchanged */
#define NS_FULL (IM_LB->icf_buf_avail_out == 0)
#define NS_DRAIN (stream->avail_in <= ISAL_LOOK_AHEAD && (stream->end_of_stream || stream->flush != NO_FLUSH))
#define C_icf_body_next_state                                                                      \
        __CPROVER_requires(__CPROVER_is_fresh(stream, sizeof(*stream)) && IM_LB_OK)                \
        __CPROVER_assigns(IM_ST.state)                                                             \
        __CPROVER_ensures(NS_FULL ==> IM_ST.state == ZSTATE_CREATE_HDR)                            \
        __CPROVER_ensures((!NS_FULL && NS_DRAIN) ==> IM_ST.state == ZSTATE_FLUSH_READ_BUFFER)      \
        __CPROVER_ensures((!NS_FULL && !NS_DRAIN) ==> IM_ST.state == __CPROVER_old(IM_ST.state))

/* isal_deflate_icf_body: exactly one level entry is called, once, on the stream: level 3 -> lvl3, level 2 -> lvl2,
 * every other value -> lvl1 (the entries are the dispatched NASM/C bodies: recorded stubs below) */
extern uint32_t w_lvl_called, w_lvl_calls;
extern struct isal_zstream *w_lvl_stream;
#define C_isal_deflate_icf_body                                                                    \
        __CPROVER_requires(__CPROVER_is_fresh(stream, sizeof(*stream)) && w_lvl_calls == 0)        \
        __CPROVER_assigns(w_lvl_called, w_lvl_calls, w_lvl_stream)                                 \
        __CPROVER_ensures(w_lvl_calls == 1 && w_lvl_stream == stream &&                            \
                          w_lvl_called == (stream->level == 3 ? 3u : stream->level == 2 ? 2u : 1u))
#endif /* IM_GLUE */

#ifdef IM_FILL
/* ------------------------------------------------------------------------------------------------
 * icf_body_hash1_fillgreedy_lazy / icf_body_lazyhash1_fillgreedy_greedy: the level-3 driver loop
 *      drain the saved map; while the map is used up: generate a map for min(MATCH_BUF_SIZE, avail_in) bytes,
 *      extend its matches, advance the input counters by the mapped bytes, drain the new map;
 *      save the cursors; choose the next state.
 * Callees are replaced by PROTOCOL stubs: each checks (requires = call-site obligation) that it is called at the right
 * point with exactly the values the previous steps produced, records what it needs for the next check and leaves its
 * data effects abstract (their own harnesses: compress_icf_map_g_*, icf_body_next_state).  Proved for the glue:
 *   - the call sequence compress (gen setlong compress)* next_state, nothing else, next_state exactly once and last;
 *   - gen is called with lookup = matches[] and input_size = min(MATCH_BUF_SIZE, avail_in) > ISAL_LOOK_AHEAD;
 *   - set_long gets (next_in before the advance, the count gen returned, the same input_size, matches[]);
 *   - next_in / avail_in / total_in advance by exactly that count before the map is drained, and the map handed to
 *     compress is [matches, matches + count) with at least 257 input bytes left (its overrun allowance);
 *   - the cursors saved in level_buf are the last compress result and the last map end;
 *   - termination: avail_in strictly decreases per iteration.
 * level_buf: untyped memory of symbolic size >= sizeof(struct level_buf); the saved cursors are well-formed on
 * entry (same object as matches[], inside matches[] + slop).
 * STATUS: NOT CLOSED / NOT REGISTERED.  With cadical and 8 object bits every obligation discharges (about 115 s), but
 * one of the two copies of the in-loop vacuity canary is unreachable, i.e. the step case may be vacuous; the cause
 * was not found in the time available, so NOTHING is claimed from this group. */
extern size_t g_lbsz;
extern struct deflate_icf *g_matches; /* &level_buf->hash_map.matches[0], set in the E_ hook */
extern uint32_t w_phase, w_g_avail, w_g_total, w_ns_calls, w_c_calls, w_gen_calls;
extern uint64_t w_g_isz, w_g_ret;
extern size_t w_g_inobj, w_g_inoff; /* object / offset of next_in when the map generator ran (integers: no ghost-pointer arithmetic) */
extern struct deflate_icf *w_c_ret, *w_c_end;
#define IM_LB ((struct level_buf *) stream->level_buf)
#define IM_FILL_GHOSTS w_phase, w_g_avail, w_g_total, w_ns_calls, w_c_calls, w_gen_calls, w_g_isz, w_g_ret, w_g_inobj, w_g_inoff, w_c_ret, w_c_end
#define IM_MOFF(p) (IM_OFF(p) - IM_OFF(g_matches))
#define C_compress_icf_map_g                                                                       \
        __CPROVER_requires(w_phase == 0 || w_phase == 2)                                           \
        __CPROVER_requires(__CPROVER_same_object(matches_next, g_matches) && __CPROVER_same_object(matches_end, g_matches) && \
                           IM_OFF(matches_end) >= IM_OFF(g_matches) && IM_MOFF(matches_end) <= 4 * MATCH_BUF_SIZE && \
                           IM_OFF(matches_next) >= IM_OFF(g_matches) && IM_MOFF(matches_next) <= 4 * (MATCH_BUF_SIZE + IM_SLOP)) \
        __CPROVER_requires(stream->avail_in >= IM_SLOP)                                            \
        __CPROVER_requires(w_phase == 2 ==> (__CPROVER_POINTER_OBJECT(stream->next_in) == w_g_inobj && IM_OFF(stream->next_in) == w_g_inoff + w_g_ret && stream->avail_in == w_g_avail - (uint32_t) w_g_ret && \
                                             stream->total_in == w_g_total + (uint32_t) w_g_ret && matches_next == g_matches && \
                                             matches_end == g_matches + w_g_ret))                  \
        __CPROVER_assigns(stream->next_in, stream->avail_in, stream->total_in, stream->internal_state.block_end, IM_FILL_GHOSTS) \
        __CPROVER_ensures(w_phase == 3 && w_c_calls == __CPROVER_old(w_c_calls) + 1 && w_c_end == matches_end && \
                          w_c_ret == __CPROVER_return_value && w_ns_calls == __CPROVER_old(w_ns_calls) && \
                          w_gen_calls == __CPROVER_old(w_gen_calls))                               \
        __CPROVER_ensures(__CPROVER_same_object(__CPROVER_return_value, g_matches) &&              \
                          IM_OFF(__CPROVER_return_value) >= IM_OFF(matches_next) &&                \
                          IM_MOFF(__CPROVER_return_value) <= 4 * (MATCH_BUF_SIZE + IM_SLOP))       \
        __CPROVER_ensures(stream->avail_in <= __CPROVER_old(stream->avail_in) &&                   \
                          stream->avail_in + IM_SLOP >= __CPROVER_old(stream->avail_in) &&         \
                          __CPROVER_same_object(stream->next_in, __CPROVER_old(stream->next_in)) && \
                          IM_OFF(stream->next_in) == IM_OFF(__CPROVER_old(stream->next_in)) +      \
                                                             (__CPROVER_old(stream->avail_in) - stream->avail_in))
#define IM_GEN_CONTRACT                                                                            \
        __CPROVER_requires(w_phase == 3 && matches_icf_lookup == g_matches)                        \
        __CPROVER_requires(input_size == (stream->avail_in < MATCH_BUF_SIZE ? stream->avail_in : MATCH_BUF_SIZE) && \
                           input_size > ISAL_LOOK_AHEAD)                                           \
        __CPROVER_assigns(stream->internal_state.has_hist, IM_FILL_GHOSTS)                         \
        __CPROVER_ensures(w_phase == 1 && w_g_inobj == __CPROVER_POINTER_OBJECT(stream->next_in) && w_g_inoff == IM_OFF(stream->next_in) && w_g_avail == stream->avail_in && \
                          w_g_total == stream->total_in && w_g_isz == input_size && w_g_ret == __CPROVER_return_value && \
                          w_gen_calls == __CPROVER_old(w_gen_calls) + 1 && w_ns_calls == __CPROVER_old(w_ns_calls) && \
                          w_c_calls == __CPROVER_old(w_c_calls) && w_c_ret == __CPROVER_old(w_c_ret) && w_c_end == __CPROVER_old(w_c_end)) \
        /* ASSUMED about the map generators: they map at least one and at most input_size - ISAL_LOOK_AHEAD positions */ \
        __CPROVER_ensures(1 <= __CPROVER_return_value && __CPROVER_return_value <= input_size - ISAL_LOOK_AHEAD)
#define C_gen_icf_map_h1_base IM_GEN_CONTRACT
#define C_icf_body_next_state                                                                      \
        __CPROVER_requires(w_phase == 3 && w_ns_calls == 0)                                        \
        __CPROVER_assigns(stream->internal_state.state, w_ns_calls)                                \
        __CPROVER_ensures(w_ns_calls == 1)
#define IM_FILL_CONTRACT                                                                           \
        __CPROVER_requires(__CPROVER_is_fresh(stream, sizeof(*stream)))                            \
        __CPROVER_requires(g_lbsz >= sizeof(struct level_buf) && g_lbsz <= 0x7fffffffu && __CPROVER_is_fresh(stream->level_buf, g_lbsz)) \
        __CPROVER_requires(stream->avail_in >= IM_SLOP && stream->avail_in <= 0x7fffffffu &&       \
                           __CPROVER_is_fresh(stream->next_in, stream->avail_in))                  \
        __CPROVER_requires(__CPROVER_pointer_in_range_dfcc(&IM_LB->hash_map.matches[0], IM_LB->hash_map.matches_end, \
                                                           &IM_LB->hash_map.matches[0] + MATCH_BUF_SIZE) && \
                           __CPROVER_pointer_in_range_dfcc(&IM_LB->hash_map.matches[0], IM_LB->hash_map.matches_next, \
                                                           &IM_LB->hash_map.matches[0] + MATCH_BUF_SIZE + IM_SLOP)) \
        __CPROVER_requires((IM_OFF(IM_LB->hash_map.matches_end) & 3) == 0 && (IM_OFF(IM_LB->hash_map.matches_next) & 3) == 0) \
        __CPROVER_requires(w_phase == 0 && w_ns_calls == 0 && w_c_calls == 0 && w_gen_calls == 0)  \
        __CPROVER_assigns(__CPROVER_object_whole(stream), __CPROVER_object_whole(stream->level_buf), IM_FILL_GHOSTS, g_matches) \
        __CPROVER_ensures(w_ns_calls == 1 && w_c_calls == w_gen_calls + 1 && w_phase == 3)         \
        __CPROVER_ensures(IM_LB->hash_map.matches_next == w_c_ret && IM_LB->hash_map.matches_end == w_c_end) \
        /* it stops with an unfinished map (ICF buffer full) or because too little input is left for another map */ \
        __CPROVER_ensures(IM_OFF(w_c_ret) < IM_OFF(w_c_end) || stream->avail_in <= ISAL_LOOK_AHEAD)
#define IM_FILL_LOOP                                                                               \
        __CPROVER_assigns(matches_next_icf, matches_end_icf, input_size, processed, stream->next_in, stream->avail_in, \
                          stream->total_in, stream->internal_state.block_end, stream->internal_state.has_hist, IM_FILL_GHOSTS) \
        __CPROVER_loop_invariant(w_phase == 3 && w_ns_calls == 0 && w_c_calls == w_gen_calls + 1 &&   \
                                 matches_next_icf == w_c_ret && matches_end_icf == w_c_end &&      \
                                 __CPROVER_same_object(matches_next_icf, g_matches) && __CPROVER_same_object(matches_end_icf, g_matches) && \
                                 IM_OFF(matches_end_icf) >= IM_OFF(g_matches) && IM_MOFF(matches_end_icf) <= 4 * MATCH_BUF_SIZE && \
                                 IM_OFF(matches_next_icf) >= IM_OFF(g_matches) && IM_MOFF(matches_next_icf) <= 4 * (MATCH_BUF_SIZE + IM_SLOP)) \
        __CPROVER_decreases(stream->avail_in)
#define C_icf_body_hash1_fillgreedy_lazy IM_FILL_CONTRACT
#define L_icf_body_hash1_fillgreedy_lazy_1 IM_FILL_LOOP
#define H_icf_body_hash1_fillgreedy_lazy_1 VCANARY();
#define E_icf_body_hash1_fillgreedy_lazy g_matches = ((struct level_buf *) stream->level_buf)->hash_map.matches;
#define C_icf_body_lazyhash1_fillgreedy_greedy IM_FILL_CONTRACT
#define L_icf_body_lazyhash1_fillgreedy_greedy_1 IM_FILL_LOOP
#define H_icf_body_lazyhash1_fillgreedy_greedy_1 VCANARY();
#define E_icf_body_lazyhash1_fillgreedy_greedy g_matches = ((struct level_buf *) stream->level_buf)->hash_map.matches;
#endif /* IM_FILL */

#endif
