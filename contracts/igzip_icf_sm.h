/* Contracts for the level >= 1 compression STATE MACHINE of igzip/igzip.c (properties C10 output contract,
 * C07 resumability, C14 flush, C05 bounds, C15 frame):
 *
 *   init_hash8k_buf / init_hash_hist_buf / init_hash_map_buf / init_lvlX_buf, are_buffers_empty*,
 *   init_new_icf_block, isal_deflate_icf_finish, flush_icf_block, create_icf_block_hdr,
 *   write_header (the toggle_end_of_stream == 0 use of the icf pass, coarse), isal_deflate_icf_pass.
 *
 * The machine (states of enum isal_zstate_state; transitions read off the code, each one is the `ensures`
 * on state of the function named on the arrow, so the relation below IS the union of the contracts):
 *
 *   NEW_HDR --init_new_icf_block--> BODY
 *   BODY --isal_deflate_icf_body*--> BODY | FLUSH_READ_BUFFER | CREATE_HDR
 *   FLUSH_READ_BUFFER --isal_deflate_icf_finish(_lvl1..3)*--> FLUSH_READ_BUFFER | CREATE_HDR
 *   CREATE_HDR --create_icf_block_hdr--> TYPE0_HDR (stored block is not larger)  | HDR (header buffered in
 *                                        level_buf->deflate_hdr) | FLUSH_ICF_BUFFER (header written directly)
 *   HDR --write_header--> HDR (out of space) | FLUSH_ICF_BUFFER
 *   FLUSH_ICF_BUFFER --flush_icf_block--> FLUSH_ICF_BUFFER (out of space) | TRL (input empty, end_of_stream)
 *                                        | SYNC_FLUSH (input empty, flush requested) | NEW_HDR (next block)
 *   TYPE0_HDR/TYPE0_BODY --write_stored_block+--> TYPE0_HDR | TYPE0_BODY | TRL | NEW_HDR
 *   ---- the do-while repeats only from NEW_HDR ----
 *   SYNC_FLUSH --sync_flush+--> SYNC_FLUSH (< 8 bytes of space) | NEW_HDR
 *   FLUSH_WRITE_BUFFER --flush_write_buffer+--> FLUSH_WRITE_BUFFER | NEW_HDR
 *   TRL --write_trailer+--> TRL | END
 *
 *   *  NASM kernels / other translation units: ASSUMED contracts below (derived from the portable twins
 *      igzip_icf_base.c / igzip_icf_body.c: update_state(), icf_body_next_state()).
 *   +  proved by w-deflate in contracts/igzip_deflate_frame.h; used here through COARSE ABSTRACTIONS (state
 *      and counters only, same scalar preconditions -- these become call-site obligations of the pass).
 *      Their byte-level / input-window preconditions are not re-established here (see reg file `trusted`).
 *
 * Callee stubs record their arguments in ghost variables (w_*), return unconstrained ghost values (g_*),
 * so a caller's contract can say "called once, on exactly these arguments, and the result was used so". */
#ifndef IGZIP_ICF_SM_H
#define IGZIP_ICF_SM_H
#include "verif_common.h"
#include <stddef.h>
#include "igzip_lib.h"
#include "huff_codes.h"
#include "encode_df.h"
#include "igzip_level_buf_structs.h"
#include "stubs_igzip.h" /* crc32_gzip_refl, isal_adler32: recorded uninterpreted functions */

#define OLD(e) __CPROVER_old(e)
#define RET    __CPROVER_return_value
#define ST     stream->internal_state
#define BB     stream->internal_state.bitbuf
#define LB     ((struct level_buf *) stream->level_buf)
#define OFF(p) __CPROVER_POINTER_OFFSET(p)
/* entry value of a level_buf field.  __CPROVER_old(LB->f) is guarded by "all of struct level_buf (87800 bytes,
 * sized for level 3) is readable" and silently yields an unconstrained value for the smaller level 1/2
 * buffers; going through the field's own address and type avoids that. */
#define LBF(type, f) (*(type *) (stream->level_buf + offsetof(struct level_buf, f)))
#define OLD_LB_NEXT  OLD(LBF(struct deflate_icf *, icf_buf_next))
#define OLD_LB_START OLD(LBF(struct deflate_icf *, icf_buf_start))
#define BB_WF(b) ((b).m_bit_count < 8 && ((b).m_bits >> (b).m_bit_count) == 0)

/* size of the level specific part of struct level_buf = where the token (icf) buffer starts */
#define SM_TBL(l)                                                                                  \
        ((l) == 3 ? sizeof(struct hash_map_buf)                                                    \
                  : ((l) == 2 ? sizeof(struct hash_hist_buf) : sizeof(struct hash8k_buf)))
#define SM_LSZ(l) (offsetof(struct level_buf, hash8k) + SM_TBL(l))
#define SM_LMIN(l)                                                                                 \
        ((l) == 3 ? (uint32_t) (ISAL_DEF_LVL3_MIN)                                                 \
                  : ((l) == 2 ? (uint32_t) (ISAL_DEF_LVL2_MIN) : (uint32_t) (ISAL_DEF_LVL1_MIN)))
#define SM_LB_MAX 0x200000u /* level_buf_size <= 2 MiB (largest preset ISAL_DEF_LVL3_EXTRA_LARGE is 0.7 MiB); keeps counterexamples printable */
#define SM_TOK sizeof(struct deflate_icf)

/* a valid stream with a valid level buffer (what check_level_req admits for level >= 1) */
/* -DSM_LEVEL=n: instance for one level (create_icf_block_hdr: with the level symbolic the position of the
 * token buffer is a three-way case split under every store and the SAT solver needs > 900 s; per level 10-60 s) */
#ifdef SM_LEVEL
#define SM_LEVEL_REQ __CPROVER_requires(stream->level == SM_LEVEL)
#else
#define SM_LEVEL_REQ
#endif
#define SM_FRESH                                                                                   \
        __CPROVER_requires(__CPROVER_is_fresh(stream, sizeof(*stream)))                            \
        SM_LEVEL_REQ                                                                               \
        __CPROVER_requires(1 <= stream->level && stream->level <= 3)                               \
        __CPROVER_requires(SM_LMIN(stream->level) <= stream->level_buf_size &&                     \
                           stream->level_buf_size <= SM_LB_MAX)                                    \
        __CPROVER_requires(__CPROVER_is_fresh(stream->level_buf, stream->level_buf_size))
#define SM_OUT_FRESH __CPROVER_requires(__CPROVER_is_fresh(stream->next_out, stream->avail_out))
/* level 3 keeps a queue of matches inside level_buf */
#define SM_MATCHQ                                                                                  \
        __CPROVER_requires(stream->level == 3 ==>                                                  \
                           (__CPROVER_pointer_in_range_dfcc(                                       \
                                    &LB->hash_map.matches[0], LB->hash_map.matches_next,               \
                                    &LB->hash_map.overflow[0] + ISAL_LOOK_AHEAD) &&                    \
                            __CPROVER_pointer_in_range_dfcc(                                       \
                                    &LB->hash_map.matches[0], LB->hash_map.matches_end,                \
                                    &LB->hash_map.overflow[0] + ISAL_LOOK_AHEAD)))
/* the token buffer: starts behind the level tables, icf_buf_next = start + whole tokens, and `room` more
 * bytes fit behind icf_buf_next (init_new_icf_block reserves one token for the end-of-block symbol) */
#define LBP(b) ((struct level_buf *) (b))
#define SM_NTOK_(b) ((OFF(LBP(b)->icf_buf_next) - SM_LSZ(stream->level)) / SM_TOK)
#define SM_NTOK SM_NTOK_(stream->level_buf)
#define SM_ICF_WF_(b, room)                                                                        \
        (LBP(b)->icf_buf_start == (struct deflate_icf *) ((b) + SM_LSZ(stream->level)) &&          \
         __CPROVER_same_object(LBP(b)->icf_buf_next, (b)) &&                                       \
         OFF(LBP(b)->icf_buf_next) >= SM_LSZ(stream->level) &&                                     \
         OFF(LBP(b)->icf_buf_next) + (room) <= stream->level_buf_size &&                           \
         (OFF(LBP(b)->icf_buf_next) - SM_LSZ(stream->level)) % SM_TOK == 0)
#define SM_ICF_WF(room) SM_ICF_WF_(stream->level_buf, room)
#define SM_ICF_REQ(room)                                                                           \
        __CPROVER_requires(__CPROVER_pointer_in_range_dfcc((struct deflate_icf *) stream->level_buf, \
                                                           LB->icf_buf_next,                       \
                                                           (struct deflate_icf *) (stream->level_buf + \
                                                                                   stream->level_buf_size))) \
        __CPROVER_requires(SM_ICF_WF(room))

extern size_t g_h; /* ghost index */
/* All ghost state of this family lives in ONE object (sm_g): a caller's frame then names one target instead
 * of thirty, which matters -- the instrumentation checks every callee frame against the caller's, target by
 * target, at every call site (with separate globals the symbolic execution of isal_deflate_icf_pass alone did
 * not finish in 30 minutes). */
struct sm_ghost {
        uint32_t body_calls, fin_calls, fin_lvl, enc_len, enc_calls, cht_calls, cht_eob, shs_calls, sf_calls,
                fwb_calls, trl_calls, sb_calls;
        struct deflate_icf *enc_in, *enc_end, *enc_ret;
        struct BitBuf2 *enc_bb, *cht_bb;
        struct hufftables_icf *enc_tables, *cht_tables;
        struct isal_mod_hist *cht_hist;
        uint64_t ch_bis, ch_bs;
        uint32_t trl_crc; /* running checksum write_trailer saw */
        uint32_t iter;    /* completed iterations of the pass loop */
};
extern struct sm_ghost sm_g;
#define w_body_calls sm_g.body_calls
#define w_fin_calls  sm_g.fin_calls
#define w_fin_lvl    sm_g.fin_lvl
#define g_enc_len    sm_g.enc_len
#define w_enc_calls  sm_g.enc_calls
#define w_cht_calls  sm_g.cht_calls
#define w_cht_eob    sm_g.cht_eob
#define w_shs_calls  sm_g.shs_calls
#define w_sf_calls   sm_g.sf_calls
#define w_fwb_calls  sm_g.fwb_calls
#define w_trl_calls  sm_g.trl_calls
#define w_sb_calls   sm_g.sb_calls
#define w_enc_in     sm_g.enc_in
#define w_enc_end    sm_g.enc_end
#define w_enc_ret    sm_g.enc_ret
#define w_enc_bb     sm_g.enc_bb
#define w_enc_tables sm_g.enc_tables
#define w_cht_bb     sm_g.cht_bb
#define w_cht_tables sm_g.cht_tables
#define w_cht_hist   sm_g.cht_hist
#define g_ch_bis     sm_g.ch_bis
#define g_ch_bs      sm_g.ch_bs
#define w_trl_crc    sm_g.trl_crc
#define w_iter       sm_g.iter

/* Cost note (measured): any constant-size slice operation of a few KiB (memset, havoc of an assigns target)
 * inside the level buffer -- an object of symbolic size -- sends the verifier's array back end beyond 20 GB.
 *  - memset(&level_buf->hist, 0, sizeof hist) in init_new_icf_block is therefore modelled in the harness
 *    (SM_MEMSET_MODEL, selected by the text of its destination argument): it asserts that the call clears
 *    exactly one histogram inside the level buffer and zeroes the entry at the ghost index g_h (arbitrary,
 *    so: any entry); the other entries are not modelled -- nothing after the call reads the histogram.
 *  - frames: where a contract is ENFORCED its assigns clause names the exact slices; where the same contract
 *    stands in for a call inside isal_deflate_icf_pass (-DSM_PASS) the slices are widened to the whole level
 *    buffer (a larger frame is the weaker, safe statement for a caller). */
#define SM_MEMSET_MODEL                                                                            \
        static inline void *sm_memset_hist(struct isal_mod_hist *h, int c, size_t n)               \
        {                                                                                          \
                __CPROVER_assert(c == 0 && n == sizeof(*h) && __CPROVER_w_ok(h, sizeof(*h)),       \
                                 "memset model: clears exactly one histogram inside the level buffer"); \
                if (g_h < 30)                                                                      \
                        h->d_hist[g_h] = 0;                                                        \
                if (g_h < 513)                                                                     \
                        h->ll_hist[g_h] = 0;                                                       \
                return h;                                                                          \
        }
#define SM_MEMSET_DEST_TEXT "&level_buf->hist"
#ifdef SM_PASS
#define SM_LB_SLICES(...) __CPROVER_object_whole(stream->level_buf)
#else
#define SM_LB_SLICES(...) __VA_ARGS__
#endif

/* =====================================================================================================
 * init_lvlX_buf (+ the three init_hash*_buf it dispatches to): returns the offset of the token buffer for
 * the level, marks the level buffer initialised, and -- level 3, first time only -- empties the match
 * queue.  C05: that offset plus one token fits into the smallest admissible level buffer, so the
 * subtraction in init_new_icf_block cannot wrap.
 * ===================================================================================================== */
#define C_init_lvlX_buf                                                                            \
        SM_FRESH                                                                                   \
        __CPROVER_assigns(ST.has_level_buf_init;                                                   \
                          stream->level == 3 && !ST.has_level_buf_init: LB->hash_map.matches_next, \
                          LB->hash_map.matches_end)                                                \
        __CPROVER_ensures(RET == (int) SM_LSZ(stream->level))                                      \
        __CPROVER_ensures((uint32_t) RET + SM_TOK <= SM_LMIN(stream->level))                       \
        __CPROVER_ensures(ST.has_level_buf_init == 1)                                              \
        __CPROVER_ensures((stream->level == 3 && !OLD(ST.has_level_buf_init)) ==>                  \
                          (LB->hash_map.matches_next == LB->hash_map.matches &&                    \
                           LB->hash_map.matches_end == LB->hash_map.matches))

/* are_buffers_empty: no input left and (level 3) nothing queued */
#define SM_EMPTY                                                                                   \
        (stream->avail_in == 0 &&                                                                  \
         (stream->level != 3 || OFF(LB->hash_map.matches_next) >= OFF(LB->hash_map.matches_end)))
#define C_are_buffers_empty                                                                        \
        SM_FRESH                                                                                   \
        SM_MATCHQ                                                                                  \
        __CPROVER_assigns()                                                                        \
        __CPROVER_ensures((RET != 0) == SM_EMPTY)

/* =====================================================================================================
 * init_new_icf_block: a new block starts where the previous one ended; empty token buffer placed behind the
 * level tables, one token held back for the end-of-block symbol; histogram cleared; state BODY.
 * ===================================================================================================== */
#ifndef SM_PASS
#define C_init_new_icf_block                                                                       \
        SM_FRESH                                                                                   \
        __CPROVER_requires(ST.state == ZSTATE_NEW_HDR)                                             \
        __CPROVER_assigns(ST.has_level_buf_init, ST.block_next, ST.state,                          \
                          SM_LB_SLICES(LB->icf_buf_start, LB->icf_buf_next, LB->icf_buf_avail_out, \
                                       __CPROVER_object_upto((uint8_t *) &LB->hist,                \
                                                             sizeof(struct isal_mod_hist));        \
                                       stream->level == 3 && !ST.has_level_buf_init                \
                                       : LB->hash_map.matches_next, LB->hash_map.matches_end))     \
        __CPROVER_ensures(ST.state == ZSTATE_BODY && ST.block_next == OLD(ST.block_end) &&         \
                          ST.block_end == OLD(ST.block_end) && ST.has_level_buf_init == 1)         \
        __CPROVER_ensures(LB->icf_buf_start ==                                                     \
                                  (struct deflate_icf *) (stream->level_buf + SM_LSZ(stream->level)) && \
                          LB->icf_buf_next == LB->icf_buf_start)                                   \
        __CPROVER_ensures(LB->icf_buf_avail_out ==                                                 \
                                  stream->level_buf_size - SM_LSZ(stream->level) - SM_TOK &&       \
                          LB->icf_buf_avail_out >= SM_LMIN(stream->level) - SM_LSZ(stream->level) - SM_TOK) \
        __CPROVER_ensures(SM_ICF_WF(SM_TOK))                                                       \
        __CPROVER_ensures(g_h < 30 ==> LB->hist.d_hist[g_h] == 0)                                  \
        __CPROVER_ensures(g_h < 513 ==> LB->hist.ll_hist[g_h] == 0)
#endif

/* =====================================================================================================
 * ASSUMED: the match finders.  Frame: input counters, block_end, has_hist, state, and the level buffer
 * (tables, histogram, tokens).  Input counters move together and forwards; block_end follows total_in once
 * anything was consumed; the token buffer stays well-formed; successor states as in the table above.
 * Progress (used for the termination of the pass loop): a kernel that closes a block it entered EMPTY
 * (CREATE_HDR with icf_buf_next == icf_buf_start at entry) has consumed input, unless it is the empty block
 * of a flush / end of stream with no input left.  BODY is kept only when at most ISAL_LOOK_AHEAD bytes are
 * left; the finisher keeps FLUSH_READ_BUFFER only... never with input left and space in the token buffer.
 * ===================================================================================================== */
#define SM_K_IN (OLD(stream->avail_in) - stream->avail_in)
#define SM_KERNEL_LB __CPROVER_object_whole(stream->level_buf)
#define SM_KERNEL_FRAME                                                                            \
        stream->next_in, stream->avail_in, stream->total_in, ST.block_end, ST.has_hist, ST.state,  \
                SM_KERNEL_LB
#define SM_KERNEL_POST                                                                             \
        __CPROVER_ensures(stream->avail_in <= OLD(stream->avail_in) &&                             \
                          stream->next_in == OLD(stream->next_in) + SM_K_IN &&                     \
                          stream->total_in == OLD(stream->total_in) + SM_K_IN)                     \
        __CPROVER_ensures(SM_K_IN > 0 ==> ST.block_end == stream->total_in)                        \
        __CPROVER_ensures(SM_K_IN == 0 ==>                                                         \
                          (ST.block_end == OLD(ST.block_end) || ST.block_end == stream->total_in)) \
        __CPROVER_ensures(ST.has_hist == (SM_K_IN > 0 ? IGZIP_HIST : OLD(ST.has_hist)))            \
        __CPROVER_ensures(LB->icf_buf_start == OLD_LB_START &&                           \
                          __CPROVER_same_object(LB->icf_buf_next, stream->level_buf) &&            \
                          OFF(LB->icf_buf_next) >= OFF(OLD_LB_NEXT) &&                   \
                          OFF(LB->icf_buf_next) + SM_TOK <= stream->level_buf_size &&              \
                          (OFF(LB->icf_buf_next) - OFF(OLD_LB_NEXT)) % SM_TOK == 0)      \
        __CPROVER_ensures(LB->deflate_hdr_count == OLD(LBF(uint32_t, deflate_hdr_count)) &&                   \
                          LB->deflate_hdr_extra_bits == OLD(LBF(uint32_t, deflate_hdr_extra_bits)))           \
        __CPROVER_ensures((ST.state == ZSTATE_CREATE_HDR &&                                        \
                           OLD_LB_NEXT == OLD_LB_START) ==>                    \
                          (SM_K_IN > 0 || (stream->avail_in == 0 &&                                \
                                           (stream->end_of_stream || stream->flush != NO_FLUSH))))

void
isal_deflate_icf_body(struct isal_zstream *stream)
        /* clang-format off */
__CPROVER_requires(ST.state == ZSTATE_BODY)
__CPROVER_requires(__CPROVER_r_ok(stream->next_in, stream->avail_in))
__CPROVER_assigns(SM_KERNEL_FRAME, w_body_calls)
SM_KERNEL_POST
__CPROVER_ensures(w_body_calls == OLD(w_body_calls) + 1)
__CPROVER_ensures(ST.state == ZSTATE_BODY || ST.state == ZSTATE_FLUSH_READ_BUFFER || ST.state == ZSTATE_CREATE_HDR)
__CPROVER_ensures(ST.state == ZSTATE_BODY ==> stream->avail_in <= ISAL_LOOK_AHEAD)
__CPROVER_ensures(ST.state == ZSTATE_FLUSH_READ_BUFFER ==> (stream->end_of_stream || stream->flush != NO_FLUSH));
/* clang-format on */
#define SM_FIN_STUB(n)                                                                             \
        void isal_deflate_icf_finish_lvl##n(struct isal_zstream *stream)                           \
        __CPROVER_requires(ST.state == ZSTATE_FLUSH_READ_BUFFER && stream->level == (n))           \
        __CPROVER_requires(__CPROVER_r_ok(stream->next_in, stream->avail_in))                      \
        __CPROVER_assigns(SM_KERNEL_FRAME, w_fin_calls, w_fin_lvl)                                 \
        SM_KERNEL_POST                                                                             \
        __CPROVER_ensures(w_fin_calls == OLD(w_fin_calls) + 1 && w_fin_lvl == (n))                 \
        __CPROVER_ensures(ST.state == ZSTATE_FLUSH_READ_BUFFER || ST.state == ZSTATE_CREATE_HDR)
SM_FIN_STUB(1);
SM_FIN_STUB(2);
SM_FIN_STUB(3);

/* isal_deflate_icf_finish: the finisher of exactly the configured level runs, once (the contract IS the
 * kernel contract plus that record; levels outside 1..3 are excluded by check_level_req) */
#define C_isal_deflate_icf_finish                                                                  \
        SM_FRESH                                                                                   \
        __CPROVER_requires(ST.state == ZSTATE_FLUSH_READ_BUFFER)                                   \
        __CPROVER_requires(__CPROVER_is_fresh(stream->next_in, stream->avail_in))                  \
        __CPROVER_assigns(SM_KERNEL_FRAME, w_fin_calls, w_fin_lvl)                                 \
        SM_KERNEL_POST                                                                             \
        __CPROVER_ensures(w_fin_calls == OLD(w_fin_calls) + 1 && w_fin_lvl == stream->level)       \
        __CPROVER_ensures(ST.state == ZSTATE_FLUSH_READ_BUFFER || ST.state == ZSTATE_CREATE_HDR)

/* =====================================================================================================
 * ASSUMED: encode_deflate_icf (dispatched asm; portable twin encode_deflate_icf_base proved by w-huff,
 * contracts/igzip_lz.h -- the clauses below are the subset of that contract the state machine needs).
 * g_enc_len: size of the output window [m_out_start, m_out_start + g_enc_len) the caller handed to set_buf
 * (ghost, tied by the caller's contract; the requires checks that it is the one in the bit buffer).
 * A window of fewer than 8 bytes is "full" from the start: nothing is consumed, nothing written.
 * Otherwise tokens are consumed in order until end_in or until the write position passes m_out_end;
 * bytes are written only inside the window; fewer than 8 clean bits stay pending.
 * ===================================================================================================== */
struct deflate_icf *
encode_deflate_icf(struct deflate_icf *next_in, struct deflate_icf *end_in, struct BitBuf2 *bb,
                   struct hufftables_icf *hufftables)
        /* clang-format off */
__CPROVER_requires(__CPROVER_same_object(next_in, end_in) && OFF(next_in) <= OFF(end_in) &&
                   (OFF(end_in) - OFF(next_in)) % SM_TOK == 0 && __CPROVER_r_ok(next_in, OFF(end_in) - OFF(next_in)))
__CPROVER_requires(__CPROVER_r_ok(hufftables, sizeof(*hufftables)))
__CPROVER_requires(bb->m_out_buf == bb->m_out_start && bb->m_out_end == bb->m_out_start + g_enc_len - 8)
__CPROVER_requires(__CPROVER_w_ok(bb->m_out_start, g_enc_len))
__CPROVER_requires(BB_WF(*bb))
__CPROVER_assigns(bb->m_bits, bb->m_bit_count, bb->m_out_buf, __CPROVER_object_upto(bb->m_out_start, g_enc_len),
                  w_enc_calls, w_enc_in, w_enc_end, w_enc_ret, w_enc_bb, w_enc_tables)
__CPROVER_ensures(w_enc_calls == OLD(w_enc_calls) + 1 && w_enc_in == next_in && w_enc_end == end_in &&
                  w_enc_bb == bb && w_enc_tables == hufftables && w_enc_ret == RET)
__CPROVER_ensures(__CPROVER_same_object(RET, next_in) && OFF(next_in) <= OFF(RET) && OFF(RET) <= OFF(end_in) &&
                  (OFF(RET) - OFF(next_in)) % SM_TOK == 0)
__CPROVER_ensures(BB_WF(*bb) && bb->m_out_start == OLD(bb->m_out_start) && bb->m_out_end == OLD(bb->m_out_end))
__CPROVER_ensures(__CPROVER_same_object(bb->m_out_buf, bb->m_out_start) &&
                  OFF(bb->m_out_buf) >= OFF(bb->m_out_start) && OFF(bb->m_out_buf) - OFF(bb->m_out_start) <= g_enc_len)
__CPROVER_ensures(g_enc_len < 8 ==> (RET == next_in && bb->m_out_buf == bb->m_out_start &&
                                     bb->m_bits == OLD(bb->m_bits) && bb->m_bit_count == OLD(bb->m_bit_count)))
__CPROVER_ensures(g_enc_len >= 8 ==> (RET == end_in || OFF(bb->m_out_buf) - OFF(bb->m_out_start) > g_enc_len - 8));
/* clang-format on */

/* =====================================================================================================
 * flush_icf_block (C10, C07): the tokens [icf_buf_start + count, icf_buf_next) -- count = tokens already
 * encoded by earlier calls -- are handed to the encoder together with the stream's bit buffer set up on
 * exactly [next_out, next_out + avail_out) and the block's code tables; the output counters advance by
 * exactly what the encoder wrote.  If the encoder consumed everything (the end-of-block token is the last
 * one) the block is closed: count = 0 and the successor state is chosen from (avail_in, end_of_stream,
 * flush); otherwise the state stays FLUSH_ICF_BUFFER and count records exactly where the encoder stopped --
 * and that can only be for want of space (fewer than 8 bytes left).  The level buffer is not written.
 * ===================================================================================================== */
/* ghost: the window handed to the encoder is the output space of the stream (assignment at entry; the
 * encoder stub checks that the bit buffer was set up on exactly that window) */
#define E_flush_icf_block g_enc_len = stream->avail_out;
#ifdef SM_GE8
#define SM_GE8_REQ __CPROVER_requires(stream->avail_out >= 8)
#else
#define SM_GE8_REQ
#endif
#define FI_USED (OFF(BB.m_out_buf) - OFF(OLD(stream->next_out)))
#define FI_DONE (w_enc_ret == LB->icf_buf_next)
#ifndef SM_PASS
#define C_flush_icf_block                                                                          \
        SM_FRESH                                                                                   \
        SM_OUT_FRESH                                                                               \
        SM_ICF_REQ(0)                                                                              \
        __CPROVER_requires(ST.state == ZSTATE_FLUSH_ICF_BUFFER && BB_WF(BB))                       \
        SM_GE8_REQ                                                                                 \
        __CPROVER_requires(ST.count <= SM_NTOK)                                                    \
        __CPROVER_assigns(stream->next_out, stream->avail_out, stream->total_out, ST.count, ST.state, \
                          BB, __CPROVER_object_upto(stream->next_out, stream->avail_out),          \
                          g_enc_len, w_enc_calls, w_enc_in, w_enc_end, w_enc_ret, w_enc_bb, w_enc_tables)     \
        /* the one encoder call */                                                                 \
        __CPROVER_ensures(w_enc_calls == OLD(w_enc_calls) + 1 &&                                   \
                          w_enc_in == LB->icf_buf_start + OLD(ST.count) &&                         \
                          w_enc_end == LB->icf_buf_next && w_enc_bb == &BB &&                      \
                          w_enc_tables == &LB->encode_tables)                                      \
        /* counters */                                                                             \
        __CPROVER_ensures(stream->next_out == BB.m_out_buf &&                                      \
                          __CPROVER_same_object(stream->next_out, OLD(stream->next_out)) &&        \
                          FI_USED <= OLD(stream->avail_out) &&                                     \
                          stream->avail_out == OLD(stream->avail_out) - FI_USED &&                 \
                          stream->total_out - OLD(stream->total_out) == (uint32_t) FI_USED)        \
        __CPROVER_ensures(BB_WF(BB))                                                               \
        /* resumption point / block closed */                                                      \
        __CPROVER_ensures(!FI_DONE ==>                                                             \
                          (ST.state == ZSTATE_FLUSH_ICF_BUFFER && stream->avail_out < 8 &&         \
                           ST.count * SM_TOK == OFF(w_enc_ret) - OFF(LB->icf_buf_start) &&         \
                           ST.count >= OLD(ST.count) && ST.count < SM_NTOK))                       \
        __CPROVER_ensures(FI_DONE ==>                                                              \
                          (ST.count == 0 &&                                                        \
                           ST.state ==                                                             \
                                   ((stream->avail_in == 0 && stream->end_of_stream)               \
                                            ? ZSTATE_TRL                                           \
                                            : ((stream->avail_in == 0 && stream->flush != NO_FLUSH) \
                                                       ? ZSTATE_SYNC_FLUSH                         \
                                                       : ZSTATE_NEW_HDR))))
#endif

/* =====================================================================================================
 * ASSUMED: create_hufftables_icf (huff_codes.c; w-huff has its frame contract: writes *bb, the output
 * window, *hufftables, *hist only).  Returns the size in bits of the block it priced (unconstrained ghost
 * g_cht_bits).  The window is [m_out_start, m_out_end + 8) as set by set_buf; requires: the end-of-block
 * symbol has a count (otherwise it would get no code), and at least ISAL_DEF_MAX_HDR_SIZE - 10 bytes of
 * window (what create_icf_block_hdr guarantees; that this suffices for any dynamic header is igzip.c's own
 * documented assumption, not decided here).  The header ends at least 8 bytes before the window's end.
 * ===================================================================================================== */
extern uint64_t g_cht_bits;
#define CHT_WIN (OFF(bb->m_out_end) + 8 - OFF(bb->m_out_start))
/* g_cht_win: the window size as a ghost that the caller's contract ties to the entry values (checked here
 * against the bit buffer).  Havocking the window with this symbolic size keeps the array encoding lazy; with
 * the constant 328 of the buffered case (a constant-size slice of the symbolic-size level buffer) every
 * obligation of create_icf_block_hdr needed > 300 s. */
extern uint64_t g_cht_win;
uint64_t
create_hufftables_icf(struct BitBuf2 *bb, struct hufftables_icf *hufftables, struct isal_mod_hist *hist,
                      uint32_t end_of_block)
        /* clang-format off */
__CPROVER_requires(bb->m_out_buf == bb->m_out_start && __CPROVER_same_object(bb->m_out_end, bb->m_out_start) &&
                   OFF(bb->m_out_end) >= OFF(bb->m_out_start) && CHT_WIN >= ISAL_DEF_MAX_HDR_SIZE - 10 &&
                   g_cht_win == CHT_WIN && __CPROVER_w_ok(bb->m_out_start, CHT_WIN))
__CPROVER_requires(BB_WF(*bb))
__CPROVER_requires(__CPROVER_w_ok(hufftables, sizeof(*hufftables)) && __CPROVER_w_ok(hist, sizeof(*hist)))
__CPROVER_requires(hist->ll_hist[256] >= 1)
/* (*hufftables and *hist are in the real frame but not havocked by this stub -- see the cost note; the caller
 * does not read them after the call and its own assigns clause lists them) */
__CPROVER_assigns(bb->m_bits, bb->m_bit_count, bb->m_out_buf, __CPROVER_object_upto(bb->m_out_start, g_cht_win),
                  w_cht_calls, w_cht_eob, w_cht_bb, w_cht_tables, w_cht_hist)
__CPROVER_ensures(w_cht_calls == OLD(w_cht_calls) + 1 && w_cht_eob == end_of_block && w_cht_bb == bb &&
                  w_cht_tables == hufftables && w_cht_hist == hist && RET == g_cht_bits)
__CPROVER_ensures(BB_WF(*bb) && bb->m_out_start == OLD(bb->m_out_start) && bb->m_out_end == OLD(bb->m_out_end))
__CPROVER_ensures(__CPROVER_same_object(bb->m_out_buf, bb->m_out_start) &&
                  OFF(bb->m_out_buf) >= OFF(bb->m_out_start) && OFF(bb->m_out_buf) <= OFF(bb->m_out_end))
/* the function ends with write_bits, whose 8-byte store leaves the pending bits in memory at the write position
 * too (write_header later reads that byte as the header's partial byte -- with zero pending bits it must be 0) */
__CPROVER_ensures(bb->m_out_start[OFF(bb->m_out_buf) - OFF(bb->m_out_start)] == (uint8_t) bb->m_bits);
/* clang-format on */

/* COARSE ABSTRACTION of write_stream_header_stateless (proved: igzip_deflate_frame.h): all or nothing */
#define SHS_LEN(gz) ((gz) == IGZIP_ZLIB ? 2u : 10u)
#define C_write_stream_header_stateless                                                            \
        __CPROVER_requires(stream->gzip_flag == IGZIP_GZIP || stream->gzip_flag == IGZIP_ZLIB)     \
        __CPROVER_requires(stream->hist_bits <= ISAL_DEF_MAX_HIST_BITS)                            \
        __CPROVER_requires(__CPROVER_w_ok(stream->next_out, stream->avail_out))                    \
        __CPROVER_assigns(stream->next_out, stream->avail_out, stream->total_out, ST.has_wrap_hdr, \
                          stream->gzip_flag, w_shs_calls;                                          \
                          stream->avail_out >= 10: __CPROVER_object_upto(stream->next_out, 10))    \
        __CPROVER_ensures(w_shs_calls == OLD(w_shs_calls) + 1)                                     \
        __CPROVER_ensures((OLD(ST.has_wrap_hdr) || OLD(stream->avail_out) <= SHS_LEN(OLD(stream->gzip_flag))) ==> \
                          (stream->next_out == OLD(stream->next_out) &&                            \
                           stream->avail_out == OLD(stream->avail_out) &&                          \
                           stream->total_out == OLD(stream->total_out) &&                          \
                           stream->gzip_flag == OLD(stream->gzip_flag) &&                          \
                           ST.has_wrap_hdr == OLD(ST.has_wrap_hdr)))                               \
        __CPROVER_ensures((!OLD(ST.has_wrap_hdr) && OLD(stream->avail_out) > SHS_LEN(OLD(stream->gzip_flag))) ==> \
                          (stream->next_out == OLD(stream->next_out) + SHS_LEN(OLD(stream->gzip_flag)) && \
                           stream->avail_out == OLD(stream->avail_out) - SHS_LEN(OLD(stream->gzip_flag)) && \
                           stream->total_out == OLD(stream->total_out) + SHS_LEN(OLD(stream->gzip_flag)) && \
                           ST.has_wrap_hdr == 1 &&                                                 \
                           stream->gzip_flag == (OLD(stream->gzip_flag) == IGZIP_ZLIB ? IGZIP_ZLIB_NO_HDR \
                                                                                      : IGZIP_GZIP_NO_HDR)))

/* =====================================================================================================
 * create_icf_block_hdr (C10, C07, C01 BFINAL): closes the token buffer with the end-of-block token, prices
 * the block (create_hufftables_icf writes the dynamic header while doing so) and decides how it goes out.
 *   E     = end_of_stream && are_buffers_empty        -- this is the last block; handed to the table
 *           builder as end_of_block (= BFINAL of the header it writes) and recorded in has_eob_hdr
 *   BS    = bytes a stored version needs: 5 per started 65535-byte piece (at least one) + the block's bytes
 *           + one more byte when the pending bits and the 3 header bits do not fit one byte
 *   direct= at least ISAL_DEF_MAX_HDR_SIZE bytes of output: header straight into the output (after the
 *           gzip/zlib wrapper header if that is still due); else buffered in level_buf->deflate_hdr
 *   T0    = the decision, as the code takes it: stored when the priced size g_cht_bits/8 is not smaller
 *           than BS, the block's bytes are still addressable behind next_in (cur_in_processed >=
 *           block_start_offset) and BS fits into output + internal buffer space
 *   T0:       state TYPE0_HDR, has_eob_hdr = 0 (the stored writer sets BFINAL itself), bit buffer exactly as
 *             at entry; the header bytes written are dead
 *   buffered: state HDR; deflate_hdr_count/extra_bits describe the header (pending bits of the previous block
 *             included in front), partial byte clean; bit buffer emptied; output counters untouched
 *   direct:   state FLUSH_ICF_BUFFER; output counters advanced by exactly the header bytes
 * start_in: start of the caller's input buffer (next_in lies in it).
 * ===================================================================================================== */
extern size_t g_in_len;
/* BS is computed by the E_ hook at entry -- 5 header bytes per started 65535-byte piece (RFC 1951 3.2.4), at
 * least one piece, plus the block's bytes, plus one byte when pending bits + 3 header bits exceed a byte --
 * into the ghost g_ch_bs.  (Stated over __CPROVER_old values in the ensures clause it would be a second 64-bit
 * divider that the SAT solver has to prove equal to the code's: > 300 s per obligation.) */
#define E_create_icf_block_hdr                                                                     \
        g_ch_bis = ST.block_end - ST.block_next;                                                   \
        g_ch_bs = (TYPE0_BLK_HDR_LEN) * ((g_ch_bis + TYPE0_MAX_BLK_LEN - 1) / TYPE0_MAX_BLK_LEN) + g_ch_bis; \
        g_ch_bs = g_ch_bs ? g_ch_bs : TYPE0_BLK_HDR_LEN;                                           \
        g_ch_bs += (BB.m_bit_count + 2) / 8;
#define CH_BS g_ch_bs
#define CH_E ((stream->end_of_stream && SM_EMPTY) ? 1 : 0)
#define CH_DIRECT (OLD(stream->avail_out) >= ISAL_DEF_MAX_HDR_SIZE)
#define CH_WRAP_NOW                                                                                \
        (CH_DIRECT && (OLD(stream->gzip_flag) == IGZIP_GZIP || OLD(stream->gzip_flag) == IGZIP_ZLIB) && \
         !OLD(ST.has_wrap_hdr))
#define CH_SH (CH_WRAP_NOW ? SHS_LEN(OLD(stream->gzip_flag)) : 0u)
#define CH_AV1 (OLD(stream->avail_out) - CH_SH) /* output space when the table builder runs */
#define CH_BSO ((uint32_t) (stream->total_in - OLD(ST.block_next)))
#define CH_CUR ((uint64_t) (OFF(stream->next_in) - OFF(start_in)))
#define CH_AVO                                                                                     \
        ((uint32_t) (CH_AV1 + sizeof(ST.buffer) - (stream->total_in - OLD(ST.block_end))))
#define CH_T0 (g_cht_bits / 8 >= CH_BS && CH_CUR >= CH_BSO && CH_BS <= CH_AVO)
#define CH_OUT1 (OLD(stream->next_out) + CH_SH)
#define CH_HUSED (OFF(BB.m_out_buf) - OFF(CH_OUT1)) /* direct: header bytes written */
/* instances: -DSM_CH_DIRECT (avail_out >= ISAL_DEF_MAX_HDR_SIZE), -DSM_CH_BUFFERED (avail_out below) */
#if defined(SM_CH_DIRECT)
#define SM_CH_REQ __CPROVER_requires(stream->avail_out >= ISAL_DEF_MAX_HDR_SIZE)
#elif defined(SM_CH_BUFFERED)
#define SM_CH_REQ __CPROVER_requires(stream->avail_out < ISAL_DEF_MAX_HDR_SIZE)
#else
#define SM_CH_REQ
#endif
#define CHP_DIRECT (stream->avail_out >= ISAL_DEF_MAX_HDR_SIZE)
#define CHP_SH                                                                                     \
        ((CHP_DIRECT && (stream->gzip_flag == IGZIP_GZIP || stream->gzip_flag == IGZIP_ZLIB) &&    \
          !ST.has_wrap_hdr)                                                                        \
                 ? SHS_LEN(stream->gzip_flag)                                                      \
                 : 0u)
#ifndef SM_PASS
#define C_create_icf_block_hdr                                                                     \
        SM_FRESH                                                                                   \
        SM_OUT_FRESH                                                                               \
        SM_CH_REQ                                                                                  \
        SM_MATCHQ                                                                                  \
        SM_ICF_REQ(SM_TOK)                                                                         \
        __CPROVER_requires(ST.state == ZSTATE_CREATE_HDR && BB_WF(BB))                             \
        __CPROVER_requires(stream->hist_bits <= ISAL_DEF_MAX_HIST_BITS)                            \
        __CPROVER_requires(g_cht_win == (CHP_DIRECT ? (uint64_t) (stream->avail_out - CHP_SH)      \
                                                    : (uint64_t) ISAL_DEF_MAX_HDR_SIZE))           \
        __CPROVER_requires(g_in_len <= 0xffffffffu && __CPROVER_is_fresh(start_in, g_in_len) &&    \
                           __CPROVER_pointer_in_range_dfcc(start_in, stream->next_in, start_in + g_in_len)) \
        __CPROVER_assigns(stream->next_out, stream->avail_out, stream->total_out, stream->gzip_flag, \
                          ST.has_wrap_hdr, ST.state, ST.has_eob_hdr, BB,                           \
                          __CPROVER_object_upto(stream->next_out, stream->avail_out),              \
                          SM_LB_SLICES(__CPROVER_object_upto((uint8_t *) &LB->hist,                \
                                                             sizeof(struct isal_mod_hist)),        \
                                       __CPROVER_object_upto((uint8_t *) &LB->encode_tables,       \
                                                             sizeof(struct hufftables_icf)),       \
                                       LB->deflate_hdr_count, LB->deflate_hdr_extra_bits,          \
                                       __CPROVER_object_upto(LB->deflate_hdr, ISAL_DEF_MAX_HDR_SIZE), \
                                       LB->icf_buf_next,                                           \
                                       __CPROVER_object_upto((uint8_t *) LB->icf_buf_next, SM_TOK)), \
                          w_cht_calls, w_cht_eob, w_cht_bb, w_cht_tables, w_cht_hist, w_shs_calls,  \
                          g_ch_bis, g_ch_bs)                                                       \
        __CPROVER_ensures(TYPE0_BLK_HDR_LEN == 5 && TYPE0_MAX_BLK_LEN == 65535)                    \
        /* end-of-block token appended */                                                          \
        __CPROVER_ensures(LB->icf_buf_next == OLD_LB_NEXT + 1 &&                         \
                          OLD_LB_NEXT->lit_len == 0x100 &&                               \
                          OLD_LB_NEXT->lit_dist == NULL_DIST_SYM &&                      \
                          OLD_LB_NEXT->dist_extra == 0 && SM_ICF_WF(0))                  \
        /* one pricing call: this block's tables and histogram, BFINAL = E, into the stream's bit buffer */ \
        __CPROVER_ensures(w_cht_calls == OLD(w_cht_calls) + 1 && w_cht_eob == (uint32_t) CH_E &&   \
                          w_cht_bb == &BB && w_cht_tables == &LB->encode_tables &&                 \
                          w_cht_hist == &LB->hist)                                                 \
        __CPROVER_ensures(w_shs_calls == OLD(w_shs_calls) + (CH_DIRECT && (OLD(stream->gzip_flag) == IGZIP_GZIP || OLD(stream->gzip_flag) == IGZIP_ZLIB) ? 1 : 0)) \
        __CPROVER_ensures(ST.state == (CH_T0 ? ZSTATE_TYPE0_HDR                                    \
                                             : (CH_DIRECT ? ZSTATE_FLUSH_ICF_BUFFER : ZSTATE_HDR))) \
        __CPROVER_ensures(ST.has_eob_hdr == (CH_T0 ? 0 : CH_E))                                    \
        /* stored: bit buffer and (apart from a wrapper header) the output counters as at entry */ \
        __CPROVER_ensures(CH_T0 ==> (BB.m_bits == OLD(BB.m_bits) && BB.m_bit_count == OLD(BB.m_bit_count) && \
                                     BB.m_out_buf == OLD(BB.m_out_buf) &&                          \
                                     BB.m_out_start == OLD(BB.m_out_start) &&                      \
                                     BB.m_out_end == OLD(BB.m_out_end)))                           \
        __CPROVER_ensures((CH_T0 || !CH_DIRECT) ==>                                                \
                          (stream->next_out == CH_OUT1 && stream->avail_out == CH_AV1 &&           \
                           stream->total_out == OLD(stream->total_out) + CH_SH))                   \
        /* buffered header */                                                                      \
        __CPROVER_ensures((!CH_T0 && !CH_DIRECT) ==>                                               \
                          (BB.m_bits == 0 && BB.m_bit_count == 0 &&                                \
                           LB->deflate_hdr_count <= ISAL_DEF_MAX_HDR_SIZE - 8 &&                   \
                           LB->deflate_hdr_extra_bits < 8 &&                                       \
                           (LB->deflate_hdr[LB->deflate_hdr_count] >> LB->deflate_hdr_extra_bits) == 0)) \
        /* direct header */                                                                        \
        __CPROVER_ensures((!CH_T0 && CH_DIRECT) ==>                                                \
                          (stream->next_out == BB.m_out_buf &&                                     \
                           __CPROVER_same_object(stream->next_out, OLD(stream->next_out)) &&       \
                           CH_HUSED + 8 <= CH_AV1 && stream->avail_out == CH_AV1 - CH_HUSED &&     \
                           stream->total_out - OLD(stream->total_out) == (uint32_t) (CH_SH + CH_HUSED) && \
                           BB_WF(BB)))                                                             \
        __CPROVER_ensures(ST.block_next == OLD(ST.block_next) && ST.block_end == OLD(ST.block_end) && \
                          ST.count == OLD(ST.count))
#endif

/* =====================================================================================================
 * -DSM_PASS: the views of init_new_icf_block, flush_icf_block and create_icf_block_hdr that
 * isal_deflate_icf_pass uses.  Each is a WEAKENING of the contract proved above -- the same scalar
 * preconditions (so they are obligations at the call sites), a subset of the postconditions restated over
 * state / counters / well-formedness, frames widened to whole objects -- written out separately because the
 * detailed clauses, assumed once per call site and loop iteration, exhaust the solver's memory.
 * ===================================================================================================== */
#ifdef SM_PASS
#define SM_NO_WRAP                                                                                 \
        ((stream->gzip_flag != IGZIP_GZIP && stream->gzip_flag != IGZIP_ZLIB) || ST.has_wrap_hdr)
#define C_init_new_icf_block                                                                       \
        __CPROVER_requires(ST.state == ZSTATE_NEW_HDR)                                             \
        __CPROVER_requires(1 <= stream->level && stream->level <= 3 &&                             \
                           SM_LMIN(stream->level) <= stream->level_buf_size &&                     \
                           __CPROVER_w_ok(stream->level_buf, stream->level_buf_size))              \
        __CPROVER_assigns(ST.has_level_buf_init, ST.block_next, ST.state,                          \
                          __CPROVER_object_whole(stream->level_buf))                               \
        __CPROVER_ensures(ST.state == ZSTATE_BODY && ST.block_next == OLD(ST.block_end) &&         \
                          SM_ICF_WF(SM_TOK) && LB->icf_buf_next == LB->icf_buf_start)
#define C_flush_icf_block                                                                          \
        __CPROVER_requires(ST.state == ZSTATE_FLUSH_ICF_BUFFER && BB_WF(BB) && SM_ICF_WF(0) &&     \
                           ST.count <= SM_NTOK)                                                    \
        __CPROVER_requires(__CPROVER_w_ok(stream->next_out, stream->avail_out))                    \
        __CPROVER_assigns(stream->next_out, stream->avail_out, stream->total_out, ST.count, ST.state, \
                          BB, __CPROVER_object_whole(stream->next_out), g_enc_len, w_enc_calls)    \
        __CPROVER_ensures(w_enc_calls == OLD(w_enc_calls) + 1 && SM_OUT_FWD && BB_WF(BB))          \
        __CPROVER_ensures(ST.state == ZSTATE_FLUSH_ICF_BUFFER                                      \
                                  ? (stream->avail_out < 8 && ST.count < SM_NTOK)                  \
                                  : (ST.count == 0 &&                                              \
                                     ST.state ==                                                   \
                                             ((stream->avail_in == 0 && stream->end_of_stream)     \
                                                      ? ZSTATE_TRL                                 \
                                                      : ((stream->avail_in == 0 &&                 \
                                                          stream->flush != NO_FLUSH)               \
                                                                 ? ZSTATE_SYNC_FLUSH               \
                                                                 : ZSTATE_NEW_HDR))))
#define C_create_icf_block_hdr                                                                     \
        __CPROVER_requires(ST.state == ZSTATE_CREATE_HDR && BB_WF(BB) && SM_ICF_WF(SM_TOK))        \
        __CPROVER_requires(stream->hist_bits <= ISAL_DEF_MAX_HIST_BITS && SM_NO_WRAP)              \
        __CPROVER_requires(__CPROVER_w_ok(stream->next_out, stream->avail_out))                    \
        __CPROVER_requires(__CPROVER_same_object(stream->next_in, start_in) &&                     \
                           OFF(stream->next_in) >= OFF(start_in))                                  \
        __CPROVER_assigns(stream->next_out, stream->avail_out, stream->total_out, ST.state,        \
                          ST.has_eob_hdr, BB, __CPROVER_object_whole(stream->next_out),            \
                          __CPROVER_object_whole(stream->level_buf), w_cht_calls, w_cht_eob,       \
                          g_ch_bis, g_ch_bs)                                                       \
        __CPROVER_ensures(w_cht_calls == OLD(w_cht_calls) + 1 && SM_OUT_FWD && SM_ICF_WF(0))       \
        __CPROVER_ensures(ST.state == ZSTATE_TYPE0_HDR || ST.state == ZSTATE_HDR ||                \
                          ST.state == ZSTATE_FLUSH_ICF_BUFFER)                                     \
        __CPROVER_ensures(ST.has_eob_hdr <= 1 && (ST.state == ZSTATE_TYPE0_HDR ==> ST.has_eob_hdr == 0) && \
                          (ST.has_eob_hdr == 1 ==> (stream->end_of_stream && stream->avail_in == 0))) \
        __CPROVER_ensures(ST.state == ZSTATE_TYPE0_HDR ==>                                         \
                          (BB.m_bits == OLD(BB.m_bits) && BB.m_bit_count == OLD(BB.m_bit_count) && \
                           SM_OUT_ADV == 0))                                                       \
        __CPROVER_ensures(ST.state == ZSTATE_HDR ==>                                               \
                          (BB.m_bits == 0 && BB.m_bit_count == 0 && SM_OUT_ADV == 0 &&             \
                           LB->deflate_hdr_count <= ISAL_DEF_MAX_HDR_SIZE - 8 &&                   \
                           LB->deflate_hdr_extra_bits < 8 &&                                       \
                           (LB->deflate_hdr[LB->deflate_hdr_count < ISAL_DEF_MAX_HDR_SIZE ? LB->deflate_hdr_count : 0] >> \
                            LB->deflate_hdr_extra_bits) == 0))                                     \
        __CPROVER_ensures(ST.state == ZSTATE_FLUSH_ICF_BUFFER ==> BB_WF(BB))                       \
        __CPROVER_ensures(ST.count == OLD(ST.count))
#endif

/* =====================================================================================================
 * write_header as the icf pass uses it (toggle_end_of_stream == 0), COARSE: state and counters only; the
 * byte-level contract is w-deflate's (igzip_deflate_frame.h, which covers the level-0 use where the flag
 * must be "armed" -- not the case here, hence this separate statement, enforced by harness icf_write_header).
 * No wrapper header pending (as there).  Resumable: count = header bytes already out.  Not finished ==>
 * fewer than 8 bytes of space left.  has_eob_hdr is not touched.
 * ===================================================================================================== */
#define WH_ADV (OLD(stream->avail_out) - stream->avail_out)
#define C_write_header                                                                             \
        __CPROVER_requires(__CPROVER_is_fresh(stream, sizeof(*stream)))                            \
        SM_OUT_FRESH                                                                               \
        __CPROVER_requires(BB_WF(BB) && toggle_end_of_stream == 0)                                 \
        __CPROVER_requires((stream->gzip_flag != IGZIP_GZIP && stream->gzip_flag != IGZIP_ZLIB) || \
                           ST.has_wrap_hdr)                                                        \
        __CPROVER_requires(deflate_hdr_count < ISAL_DEF_MAX_HDR_SIZE && ST.count <= deflate_hdr_count) \
        __CPROVER_requires(__CPROVER_is_fresh(deflate_hdr, deflate_hdr_count + 1))                 \
        __CPROVER_requires(extra_bits_count < 8 &&                                                 \
                           (deflate_hdr[deflate_hdr_count] >> extra_bits_count) == 0)              \
        __CPROVER_assigns(ST.state, stream->next_out, stream->avail_out, stream->total_out, BB,    \
                          ST.count, __CPROVER_object_upto(stream->next_out, stream->avail_out))    \
        __CPROVER_ensures(stream->avail_out <= OLD(stream->avail_out) &&                           \
                          stream->next_out == OLD(stream->next_out) + WH_ADV &&                    \
                          stream->total_out == OLD(stream->total_out) + WH_ADV)                    \
        __CPROVER_ensures(ST.state == ZSTATE_HDR || (uint32_t) ST.state == next_state)             \
        __CPROVER_ensures((next_state != ZSTATE_HDR && ST.state == ZSTATE_HDR) ==>                 \
                          (stream->avail_out < 8 && ST.count >= OLD(ST.count) &&                   \
                           ST.count <= deflate_hdr_count &&                                        \
                           ST.count - OLD(ST.count) <= WH_ADV))                                    \
        __CPROVER_ensures((next_state != ZSTATE_HDR && (uint32_t) ST.state == next_state) ==>      \
                          (ST.count == 0 && BB.m_bit_count == extra_bits_count &&                  \
                           BB.m_bits == deflate_hdr[deflate_hdr_count] &&                          \
                           WH_ADV == (OLD(BB.m_bit_count) ? 1u : 0u) + (deflate_hdr_count - OLD(ST.count)))) \
        __CPROVER_ensures(BB_WF(BB) && ST.has_eob_hdr == OLD(ST.has_eob_hdr))

/* =====================================================================================================
 * COARSE ABSTRACTIONS (state + counters) of functions proved in igzip_deflate_frame.h.  Same scalar
 * preconditions as there, so that they are obligations at the call sites in isal_deflate_icf_pass.
 * ===================================================================================================== */
#define SM_OUT_ADV (OLD(stream->avail_out) - stream->avail_out)
#define SM_OUT_FWD                                                                                 \
        (stream->avail_out <= OLD(stream->avail_out) &&                                            \
         stream->next_out == OLD(stream->next_out) + SM_OUT_ADV &&                                 \
         stream->total_out == OLD(stream->total_out) + SM_OUT_ADV)
#define SM_OUT_FRAME                                                                               \
        stream->next_out, stream->avail_out, stream->total_out,                                    \
                __CPROVER_object_whole(stream->next_out)
#define C_sync_flush                                                                               \
        __CPROVER_requires(BB_WF(BB) && __CPROVER_w_ok(stream->next_out, stream->avail_out))       \
        __CPROVER_assigns(SM_OUT_FRAME, BB, ST.state, ST.has_eob, ST.has_hist, w_sf_calls)         \
        __CPROVER_ensures(w_sf_calls == OLD(w_sf_calls) + 1 && SM_OUT_FWD && BB_WF(BB))            \
        __CPROVER_ensures(OLD(stream->avail_out) < 8 ==>                                           \
                          (SM_OUT_ADV == 0 && ST.state == OLD(ST.state) &&                         \
                           ST.has_hist == OLD(ST.has_hist) && ST.has_eob == OLD(ST.has_eob)))      \
        __CPROVER_ensures(OLD(stream->avail_out) >= 8 ==>                                          \
                          (ST.state == ZSTATE_NEW_HDR && BB.m_bit_count == 0 &&                    \
                           (SM_OUT_ADV == 5 || SM_OUT_ADV == 6) &&                                 \
                           ST.has_hist == (stream->flush == FULL_FLUSH ? IGZIP_NO_HIST : OLD(ST.has_hist))))
#define C_flush_write_buffer                                                                       \
        __CPROVER_requires(BB_WF(BB) && __CPROVER_w_ok(stream->next_out, stream->avail_out))       \
        __CPROVER_assigns(SM_OUT_FRAME, BB, ST.state, w_fwb_calls)                                 \
        __CPROVER_ensures(w_fwb_calls == OLD(w_fwb_calls) + 1 && SM_OUT_FWD && BB_WF(BB))          \
        __CPROVER_ensures(OLD(stream->avail_out) < 8 ==> (SM_OUT_ADV == 0 && ST.state == OLD(ST.state))) \
        __CPROVER_ensures(OLD(stream->avail_out) >= 8 ==>                                          \
                          (ST.state == ZSTATE_NEW_HDR && BB.m_bit_count == 0 && SM_OUT_ADV <= 1))
#define C_write_trailer                                                                            \
        __CPROVER_requires(BB_WF(BB) && ST.state == ZSTATE_TRL && ST.has_eob_hdr <= 1)             \
        __CPROVER_requires(__CPROVER_w_ok(stream->next_out, stream->avail_out))                    \
        __CPROVER_assigns(SM_OUT_FRAME, BB, ST.state, ST.has_eob_hdr, w_trl_calls, w_trl_crc)      \
        __CPROVER_ensures(w_trl_calls == OLD(w_trl_calls) + 1 && SM_OUT_FWD && BB_WF(BB))          \
        /* the trailer is built from the running checksum as it is at the call (igzip_deflate_frame.h: TR_GZ_AT / \
         * TR_ZL_AT over O_CRC); recorded so that the caller can say which value that was */        \
        __CPROVER_ensures(w_trl_crc == ST.crc)                                                     \
        __CPROVER_ensures(ST.state == ZSTATE_TRL || ST.state == ZSTATE_END)                        \
        __CPROVER_ensures(ST.has_eob_hdr <= 1 && (ST.state == ZSTATE_END ==> ST.has_eob_hdr == 1)) \
        __CPROVER_ensures(ST.state == ZSTATE_TRL ==> stream->avail_out < 11)
/* write_stream_header in front of a stored block: only the "already written" case is covered */
#define C_write_stream_header                                                                      \
        __CPROVER_requires(ST.has_wrap_hdr != 0)                                                   \
        __CPROVER_assigns()                                                                        \
        __CPROVER_ensures(1)
/* write_stored_block: ASSUMED from C_write_stored_block there (whose input-window preconditions and
 * flush != FULL_FLUSH restriction are NOT re-established here) */
#define C_write_stored_block                                                                       \
        __CPROVER_requires(BB_WF(BB) && (ST.state == ZSTATE_TYPE0_HDR || ST.state == ZSTATE_TYPE0_BODY)) \
        __CPROVER_requires(ST.state == ZSTATE_TYPE0_HDR ==> ST.has_eob_hdr == 0)                   \
        __CPROVER_requires(ST.has_eob_hdr <= 1)                                                    \
        __CPROVER_requires(__CPROVER_w_ok(stream->next_out, stream->avail_out))                    \
        __CPROVER_assigns(SM_OUT_FRAME, BB, ST.state, ST.count, ST.block_next, ST.has_eob_hdr,     \
                          ST.has_hist, w_sb_calls)                                                 \
        __CPROVER_ensures(w_sb_calls == OLD(w_sb_calls) + 1 && SM_OUT_FWD && BB_WF(BB))            \
        __CPROVER_ensures(ST.state == ZSTATE_TYPE0_HDR || ST.state == ZSTATE_TYPE0_BODY ||         \
                          ST.state == ZSTATE_TRL || ST.state == ZSTATE_NEW_HDR)                    \
        __CPROVER_ensures(ST.has_eob_hdr <= 1 && (ST.state == ZSTATE_TRL ==> ST.has_eob_hdr == 1) && \
                          (ST.state == ZSTATE_NEW_HDR ==> ST.has_eob_hdr == 0) &&                  \
                          (ST.state == ZSTATE_TYPE0_HDR ==> (ST.has_eob_hdr == 0 && stream->avail_out < 8))) \
        __CPROVER_ensures(ST.state == ZSTATE_TRL ==> stream->end_of_stream != 0)                   \
        __CPROVER_ensures((ST.state == ZSTATE_TRL || ST.state == ZSTATE_NEW_HDR) ==> ST.count == 0)

/* =====================================================================================================
 * isal_deflate_icf_pass: one pass of the machine.  Every callee is used through its contract (the proved
 * ones above, the abstractions, the ASSUMED kernels), so all their preconditions are obligations of this
 * function at every call site, in every iteration.
 * Loop (do ... while (state == NEW_HDR)): invariant = the well-formedness below (partial correctness; see the
 *   note at the loop contract for why no decreases clause is given).
 * ===================================================================================================== */
#define SM_ST_IS(x) (ST.state == (x))
#define SM_STATE_ICF                                                                               \
        (SM_ST_IS(ZSTATE_BODY) || SM_ST_IS(ZSTATE_FLUSH_READ_BUFFER) || SM_ST_IS(ZSTATE_CREATE_HDR) || \
         SM_ST_IS(ZSTATE_HDR) || SM_ST_IS(ZSTATE_FLUSH_ICF_BUFFER))
#define SM_STATE_OK                                                                                \
        (SM_ST_IS(ZSTATE_NEW_HDR) || SM_STATE_ICF || SM_ST_IS(ZSTATE_TYPE0_HDR) ||                 \
         SM_ST_IS(ZSTATE_TYPE0_BODY) || SM_ST_IS(ZSTATE_SYNC_FLUSH) ||                             \
         SM_ST_IS(ZSTATE_FLUSH_WRITE_BUFFER) || SM_ST_IS(ZSTATE_TRL) || SM_ST_IS(ZSTATE_END))
/* what each state promises about the data it will be resumed on */
#define SM_PASS_WF_(b)                                                                                 \
        (SM_STATE_OK && BB_WF(BB) && ST.has_eob_hdr <= 1 &&                                        \
         (SM_STATE_ICF ==> SM_ICF_WF_(b, SM_ST_IS(ZSTATE_FLUSH_ICF_BUFFER) || SM_ST_IS(ZSTATE_HDR) ? 0 : SM_TOK)) && \
         (SM_ST_IS(ZSTATE_HDR) ==>                                                                 \
          (LBP(b)->deflate_hdr_count <= ISAL_DEF_MAX_HDR_SIZE - 8 && ST.count <= LBP(b)->deflate_hdr_count && \
           LBP(b)->deflate_hdr_extra_bits < 8 &&                                                       \
           (LBP(b)->deflate_hdr[LBP(b)->deflate_hdr_count < ISAL_DEF_MAX_HDR_SIZE ? LBP(b)->deflate_hdr_count : 0] >> \
            LBP(b)->deflate_hdr_extra_bits) == 0)) &&                                                  \
         (SM_ST_IS(ZSTATE_FLUSH_ICF_BUFFER) ==> ST.count <= SM_NTOK_(b)) &&                            \
         /* state.count is a progress counter of HDR / FLUSH_ICF_BUFFER / TYPE0_BODY only */        \
         ((SM_ST_IS(ZSTATE_NEW_HDR) || SM_ST_IS(ZSTATE_BODY) || SM_ST_IS(ZSTATE_FLUSH_READ_BUFFER) || \
           SM_ST_IS(ZSTATE_CREATE_HDR) || SM_ST_IS(ZSTATE_SYNC_FLUSH) ||                           \
           SM_ST_IS(ZSTATE_FLUSH_WRITE_BUFFER)) ==> ST.count == 0) &&                              \
         (SM_ST_IS(ZSTATE_TYPE0_HDR) ==> ST.has_eob_hdr == 0))
#define SM_PASS_WF SM_PASS_WF_(stream->level_buf)
#define SM_IN_OK                                                                                   \
        (__CPROVER_same_object(stream->next_in, inbuf_start) && OFF(stream->next_in) >= OFF(inbuf_start) && \
         OFF(stream->next_in) + stream->avail_in <= g_in_len)
#define CK_CRC_CALLS (w_crc_calls - OLD(w_crc_calls))
#define CK_AD_CALLS  (w_ad_calls - OLD(w_ad_calls))
#define SM_GZ (OLD(stream->gzip_flag) == IGZIP_GZIP || OLD(stream->gzip_flag) == IGZIP_GZIP_NO_HDR)
#define SM_ZL (OLD(stream->gzip_flag) == IGZIP_ZLIB || OLD(stream->gzip_flag) == IGZIP_ZLIB_NO_HDR)
/* Frame at object granularity (claim: nothing outside the stream, the level buffer, the output buffer is
 * written; that the caller's parameters inside the stream keep their values is a postcondition).  The loop
 * contract therefore havocs stream->level_buf as well; an invariant pins its value, and the H_ hook re-assigns
 * the entry snapshot g_lb0 after asserting equality, which gives the verifier's points-to analysis the
 * object back (a havocked pointer is otherwise "invalid" for every later dereference). */
#define SM_PASS_FRAME                                                                              \
        __CPROVER_object_whole(stream), __CPROVER_object_whole(stream->next_out),                  \
                __CPROVER_object_whole(stream->level_buf), sm_g, w_crc_init, w_crc_len, w_crc_buf, \
                w_crc_calls, w_ad_init, w_ad_len, w_ad_buf, w_ad_calls
extern uint8_t *g_lb0; /* entry value of stream->level_buf; NOT in the loop frame */
#define E_isal_deflate_icf_pass g_lb0 = stream->level_buf;
#define C_isal_deflate_icf_pass                                                                    \
        SM_FRESH                                                                                   \
        SM_OUT_FRESH                                                                               \
        __CPROVER_requires(g_in_len <= 0xffffffffu && __CPROVER_is_fresh(inbuf_start, g_in_len) && \
                           __CPROVER_pointer_in_range_dfcc(inbuf_start, stream->next_in,           \
                                                           inbuf_start + g_in_len))                \
        __CPROVER_requires(SM_IN_OK)                                                               \
        __CPROVER_requires(SM_STATE_ICF ==>                                                        \
                           __CPROVER_pointer_in_range_dfcc((struct deflate_icf *) stream->level_buf, \
                                                           LB->icf_buf_next,                       \
                                                           (struct deflate_icf *) (stream->level_buf + \
                                                                                   stream->level_buf_size))) \
        SM_MATCHQ                                                                                  \
        __CPROVER_requires(SM_PASS_WF && w_iter == 0)                                              \
        __CPROVER_requires(stream->hist_bits <= ISAL_DEF_MAX_HIST_BITS)                            \
        __CPROVER_requires((stream->gzip_flag != IGZIP_GZIP && stream->gzip_flag != IGZIP_ZLIB) || \
                           ST.has_wrap_hdr)                                                        \
        __CPROVER_assigns(SM_PASS_FRAME, g_lb0)                                                    \
        /* counters only move forwards, together */                                                \
        __CPROVER_ensures(stream->avail_in <= OLD(stream->avail_in) &&                             \
                          stream->next_in == OLD(stream->next_in) + SM_K_IN &&                     \
                          stream->total_in == OLD(stream->total_in) + SM_K_IN)                     \
        __CPROVER_ensures(SM_OUT_FWD)                                                              \
        /* checksum: the routine selected by the wrapper, once, over exactly the input consumed by this pass */ \
        __CPROVER_ensures(SM_GZ ==> (CK_CRC_CALLS == 1 && CK_AD_CALLS == 0 &&                      \
                                     w_crc_init == OLD(ST.crc) && w_crc_buf == OLD(stream->next_in) && \
                                     w_crc_len == SM_K_IN && ST.crc == g_crc_ret))                 \
        __CPROVER_ensures(SM_ZL ==> (CK_CRC_CALLS == 0 && CK_AD_CALLS == 1 &&                      \
                                     w_ad_buf == OLD(stream->next_in) && w_ad_len == SM_K_IN))     \
        __CPROVER_ensures((!SM_GZ && !SM_ZL) ==>                                                   \
                          (CK_CRC_CALLS == 0 && CK_AD_CALLS == 0 && ST.crc == OLD(ST.crc)))        \
        /* where the pass can stop, and why */                                                     \
        __CPROVER_ensures(SM_PASS_WF && !SM_ST_IS(ZSTATE_CREATE_HDR))                              \
        __CPROVER_ensures(SM_ST_IS(ZSTATE_BODY) ==> stream->avail_in <= ISAL_LOOK_AHEAD)           \
        __CPROVER_ensures((SM_ST_IS(ZSTATE_HDR) || SM_ST_IS(ZSTATE_FLUSH_ICF_BUFFER) ||            \
                           SM_ST_IS(ZSTATE_TYPE0_HDR) || SM_ST_IS(ZSTATE_SYNC_FLUSH) ||            \
                           SM_ST_IS(ZSTATE_FLUSH_WRITE_BUFFER)) ==>                                \
                          stream->avail_out < 8)                                                   \
        __CPROVER_ensures(SM_ST_IS(ZSTATE_TRL) ==> stream->avail_out < 11)                         \
        /* C11: the trailer is written after the checksum update of this pass: it carries the checksum over  \
         * everything consumed so far */                                                           \
        __CPROVER_ensures(w_trl_calls != OLD(w_trl_calls) ==> w_trl_crc == ST.crc)                 \
        /* the end: only through the trailer, only after a BFINAL block */                         \
        __CPROVER_ensures((SM_ST_IS(ZSTATE_END) && OLD(ST.state) != ZSTATE_END) ==>                \
                          (ST.has_eob_hdr == 1 && w_trl_calls == OLD(w_trl_calls) + 1))            \
        __CPROVER_ensures(OLD(ST.state) == ZSTATE_END ==>                                          \
                          (SM_ST_IS(ZSTATE_END) && SM_OUT_ADV == 0 && SM_K_IN == 0))               \
        /* trailer / sync flush are entered only with the input used up and on request */          \
        __CPROVER_ensures(((SM_ST_IS(ZSTATE_TRL) || SM_ST_IS(ZSTATE_END)) &&                       \
                           OLD(ST.state) != ZSTATE_TRL && OLD(ST.state) != ZSTATE_END) ==>         \
                          stream->end_of_stream != 0)                                              \
        __CPROVER_ensures((w_sf_calls != OLD(w_sf_calls) && OLD(ST.state) != ZSTATE_SYNC_FLUSH) ==> \
                          (stream->flush != NO_FLUSH && stream->avail_in == 0))                    \
        /* a new block is started at most once the previous one is completely out */               \
        __CPROVER_ensures(SM_ST_IS(ZSTATE_NEW_HDR) ==>                                             \
                          (w_sf_calls + w_fwb_calls == OLD(w_sf_calls) + OLD(w_fwb_calls) + 1 &&   \
                           BB.m_bit_count == 0))                                                   \
        /* the caller's parameters are not touched */                                              \
        __CPROVER_ensures(stream->flush == OLD(stream->flush) &&                                   \
                          stream->end_of_stream == OLD(stream->end_of_stream) &&                   \
                          stream->level == OLD(stream->level))

#define L_isal_deflate_icf_pass_1                                                                  \
        __CPROVER_assigns(SM_PASS_FRAME)                                                           \
        __CPROVER_loop_invariant(                                                                  \
                stream->level_buf == g_lb0 &&                                                      \
                stream->level_buf_size == __CPROVER_loop_entry(stream->level_buf_size) &&          \
                stream->level == __CPROVER_loop_entry(stream->level) &&                            \
                stream->flush == __CPROVER_loop_entry(stream->flush) &&                            \
                stream->end_of_stream == __CPROVER_loop_entry(stream->end_of_stream) &&            \
                stream->hist_bits == __CPROVER_loop_entry(stream->hist_bits) &&                    \
                1 <= stream->level && stream->level <= 3 &&                                        \
                SM_LMIN(stream->level) <= stream->level_buf_size &&                                \
                /* the loop repeats only from NEW_HDR (w_iter: iterations completed, counted by the H_ hook) */ \
                (w_iter == 0 || SM_ST_IS(ZSTATE_NEW_HDR)) &&                                       \
                SM_PASS_WF_(g_lb0) && SM_IN_OK && start_in == __CPROVER_loop_entry(stream->next_in) && \
                stream->avail_in <= __CPROVER_loop_entry(stream->avail_in) &&                      \
                OFF(stream->next_in) + stream->avail_in ==                                         \
                        OFF(__CPROVER_loop_entry(stream->next_in)) +                               \
                                __CPROVER_loop_entry(stream->avail_in) &&                          \
                stream->total_in + stream->avail_in ==                                             \
                        __CPROVER_loop_entry(stream->total_in) + __CPROVER_loop_entry(stream->avail_in) &&               \
                stream->avail_out <= __CPROVER_loop_entry(stream->avail_out) &&                    \
                __CPROVER_same_object(stream->next_out, __CPROVER_loop_entry(stream->next_out)) && \
                OFF(stream->next_out) + stream->avail_out ==                                       \
                        OFF(__CPROVER_loop_entry(stream->next_out)) +                              \
                                __CPROVER_loop_entry(stream->avail_out) &&                         \
                stream->total_out + stream->avail_out ==                                           \
                        __CPROVER_loop_entry(stream->total_out) + __CPROVER_loop_entry(stream->avail_out) &&             \
                ((stream->gzip_flag != IGZIP_GZIP && stream->gzip_flag != IGZIP_ZLIB) ||           \
                 ST.has_wrap_hdr) &&                                                               \
                stream->gzip_flag == __CPROVER_loop_entry(stream->gzip_flag) &&                    \
                ST.crc == __CPROVER_loop_entry(ST.crc) &&                                          \
                w_crc_calls == __CPROVER_loop_entry(w_crc_calls) &&                                \
                w_ad_calls == __CPROVER_loop_entry(w_ad_calls) &&                                  \
                w_sf_calls == __CPROVER_loop_entry(w_sf_calls) &&                                  \
                w_fwb_calls == __CPROVER_loop_entry(w_fwb_calls) &&                                \
                w_trl_calls == __CPROVER_loop_entry(w_trl_calls) &&                                \
                (SM_ST_IS(ZSTATE_END) ==> __CPROVER_loop_entry(ST.state) == ZSTATE_END) &&         \
                (SM_ST_IS(ZSTATE_TRL) ==> (__CPROVER_loop_entry(ST.state) == ZSTATE_TRL ||         \
                                           stream->end_of_stream != 0)) &&                         \
                (SM_ST_IS(ZSTATE_SYNC_FLUSH) ==>                                                   \
                 (__CPROVER_loop_entry(ST.state) == ZSTATE_SYNC_FLUSH ||                           \
                  (stream->flush != NO_FLUSH && stream->avail_in == 0))))                          \

/* Termination is NOT claimed (no decreases clause).  Attempted variant: 2 * avail_in + (state != NEW_HDR); it
 * fails on this path of the model: an iteration that starts a block, consumes nothing (flush with no input),
 * chooses the stored fallback (the priced size g_cht_bits is unconstrained here) and leaves write_stored_block
 * in NEW_HDR -- same variant, and the next iteration can repeat it.  The real code escapes because
 * create_hufftables_icf prices an end-of-block-only block at 10 bits, which never reaches the 5 bytes of a
 * stored block; that arithmetic (and the level-3 look-ahead accounting total_in vs. block_end) is outside
 * these contracts. */
#define H_isal_deflate_icf_pass_1                                                                  \
        __CPROVER_assert(stream->level_buf == g_lb0, "ghost re-basing: stream->level_buf is unchanged"); \
        stream->level_buf = g_lb0;                                                                 \
        if (w_iter < 0xffffffffu)                                                                  \
                w_iter++;                                                                          \
        VCANARY();

#define ICF_SM_GHOST_DEFS                                                                          \
        size_t g_h, g_in_len;                                                                      \
        struct sm_ghost sm_g;                                                                      \
        uint8_t *g_lb0;                                                                            \
        uint64_t g_cht_bits, g_cht_win;                                                            \
        uint32_t w_crc_init, w_crc_calls, g_crc_ret, w_ad_init, w_ad_calls, g_ad_ret;              \
        uint64_t w_crc_len, w_ad_len;                                                              \
        const unsigned char *w_crc_buf, *w_ad_buf;                                                 \
        size_t g_wm_i;
#endif
