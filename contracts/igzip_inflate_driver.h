/* Driver-level contracts for the decompression entry points of igzip/igzip_inflate.c
 *      int isal_inflate_stateless(struct inflate_state *state)
 *      int isal_inflate(struct inflate_state *state)
 * (properties C11, C02, C06, C07/C10-like accounting).  What the drivers do AROUND the block decoders:
 * every callee that parses or produces data is replaced by a stub contract (--replace-call-with-contract)
 * that mirrors the contract proved (or being proved) for the real callee elsewhere in /verif, reduced to
 * the facts a driver needs (counters, return codes, block_state, pending-overflow records), and that
 * RECORDS its arguments in ghost variables so that the drivers' obligations towards the callees become
 * checked preconditions / postconditions:
 *
 *   callee                                   real contract                        status here
 *   read_header                              contracts/igzip_inflate_parts.h      proved there, mirrored
 *   read_header_stateful                     (wrapper around read_header)         ASSUMED
 *   decode_literal_block                     contracts/igzip_inflate_parts.h      proved there, mirrored
 *   decode_huffman_code_block_stateless      contracts/igzip_decode_loop.h        dispatched symbol: ASSUMED
 *                                            (proved for the _base body)          (asm variants)
 *   check_gzip_checksum, check_zlib_checksum contracts/igzip_inflate_parts.h      proved there, mirrored
 *   finalize_adler32, update_checksum        contracts/igzip_inflate_parts.h      proved there, mirrored
 *   isal_read_gzip_header/_zlib_header       contracts/igzip_hdr_read.h           proved there, mirrored
 *   isal_gzip_header_init/_zlib_header_init  (igzip.c, 13 resp. 4 assignments)    ASSUMED (other TU)
 *   byte_copy                                contracts/igzip_inflate_parts.h      proved there; here: records
 *   store_le_u32, memcpy, memmove            --                                   redirected to recording stubs
 *
 * Buffer CONTENTS are not modelled: every store into the user buffer / tmp_out_buffer goes through a stub
 * that writes nothing (a byte write at a symbolic offset into the 87 KB struct inflate_state is beyond the
 * SAT back end, see igzip_inflate_parts.h).  Memory safety of those stores is therefore NOT decided here
 * (the pointer/bounds checks of this harness are off); what is decided is the protocol: which ranges are
 * handed to which callee, in which order, and how the counters move.
 *
 * Ghost state
 *   g_out0            next_out at entry (snapshot by assignment in E_)
 *   g_ck_sum/calls    sum of the lengths / number of calls of update_checksum in this call
 *   g_ck_contig       every update_checksum range started where the previous one ended, the first at g_out0
 *   w_chk_*           checksum-check stub: calls, return value, input bytes it consumed
 *   w_fin_calls       finalize_adler32 calls
 *   w_ni,w_ai,w_ril   next_in / avail_in / read_in_length as left by the callee that ran last
 *   w_cp_*            first memcpy of the call (the copy tmp_out_buffer -> user buffer of isal_inflate)
 *   w_st_*, w_bc_*    store_le_u32 / byte_copy calls (consumption of the pending-overflow records)
 *   g_stateless       1 inside isal_inflate_stateless */
#ifndef IGZIP_INFLATE_DRIVER_H
#define IGZIP_INFLATE_DRIVER_H
#include "verif_common.h"

extern uint8_t *g_out0;
extern uint64_t g_ck_sum;
extern uint32_t g_ck_calls;
extern int g_ck_contig;
extern uint32_t w_chk_calls, w_chk_used, w_fin_calls;
extern int w_chk_ret;
extern uint8_t *w_ni;
extern uint32_t w_ai;
extern int32_t w_ril;
extern uint32_t w_cp_calls;
extern uint64_t w_cp_len;
extern const void *w_cp_dst, *w_cp_src;
extern uint32_t w_st_calls, w_bc_calls;
extern int32_t w_bc_len_sum; /* bytes accounted for the consumed copy records */
extern int g_stateless;
extern uint32_t w_dec_calls; /* decoder + literal-block + header calls (canary help only) */
/* audit round 2 (K2, K4, K6): FDICT / DICTID as parsed by the zlib header stub, one call counter per trailer checker */
extern uint32_t g_zhdr_dict_flag, g_zhdr_dict_id, w_chk_gz_calls, w_chk_zl_calls;
#define ID_A2(...) __VA_ARGS__ /* clauses added after audit round 2 */

#define ID_GHOSTS                                                                                  \
        g_out0, g_ck_sum, g_ck_calls, g_ck_contig, w_chk_calls, w_chk_used, w_fin_calls, w_chk_ret, \
                w_ni, w_ai, w_ril, w_cp_calls, w_cp_len, w_cp_dst, w_cp_src, w_st_calls,           \
                w_bc_calls, w_bc_len_sum, g_stateless, w_dec_calls ID_A2(, g_zhdr_dict_flag, g_zhdr_dict_id, w_chk_gz_calls, w_chk_zl_calls)
#define ID_GHOSTS_ZERO                                                                             \
        (g_ck_sum == 0 && g_ck_calls == 0 && g_ck_contig == 1 && w_chk_calls == 0 &&               \
         w_chk_used == 0 && w_fin_calls == 0 && w_cp_calls == 0 && w_st_calls == 0 &&              \
         w_bc_calls == 0 && w_bc_len_sum == 0 && w_dec_calls == 0                                 \
         ID_A2(&& g_zhdr_dict_flag == 0 && w_chk_gz_calls == 0 && w_chk_zl_calls == 0))

#define ID_RET __CPROVER_return_value
#define ID_LEN_OK(s) ((s)->read_in_length >= 0 && (s)->read_in_length <= 64)
#define ID_BITS(s) ((int64_t) (s)->read_in_length + 8 * (int64_t) (s)->avail_in)
#define ID_NO_REC(s)                                                                               \
        ((s)->write_overflow_len == 0 && (s)->write_overflow_lits == 0 &&                          \
         (s)->copy_overflow_length == 0 && (s)->copy_overflow_distance == 0)
#define ID_REC_BOUNDS(s)                                                                           \
        ((s)->write_overflow_len >= 0 && (s)->write_overflow_len <= 3 &&                           \
         (s)->copy_overflow_length >= 0 && (s)->copy_overflow_length <= 258)
#define ID_IS_GZ_VER(f) ((f) == ISAL_GZIP || (f) == ISAL_GZIP_NO_HDR_VER)
#define ID_IS_ZL_VER(f) ((f) == ISAL_ZLIB || (f) == ISAL_ZLIB_NO_HDR_VER)
#define ID_IS_VER(f) (ID_IS_GZ_VER(f) || ID_IS_ZL_VER(f))
#define ID_IS_ZL(f) (ID_IS_ZL_VER(f) || (f) == ISAL_ZLIB_NO_HDR)
#define ID_TMP_SIZE ((int32_t) (2 * ISAL_DEF_HIST_SIZE + ISAL_LOOK_AHEAD))
/* the callee leaves the input position it reports in the witnesses */
#define ID_IN_WITNESS(s) (w_ni == (s)->next_in && w_ai == (s)->avail_in && w_ril == (s)->read_in_length)
#define ID_IN_FORWARD(s)                                                                           \
        ((s)->avail_in <= __CPROVER_old((s)->avail_in) &&                                          \
         (s)->next_in == __CPROVER_old((s)->next_in) + (__CPROVER_old((s)->avail_in) - (s)->avail_in))
#define ID_OUT_ADVANCE(s)                                                                          \
        ((s)->avail_out <= __CPROVER_old((s)->avail_out) &&                                        \
         (s)->next_out ==                                                                          \
                 __CPROVER_old((s)->next_out) + (__CPROVER_old((s)->avail_out) - (s)->avail_out) && \
         (s)->total_out ==                                                                         \
                 (uint32_t) (__CPROVER_old((s)->total_out) + (__CPROVER_old((s)->avail_out) - (s)->avail_out)))
#define ID_IN_FRAME state->read_in, state->read_in_length, state->next_in, state->avail_in
#define ID_WIT w_ni, w_ai, w_ril, w_dec_calls
#define ID_COUNTED (w_dec_calls == __CPROVER_old(w_dec_calls) + 1)

/* ------------------------------------------------------------------------------------------------
 * stubs
 * ------------------------------------------------------------------------------------------------ */

/* block header (static): mirrors C_read_header of igzip_inflate_parts.h */
#define ID_HDR_CONTRACT                                                                            \
        __CPROVER_requires(ID_LEN_OK(state))                                                       \
        /* the decoding tables lit_huff_code / dist_huff_code (and tmp_in_buffer) are written by the real   \
         * functions but never read by the drivers: left out of the stub frames, because every havoc of   \
         * these 70 KB members costs the SAT encoding a fresh copy of the whole struct */             \
        __CPROVER_assigns(ID_IN_FRAME, state->bfinal, state->type0_block_len, state->block_state,  \
                          state->tmp_in_size, ID_WIT)                                              \
        __CPROVER_ensures(ID_RET == 0 || ID_RET == ISAL_END_INPUT || ID_RET == ISAL_INVALID_BLOCK) \
        __CPROVER_ensures(ID_RET == 0 ==> (state->block_state == ISAL_BLOCK_CODED ||               \
                                           state->block_state == ISAL_BLOCK_TYPE0))                \
        /* a parsed header takes at least its 3 fixed bits */                                      \
        __CPROVER_ensures(ID_RET == 0 ==> ID_BITS(state) <= ID_OLD_BITS - 3)                       \
        __CPROVER_ensures(ID_LEN_OK(state) && ID_IN_WITNESS(state) && state->bfinal <= 1 && ID_COUNTED)
#define ID_OLD_BITS                                                                                \
        ((int64_t) __CPROVER_old(state->read_in_length) + 8 * (int64_t) __CPROVER_old(state->avail_in))
#define C_read_header                                                                              \
        ID_HDR_CONTRACT                                                                            \
        __CPROVER_ensures(ID_IN_FORWARD(state))                                                    \
        __CPROVER_ensures(ID_RET != 0 ==> state->block_state == __CPROVER_old(state->block_state))
/* stateful wrapper: on END_INPUT the header bytes seen so far are parked in tmp_in_buffer, all input is
 * taken and block_state becomes ISAL_BLOCK_HDR (ASSUMED) */
#define C_read_header_stateful                                                                     \
        ID_HDR_CONTRACT                                                                            \
        __CPROVER_ensures(ID_IN_FORWARD(state))                                                    \
        __CPROVER_ensures(ID_RET == ISAL_END_INPUT ==>                                             \
                          (state->block_state == ISAL_BLOCK_HDR && state->avail_in == 0))          \
        __CPROVER_ensures(ID_RET == ISAL_INVALID_BLOCK ==>                                         \
                          state->block_state == __CPROVER_old(state->block_state))

/* stored block (static inline): mirrors C_decode_literal_block */
#define C_decode_literal_block                                                                     \
        __CPROVER_requires(ID_LEN_OK(state) && state->block_state == ISAL_BLOCK_TYPE0)             \
        __CPROVER_assigns(state->next_out, state->avail_out, state->total_out, ID_IN_FRAME,        \
                          state->type0_block_len, state->block_state, ID_WIT)                      \
        __CPROVER_ensures(ID_OUT_ADVANCE(state) && ID_IN_FORWARD(state))                           \
        __CPROVER_ensures(ID_RET == 0 || ID_RET == ISAL_END_INPUT || ID_RET == ISAL_OUT_OVERFLOW)  \
        __CPROVER_ensures(state->block_state ==                                                    \
                          (ID_RET != 0 ? ISAL_BLOCK_TYPE0                                          \
                                       : (state->bfinal ? ISAL_BLOCK_INPUT_DONE : ISAL_BLOCK_NEW_HDR))) \
        __CPROVER_ensures(ID_RET == ISAL_OUT_OVERFLOW ==> state->avail_out == 0)                   \
        __CPROVER_ensures(ID_RET == ISAL_END_INPUT ==>                                             \
                          (state->avail_in == 0 && state->read_in_length == 0))                    \
        __CPROVER_ensures(ID_BITS(state) <= ID_OLD_BITS)                                           \
        __CPROVER_ensures(ID_LEN_OK(state) && ID_IN_WITNESS(state) && ID_COUNTED)

/* Huffman block decoder (dispatched symbol; ASSUMED for the assembly variants, the statement is the one
 * proved for decode_huffman_code_block_stateless_base in igzip_decode_loop.h).
 * The first precondition is the CALLER-SIDE OBLIGATION the decode-loop contract assumes: the pending
 * literal record of an earlier OUT_OVERFLOW has been consumed and zeroed (since commit cea2eed the base
 * loop reads write_overflow_len in its look-back test, a stale record makes that test too lenient).
 * The second: the history base handed over is the base of the buffer that next_out currently points into. */
int
decode_huffman_code_block_stateless(struct inflate_state *state, uint8_t *start_out)
        __CPROVER_requires(state->write_overflow_len == 0 && state->write_overflow_lits == 0)
        __CPROVER_requires(__CPROVER_same_object(state->next_out, start_out) &&
                           __CPROVER_POINTER_OFFSET(state->next_out) >= __CPROVER_POINTER_OFFSET(start_out))
        __CPROVER_requires(ID_LEN_OK(state))
        __CPROVER_assigns(state->next_out, state->avail_out, state->total_out, ID_IN_FRAME,
                          state->block_state, state->write_overflow_lits, state->write_overflow_len,
                          state->copy_overflow_length, state->copy_overflow_distance, ID_WIT)
        __CPROVER_ensures(ID_OUT_ADVANCE(state) && ID_IN_FORWARD(state))
        __CPROVER_ensures(ID_RET == 0 || ID_RET == ISAL_END_INPUT || ID_RET == ISAL_OUT_OVERFLOW ||
                          ID_RET == ISAL_INVALID_SYMBOL || ID_RET == ISAL_INVALID_LOOKBACK)
        __CPROVER_ensures(state->block_state == ISAL_BLOCK_CODED ||
                          state->block_state == ISAL_BLOCK_NEW_HDR ||
                          state->block_state == ISAL_BLOCK_INPUT_DONE)
        __CPROVER_ensures(ID_RET == 0 ==> (state->block_state != ISAL_BLOCK_CODED && ID_NO_REC(state)))
        /* end-of-block can share a symbol group with literals that no longer fit: OUT_OVERFLOW with the
         * block already finished is possible; every other non-zero code leaves the block unfinished */
        __CPROVER_ensures((ID_RET != 0 && ID_RET != ISAL_OUT_OVERFLOW) ==>
                          state->block_state != ISAL_BLOCK_INPUT_DONE)
        /* a record's payload is set only together with its length (beyond igzip_decode_loop.h for the
         * INVALID_* returns: ASSUMED from the code, lits/distance are written next to len/length) */
        __CPROVER_ensures((state->write_overflow_len == 0 ==> state->write_overflow_lits == 0) &&
                          (state->copy_overflow_length == 0 ==> state->copy_overflow_distance == 0))
        __CPROVER_ensures(ID_RET == ISAL_END_INPUT ==>
                          (ID_NO_REC(state) && state->block_state == ISAL_BLOCK_CODED))
        __CPROVER_ensures(ID_RET == ISAL_OUT_OVERFLOW ==>
                          (state->avail_out == 0 &&
                           (state->write_overflow_len > 0 || state->copy_overflow_length > 0)))
        __CPROVER_ensures(ID_REC_BOUNDS(state) && ID_BITS(state) <= ID_OLD_BITS)
        __CPROVER_ensures(ID_LEN_OK(state) && ID_IN_WITNESS(state) && ID_COUNTED);

/* running checksum (static): records the range.  Mirrors C_update_checksum (one crc32_gzip_refl /
 * isal_adler32_bam1 call over exactly (start_in, length)); the Adler form keeps its low half reduced
 * (postcondition of isal_adler32_bam1, harness isal_adler32_bam1). */
#define C_update_checksum                                                                          \
        __CPROVER_assigns(state->crc, g_ck_sum, g_ck_calls, g_ck_contig)                           \
        __CPROVER_ensures(g_ck_calls == __CPROVER_old(g_ck_calls) + 1 &&                           \
                          g_ck_sum == __CPROVER_old(g_ck_sum) + length &&                          \
                          g_ck_contig == (__CPROVER_old(g_ck_contig) &&                            \
                                          start_in == g_out0 + __CPROVER_old(g_ck_sum)))           \
        __CPROVER_ensures(ID_IS_ZL(state->crc_flag) ==> (state->crc & 0xffff) < ADLER_MOD)

/* finalize_adler32 (static): proved precondition = stored low half is reduced */
#define C_finalize_adler32                                                                         \
        __CPROVER_requires((state->crc & 0xffff) < ADLER_MOD)                                      \
        __CPROVER_assigns(state->crc, w_fin_calls)                                                 \
        __CPROVER_ensures(w_fin_calls == __CPROVER_old(w_fin_calls) + 1)

/* trailer verification: mirrors CK_COMMON / CK_POST_* of igzip_inflate_parts.h.
 * Preconditions = what the driver owes (C11): every byte delivered in this call has been handed to
 * update_checksum before the comparison (no byte after the last range), and nothing is still waiting in
 * tmp_out_buffer; stateless: the bit buffer has been rewound first (the trailer is read from next_in). */
#define ID_CHECK_CONTRACT(CNT)                                                                     \
        __CPROVER_requires(state->next_out == g_out0 + g_ck_sum && g_ck_contig)                    \
        __CPROVER_requires(g_stateless || state->tmp_out_valid == state->tmp_out_processed)        \
        /* the trailer is looked at only after the final block has been decoded completely */      \
        __CPROVER_requires(state->block_state == ISAL_BLOCK_FINISH ||                              \
                           (!g_stateless && state->block_state == ISAL_CHECKSUM_CHECK))            \
        __CPROVER_requires(g_stateless ==>                                                         \
                           (state->read_in_length == 0 && state->read_in == 0 &&                   \
                            state->next_in == w_ni - w_ril / 8 &&                                  \
                            state->avail_in == w_ai + (uint32_t) (w_ril / 8)))                     \
        __CPROVER_requires(ID_LEN_OK(state))                                                       \
        __CPROVER_assigns(ID_IN_FRAME, state->tmp_in_size, state->block_state, w_chk_calls,        \
                          w_chk_used, w_chk_ret ID_A2(, CNT))                                      \
        ID_A2(__CPROVER_ensures(CNT == __CPROVER_old(CNT) + 1))                                    \
        __CPROVER_ensures(ID_RET == ISAL_DECOMP_OK || ID_RET == ISAL_END_INPUT ||                  \
                          ID_RET == ISAL_INCORRECT_CHECKSUM)                                       \
        __CPROVER_ensures(state->block_state ==                                                    \
                          (ID_RET == ISAL_END_INPUT ? ISAL_CHECKSUM_CHECK : ISAL_BLOCK_FINISH))    \
        __CPROVER_ensures(ID_IN_FORWARD(state) && ID_LEN_OK(state))                                \
        __CPROVER_ensures(w_chk_calls == __CPROVER_old(w_chk_calls) + 1 && w_chk_ret == ID_RET &&  \
                          w_chk_used == __CPROVER_old(state->avail_in) - state->avail_in)
#define C_check_gzip_checksum ID_CHECK_CONTRACT(w_chk_gz_calls)
#define C_check_zlib_checksum ID_CHECK_CONTRACT(w_chk_zl_calls)
#define ID_IS_GZ_KIND(f) ((f) == ISAL_GZIP || (f) == ISAL_GZIP_NO_HDR || (f) == ISAL_GZIP_NO_HDR_VER)
/* K2: the trailer of a zlib-kind stream is never compared by the gzip checker and vice versa */
#define ID_CHECKER_KIND                                                                            \
        ((ID_IS_ZL(state->crc_flag) ==> w_chk_gz_calls == 0) &&                                    \
         (ID_IS_GZ_KIND(state->crc_flag) ==> w_chk_zl_calls == 0) &&                               \
         w_chk_gz_calls + w_chk_zl_calls == w_chk_calls)

/* wrapper headers: mirror C_isal_read_gzip_header / C_isal_read_zlib_header (igzip_hdr_read.h) */
#define C_isal_read_gzip_header                                                                    \
        __CPROVER_assigns(state->next_in, state->avail_in, state->tmp_in_size, state->block_state, \
                          state->wrapper_flag, state->count, gz_hdr->time, gz_hdr->xflags,         \
                          gz_hdr->os, gz_hdr->text, gz_hdr->flags, gz_hdr->extra_len, gz_hdr->hcrc, \
                          ID_WIT)                                                                  \
        __CPROVER_ensures(ID_RET == ISAL_DECOMP_OK || ID_RET == ISAL_END_INPUT ||                  \
                          ID_RET == ISAL_NAME_OVERFLOW || ID_RET == ISAL_COMMENT_OVERFLOW ||       \
                          ID_RET == ISAL_EXTRA_OVERFLOW || ID_RET == ISAL_INVALID_WRAPPER ||       \
                          ID_RET == ISAL_UNSUPPORTED_METHOD || ID_RET == ISAL_INCORRECT_CHECKSUM)  \
        __CPROVER_ensures(ID_RET == ISAL_NAME_OVERFLOW ==> gz_hdr->name != NULL)                   \
        __CPROVER_ensures(ID_RET == ISAL_COMMENT_OVERFLOW ==> gz_hdr->comment != NULL)             \
        __CPROVER_ensures(ID_RET == ISAL_EXTRA_OVERFLOW ==> gz_hdr->extra != NULL)                 \
        __CPROVER_ensures(ID_RET == ISAL_DECOMP_OK ==>                                             \
                          (state->wrapper_flag == 1 && state->tmp_in_size == 0 &&                  \
                           state->block_state == ISAL_BLOCK_NEW_HDR))                              \
        __CPROVER_ensures(ID_RET == ISAL_END_INPUT ==> state->avail_in == 0)                       \
        /* a wrapper parser leaves block_state at NEW_HDR or at one of its own resume states */     \
        __CPROVER_ensures(state->block_state == __CPROVER_old(state->block_state) ||               \
                          state->block_state == ISAL_BLOCK_NEW_HDR ||                              \
                          (state->block_state >= ISAL_GZIP_EXTRA_LEN &&                            \
                           state->block_state <= ISAL_ZLIB_DICT))                                  \
        __CPROVER_ensures(ID_IN_FORWARD(state) && ID_IN_WITNESS(state) && ID_COUNTED)
#define C_isal_read_zlib_header                                                                    \
        __CPROVER_assigns(state->next_in, state->avail_in, state->tmp_in_size, state->block_state, \
                          state->wrapper_flag, zlib_hdr->info, zlib_hdr->level,                    \
                          zlib_hdr->dict_flag, zlib_hdr->dict_id, ID_WIT                           \
                          ID_A2(, g_zhdr_dict_flag, g_zhdr_dict_id))                               \
        /* ghost copy of what the header said: FDICT (only for a completely parsed header) and DICTID */ \
        ID_A2(__CPROVER_ensures(g_zhdr_dict_flag ==                                                \
                                ((ID_RET == ISAL_DECOMP_OK && zlib_hdr->dict_flag != 0) ? 1u : 0u) && \
                                g_zhdr_dict_id == zlib_hdr->dict_id))                              \
        __CPROVER_ensures(ID_RET == ISAL_DECOMP_OK || ID_RET == ISAL_END_INPUT ||                  \
                          ID_RET == ISAL_UNSUPPORTED_METHOD || ID_RET == ISAL_INCORRECT_CHECKSUM)  \
        __CPROVER_ensures(ID_RET == ISAL_DECOMP_OK ==>                                             \
                          (state->wrapper_flag == 1 && state->tmp_in_size == 0 &&                  \
                           state->block_state == ISAL_BLOCK_NEW_HDR))                              \
        __CPROVER_ensures(ID_RET == ISAL_END_INPUT ==> state->avail_in == 0)                       \
        /* a wrapper parser leaves block_state at NEW_HDR or at one of its own resume states */     \
        __CPROVER_ensures(state->block_state == __CPROVER_old(state->block_state) ||               \
                          state->block_state == ISAL_BLOCK_NEW_HDR ||                              \
                          (state->block_state >= ISAL_GZIP_EXTRA_LEN &&                            \
                           state->block_state <= ISAL_ZLIB_DICT))                                  \
        __CPROVER_ensures(ID_IN_FORWARD(state) && ID_IN_WITNESS(state) && ID_COUNTED)

/* header-struct initialisers (igzip.c, another translation unit): ASSUMED = their bodies */
void
isal_gzip_header_init(struct isal_gzip_header *gz_hdr)
        __CPROVER_assigns(__CPROVER_object_whole(gz_hdr))
        __CPROVER_ensures(gz_hdr->extra == NULL && gz_hdr->name == NULL && gz_hdr->comment == NULL &&
                          gz_hdr->extra_buf_len == 0 && gz_hdr->name_buf_len == 0 &&
                          gz_hdr->comment_buf_len == 0);
void
isal_zlib_header_init(struct isal_zlib_header *z_hdr)
        __CPROVER_assigns(__CPROVER_object_whole(z_hdr))
        __CPROVER_ensures(z_hdr->dict_flag == 0 && z_hdr->dict_id == 0);

/* stores: recording stubs that write nothing (contents not modelled) */
#define C_byte_copy                                                                                \
        __CPROVER_requires(repeat_length > 0 && repeat_length <= 258)                              \
        __CPROVER_assigns(w_bc_calls, w_bc_len_sum)                                                \
        __CPROVER_ensures(w_bc_calls == __CPROVER_old(w_bc_calls) + 1 &&                           \
                          w_bc_len_sum == __CPROVER_old(w_bc_len_sum) + repeat_length)
void
verif_store32_stub(uint8_t *dst, uint32_t v)
        __CPROVER_assigns(w_st_calls)
        __CPROVER_ensures(w_st_calls == __CPROVER_old(w_st_calls) + 1);
void *
verif_copy_stub(void *d, const void *s, size_t n)
        __CPROVER_assigns(w_cp_calls, w_cp_len, w_cp_dst, w_cp_src)
        __CPROVER_ensures(w_cp_calls == __CPROVER_old(w_cp_calls) + 1)
        __CPROVER_ensures(__CPROVER_old(w_cp_calls) == 0 ==> (w_cp_len == n && w_cp_dst == d && w_cp_src == s))
        __CPROVER_ensures(__CPROVER_old(w_cp_calls) != 0 ==>
                          (w_cp_len == __CPROVER_old(w_cp_len) && w_cp_dst == __CPROVER_old(w_cp_dst) &&
                           w_cp_src == __CPROVER_old(w_cp_src)));

/* ------------------------------------------------------------------------------------------------
 * isal_inflate_stateless
 * ------------------------------------------------------------------------------------------------ */
#define ID_DOC_STATELESS(r)                                                                        \
        ((r) == ISAL_DECOMP_OK || (r) == ISAL_END_INPUT || (r) == ISAL_NEED_DICT ||                \
         (r) == ISAL_OUT_OVERFLOW || (r) == ISAL_INVALID_BLOCK || (r) == ISAL_INVALID_SYMBOL ||    \
         (r) == ISAL_INVALID_LOOKBACK || (r) == ISAL_INVALID_WRAPPER ||                            \
         (r) == ISAL_UNSUPPORTED_METHOD || (r) == ISAL_INCORRECT_CHECKSUM)
/* Entry condition on the pending-literal record: isal_inflate_stateless resets read_in, block_state,
 * crc, total_out ... but NOT write_overflow_len / write_overflow_lits, and never consumes a record left
 * by an OUT_OVERFLOW return.  Without this requires clause the decoder's precondition FAILS at the call
 * site (variant -DID_STATELESS_NO_ENTRY_REQ, harness inflate_stateless_reused_state).
 * Native confirmation (base decode loop, i.e. the non-x86 / no-asm build): fixed-Huffman stream
 * 'a' 'b' <len 3, dist 3> EOB (distance 3 with 2 bytes produced: invalid).  isal_inflate_init; call 1 with
 * avail_out = 0 returns ISAL_OUT_OVERFLOW and leaves write_overflow_len == 1; call 2 on the same state with
 * avail_out = 16 returns ISAL_DECOMP_OK, total_out == 5, output "ab?ab" where ? is the byte in front of the
 * output buffer.  On a fresh state, and on the tree before commit cea2eed, the same call returns
 * ISAL_INVALID_LOOKBACK. */
#ifdef ID_STATELESS_NO_ENTRY_REQ
#define ID_STATELESS_ENTRY_REC 1
#else
#define ID_STATELESS_ENTRY_REC (state->write_overflow_len == 0 && state->write_overflow_lits == 0)
#endif
#define C_isal_inflate_stateless                                                                   \
        __CPROVER_requires(__CPROVER_is_fresh(state, sizeof(*state)))                              \
        __CPROVER_requires(__CPROVER_is_fresh(state->next_out, state->avail_out))                  \
        __CPROVER_requires(ID_GHOSTS_ZERO && ID_STATELESS_ENTRY_REC)                               \
        __CPROVER_assigns(__CPROVER_object_whole(state), ID_GHOSTS)                                \
        /* C06: documented codes only */                                                           \
        __CPROVER_ensures(ID_DOC_STATELESS(ID_RET))                                                \
        /* C02: final input position = position left by the last callee, rewound by the whole bytes    \
         * still in the bit buffer, plus the trailer bytes taken by the checksum check; the bit buffer \
         * is empty afterwards (every return after the block loop) */                              \
        __CPROVER_ensures(state->next_in == w_ni - w_ril / 8 + w_chk_used &&                       \
                          state->avail_in == w_ai + (uint32_t) (w_ril / 8) - w_chk_used)           \
        __CPROVER_ensures(w_ril >= 0 && w_ril <= 64 && ID_LEN_OK(state))                           \
        __CPROVER_ensures(w_chk_calls == 0 ==> (state->read_in_length == 0 && state->read_in == 0)) \
        /* C11: checksum over exactly the bytes produced by this call, once, and only on success */ \
        __CPROVER_ensures(g_ck_calls <= 1 && g_ck_contig)                                          \
        __CPROVER_ensures(g_ck_calls == 1 ==>                                                      \
                          (g_ck_sum == (uint64_t) (state->next_out - g_out0) &&                    \
                           state->crc_flag != 0))                                                  \
        __CPROVER_ensures((ID_RET == ISAL_DECOMP_OK && state->crc_flag != 0) ==> g_ck_calls == 1)  \
        /* ... and only when every block was decoded (no checksum over a truncated / failed run) */ \
        __CPROVER_ensures(g_ck_calls == 1 ==> (state->block_state == ISAL_BLOCK_FINISH ||          \
                                               state->block_state == ISAL_CHECKSUM_CHECK))        \
        /* output accounting */                                                                    \
        __CPROVER_ensures(state->next_out == g_out0 + (__CPROVER_old(state->avail_out) - state->avail_out) && \
                          state->avail_out <= __CPROVER_old(state->avail_out))                     \
        __CPROVER_ensures(state->total_out == __CPROVER_old(state->avail_out) - state->avail_out)  \
        /* C06: success means the final block was decoded completely and, where the flag demands       \
         * verification, the trailer matched; a verifying mode never reports OK otherwise */        \
        __CPROVER_ensures(ID_RET == ISAL_DECOMP_OK ==> state->block_state == ISAL_BLOCK_FINISH)    \
        __CPROVER_ensures((ID_RET == ISAL_DECOMP_OK && ID_IS_VER(state->crc_flag)) ==>             \
                          (w_chk_calls == 1 && w_chk_ret == ISAL_DECOMP_OK))                       \
        __CPROVER_ensures(w_chk_calls <= 1 && (w_chk_calls == 1 ==> (ID_RET == w_chk_ret && ID_IS_VER(state->crc_flag)))) \
        __CPROVER_ensures(w_fin_calls == ((g_ck_calls == 1 && ID_IS_ZL(state->crc_flag)) ? 1u : 0u)) \
        /* K6: a zlib stream that announces a preset dictionary is refused before any block is touched */ \
        ID_A2(__CPROVER_ensures(g_zhdr_dict_flag ==> (ID_RET == ISAL_NEED_DICT && w_dec_calls == 1))) \
        ID_A2(__CPROVER_ensures(ID_RET == ISAL_NEED_DICT ==> g_zhdr_dict_flag))                    \
        ID_A2(__CPROVER_ensures(ID_CHECKER_KIND))                                                  \
        /* the caller's mode is not changed */                                                     \
        __CPROVER_ensures(state->crc_flag == __CPROVER_old(state->crc_flag))
#define E_isal_inflate_stateless                                                                   \
        g_out0 = state->next_out;                                                                  \
        g_stateless = 1;                                                                           \
        w_ni = state->next_in;                                                                     \
        w_ai = state->avail_in;                                                                    \
        w_ril = 0;
/* while (state->block_state != ISAL_BLOCK_FINISH) */
#define L_isal_inflate_stateless_1                                                                 \
        __CPROVER_assigns(ret, state->next_out, state->avail_out, state->total_out, ID_IN_FRAME,   \
                          state->bfinal, state->type0_block_len, state->block_state,               \
                          state->tmp_in_size,                                                      \
                          state->write_overflow_lits, state->write_overflow_len,                   \
                          state->copy_overflow_length, state->copy_overflow_distance, ID_WIT)      \
        __CPROVER_loop_invariant(ret == 0 && ID_LEN_OK(state) && ID_IN_WITNESS(state))             \
        __CPROVER_loop_invariant(state->write_overflow_len == 0 && state->write_overflow_lits == 0) \
        __CPROVER_loop_invariant(state->block_state == ISAL_BLOCK_NEW_HDR ||                       \
                                 state->block_state == ISAL_BLOCK_FINISH)                          \
        __CPROVER_loop_invariant(state->avail_out <= __CPROVER_loop_entry(state->avail_out) &&     \
                                 state->next_out == g_out0 + (__CPROVER_loop_entry(state->avail_out) - state->avail_out) && \
                                 state->total_out == (uint32_t) (__CPROVER_loop_entry(state->avail_out) - state->avail_out)) \
        /* termination: every completed block takes at least its 3 header bits */                  \
        __CPROVER_decreases(ID_BITS(state))
#define H_isal_inflate_stateless_1 VCANARY();

/* ------------------------------------------------------------------------------------------------
 * isal_inflate
 * ------------------------------------------------------------------------------------------------ */
#define ID_DOC_STATEFUL(r)                                                                         \
        ((r) == ISAL_DECOMP_OK || (r) == ISAL_NEED_DICT || (r) == ISAL_INVALID_BLOCK ||            \
         (r) == ISAL_INVALID_SYMBOL || (r) == ISAL_INVALID_LOOKBACK || (r) == ISAL_INVALID_WRAPPER || \
         (r) == ISAL_UNSUPPORTED_METHOD || (r) == ISAL_INCORRECT_CHECKSUM)
#define ID_OLD(f) __CPROVER_old(state->f)
/* which of the entry branches runs (entry values) */
#define ID_HDR_BRANCH                                                                              \
        (ID_OLD(wrapper_flag) == 0 && (ID_OLD(crc_flag) == IGZIP_GZIP || ID_OLD(crc_flag) == IGZIP_ZLIB))
#define ID_HDR_STATE(bs) ((bs) == ISAL_BLOCK_NEW_HDR || ((bs) >= ISAL_GZIP_EXTRA_LEN && (bs) <= ISAL_ZLIB_DICT))
#define ID_DECODE_PATH (w_cp_calls >= 1) /* the copy out of tmp_out_buffer runs on exactly that path */
#define ID_CHK_BRANCH (!ID_HDR_BRANCH && ID_OLD(block_state) == ISAL_CHECKSUM_CHECK)
#define ID_IDLE_BRANCH (!ID_HDR_BRANCH && ID_OLD(block_state) == ISAL_BLOCK_FINISH)
#define ID_DELIVERED ((uint32_t) (ID_OLD(avail_out) - state->avail_out))
/* state invariant of the streaming interface (established by isal_inflate_init / _reset, proved in
 * igzip_inflate_parts.h; re-established by every return: postconditions below) */
#define ID_STATE_INV(s)                                                                            \
        ((s)->tmp_out_processed >= 0 && (s)->tmp_out_processed <= (s)->tmp_out_valid &&            \
         (s)->tmp_out_valid <= ID_TMP_SIZE && ID_NO_REC(s) && ID_LEN_OK(s) && ID_END_INV(s))
/* the end-of-stream states are entered only when nothing waits in tmp_out_buffer */
#define ID_END_INV(s)                                                                              \
        (((s)->block_state == ISAL_BLOCK_FINISH || (s)->block_state == ISAL_CHECKSUM_CHECK) ==>    \
         (s)->tmp_out_valid == (s)->tmp_out_processed)
#define C_isal_inflate                                                                             \
        __CPROVER_requires(__CPROVER_is_fresh(state, sizeof(*state)))                              \
        __CPROVER_requires(__CPROVER_is_fresh(state->next_out, state->avail_out))                  \
        __CPROVER_requires(ID_GHOSTS_ZERO && ID_STATE_INV(state))                                  \
        __CPROVER_requires((uint32_t) state->block_state <= ISAL_CHECKSUM_CHECK)                   \
        /* a wrapper that is still to be read: the stream is at its start or inside that header */ \
        __CPROVER_requires((state->wrapper_flag == 0 &&                                            \
                            (state->crc_flag == IGZIP_GZIP || state->crc_flag == IGZIP_ZLIB)) ==>  \
                           ID_HDR_STATE(state->block_state))                                       \
        /* ... and once the wrapper is read (or there is none) the stream is in a deflate-level state */ \
        __CPROVER_requires(!(state->wrapper_flag == 0 &&                                           \
                             (state->crc_flag == IGZIP_GZIP || state->crc_flag == IGZIP_ZLIB)) ==> \
                           ((uint32_t) state->block_state <= ISAL_BLOCK_FINISH ||                  \
                            state->block_state == ISAL_CHECKSUM_CHECK))                            \
        __CPROVER_assigns(__CPROVER_object_whole(state), ID_GHOSTS)                                \
        /* ---- C06 documented codes; positive internal codes never leak */                        \
        __CPROVER_ensures(ID_DOC_STATEFUL(ID_RET))                                                 \
        /* ---- state invariant re-established (in particular: both pending-overflow records are      \
         * consumed and zeroed before control returns, so the next decoder call starts clean) */    \
        __CPROVER_ensures(ID_NO_REC(state) && state->tmp_out_processed >= 0 &&                     \
                          state->tmp_out_processed <= state->tmp_out_valid && ID_LEN_OK(state) &&  \
                          ID_END_INV(state))                                                       \
        /* ---- C07/C10 accounting of the user buffer */                                           \
        __CPROVER_ensures(state->avail_out <= ID_OLD(avail_out))                                   \
        __CPROVER_ensures(state->next_out == g_out0 + ID_DELIVERED)                                \
        __CPROVER_ensures(state->total_out == (uint32_t) (ID_OLD(total_out) + ID_DELIVERED))       \
        /* the copy tmp_out_buffer -> user buffer: from the first unprocessed byte, to the start of    \
         * the user buffer, at most what fits and at most what is pending */                        \
        __CPROVER_ensures((!ID_HDR_BRANCH && !ID_CHK_BRANCH && !ID_IDLE_BRANCH) ==> ID_DECODE_PATH) \
        __CPROVER_ensures(ID_DECODE_PATH ==>                                                       \
                          (w_cp_dst == g_out0 &&                                                   \
                           w_cp_src == &state->tmp_out_buffer[ID_OLD(tmp_out_processed)] &&        \
                           w_cp_len <= ID_OLD(avail_out) && w_cp_len <= ID_DELIVERED))             \
        /* ---- C11 exactly one checksum update, over exactly the bytes delivered by this call */  \
        __CPROVER_ensures(g_ck_calls <= 1 && g_ck_contig)                                          \
        __CPROVER_ensures(g_ck_calls == 1 ==> g_ck_sum == ID_DELIVERED)                            \
        __CPROVER_ensures((state->crc_flag != 0 && ID_DELIVERED != 0) ==> g_ck_calls == 1)         \
        __CPROVER_ensures((ID_DECODE_PATH && state->crc_flag != 0) ==> g_ck_calls == 1)            \
        __CPROVER_ensures(!ID_DECODE_PATH ==> (g_ck_calls == 0 && ID_DELIVERED == 0))              \
        /* ---- C06 end of stream: FINISH is entered only with everything delivered, and in a          \
         * verifying mode only through the trailer comparison, whose verdict is the return value */ \
        __CPROVER_ensures((ID_OLD(block_state) != ISAL_BLOCK_FINISH &&                             \
                           state->block_state == ISAL_BLOCK_FINISH) ==>                            \
                          (state->tmp_out_valid == state->tmp_out_processed &&                     \
                           (ID_IS_VER(state->crc_flag)                                             \
                                    ? (w_chk_calls == 1 && w_chk_ret != ISAL_END_INPUT &&          \
                                       ID_RET == w_chk_ret)                                        \
                                    : (w_chk_calls == 0 && ID_RET == ISAL_DECOMP_OK))))            \
        __CPROVER_ensures(w_chk_calls <= 1 &&                                                      \
                          (w_chk_calls == 1 ==>                                                    \
                           (ID_IS_VER(state->crc_flag) &&                                          \
                            ID_RET == (w_chk_ret > 0 ? ISAL_DECOMP_OK : w_chk_ret) &&              \
                            state->block_state == (w_chk_ret == ISAL_END_INPUT ? ISAL_CHECKSUM_CHECK \
                                                                              : ISAL_BLOCK_FINISH)))) \
        __CPROVER_ensures(ID_RET == ISAL_INCORRECT_CHECKSUM ==>                                    \
                          (w_chk_calls == 1 || (ID_HDR_BRANCH && !ID_DECODE_PATH)))                \
        __CPROVER_ensures(w_fin_calls <= 1 &&                                                      \
                          (w_fin_calls == 1 ==> (ID_IS_ZL(state->crc_flag) && !ID_CHK_BRANCH &&    \
                                                 ID_OLD(block_state) != ISAL_BLOCK_FINISH)))       \
        /* ---- guards: a finished stream is left alone */                                         \
        __CPROVER_ensures(ID_IDLE_BRANCH ==>                                                       \
                          (ID_RET == ISAL_DECOMP_OK && w_dec_calls == 0 && g_ck_calls == 0 &&      \
                           w_chk_calls == 0 && w_cp_calls == 0 && w_st_calls == 0 && w_bc_calls == 0 && \
                           state->next_in == ID_OLD(next_in) && state->avail_in == ID_OLD(avail_in) && \
                           state->next_out == ID_OLD(next_out) && state->avail_out == ID_OLD(avail_out) && \
                           state->total_out == ID_OLD(total_out) && state->crc == ID_OLD(crc) &&   \
                           state->block_state == ISAL_BLOCK_FINISH &&                              \
                           state->tmp_out_valid == ID_OLD(tmp_out_valid) &&                        \
                           state->tmp_out_processed == ID_OLD(tmp_out_processed)))                 \
        /* a pending trailer check does nothing but that check */                                  \
        __CPROVER_ensures(ID_CHK_BRANCH ==>                                                        \
                          (w_dec_calls == 0 && g_ck_calls == 0 && w_cp_calls == 0 &&               \
                           state->next_out == ID_OLD(next_out) && state->crc == ID_OLD(crc) &&     \
                           state->total_out == ID_OLD(total_out)))                                 \
        /* a wrapper header that is not complete / not valid: nothing is decoded or delivered */   \
        __CPROVER_ensures((ID_HDR_BRANCH && state->wrapper_flag == 0) ==>                          \
                          (g_ck_calls == 0 && w_cp_calls == 0 && state->next_out == ID_OLD(next_out))) \
        /* K4/K6: preset dictionary announced: NEED_DICT, with DICTID stored for the caller, nothing decoded */ \
        ID_A2(__CPROVER_ensures(g_zhdr_dict_flag ==> (ID_RET == ISAL_NEED_DICT && w_dec_calls == 1 && \
                                                      state->dict_id == g_zhdr_dict_id)))          \
        ID_A2(__CPROVER_ensures(ID_RET == ISAL_NEED_DICT ==> g_zhdr_dict_flag))                    \
        /* K2 */                                                                                   \
        ID_A2(__CPROVER_ensures(ID_CHECKER_KIND))                                                  \
        __CPROVER_ensures(state->crc_flag == ID_OLD(crc_flag))
#define E_isal_inflate                                                                             \
        uint32_t t0__ = state->total_out; /* ghost local: total_out at entry */                    \
        g_out0 = state->next_out;                                                                  \
        g_stateless = 0;                                                                           \
        w_ni = state->next_in;                                                                     \
        w_ai = state->avail_in;                                                                    \
        w_ril = state->read_in_length;

#define ID_LOOP_FRAME                                                                              \
        ret, state->next_out, state->avail_out, state->total_out, ID_IN_FRAME, state->bfinal,      \
                state->type0_block_len, state->block_state, state->tmp_in_size,                    \
                state->write_overflow_lits,                                                        \
                state->write_overflow_len, state->copy_overflow_length,                            \
                state->copy_overflow_distance, ID_WIT
#define ID_LOOP_INV(RETINV)                                                                        \
        __CPROVER_loop_invariant((RETINV) && ID_LEN_OK(state) && ID_NO_REC(state))                 \
        __CPROVER_loop_invariant((uint32_t) state->block_state <= ISAL_BLOCK_INPUT_DONE)           \
        __CPROVER_loop_invariant(state->avail_out <= __CPROVER_loop_entry(state->avail_out) &&     \
                                 state->next_out == __CPROVER_loop_entry(state->next_out) +        \
                                                            (__CPROVER_loop_entry(state->avail_out) - state->avail_out) && \
                                 state->total_out == (uint32_t) (__CPROVER_loop_entry(state->total_out) + \
                                                                 (__CPROVER_loop_entry(state->avail_out) - state->avail_out)))
#define ID_LOOP_DEC                                                                                \
        __CPROVER_decreases(ID_BITS(state) + ((state->block_state == ISAL_BLOCK_TYPE0 || state->block_state == ISAL_BLOCK_CODED) ? 1 : 0))
/* loop 1: decode into tmp_out_buffer; loop 2: decode into the user buffer */
/* "bytes delivered to the user so far" = total_out minus what still waits in tmp_out_buffer; stated at
 * both loop heads so that the accounting postcondition is a chain of short steps for the SAT solver */
#define ID_TMP_WRITE_POS                                                                           \
        ((int32_t) (__CPROVER_POINTER_OFFSET(state->next_out) - __CPROVER_POINTER_OFFSET(state->tmp_out_buffer)))
#define L_isal_inflate_1                                                                           \
        __CPROVER_assigns(ID_LOOP_FRAME)                                                           \
        ID_LOOP_INV(ret == 0)                                                                      \
        __CPROVER_loop_invariant(__CPROVER_same_object(state->next_out, state->tmp_out_buffer) &&  \
                                 state->total_out - (uint32_t) (ID_TMP_WRITE_POS - state->tmp_out_processed) == t0__) \
        ID_LOOP_DEC
/* loop 2 may be entered with the END_INPUT / OUT_OVERFLOW of loop 1 still in ret (it is overwritten
 * before it is read again); a stream that is already done carries ret == 0 */
#define L_isal_inflate_2                                                                           \
        __CPROVER_assigns(ID_LOOP_FRAME)                                                           \
        ID_LOOP_INV((ret == 0 || ret == ISAL_END_INPUT || ret == ISAL_OUT_OVERFLOW) &&             \
                    (state->block_state == ISAL_BLOCK_INPUT_DONE ==> (ret == 0 || ret == ISAL_OUT_OVERFLOW)))                   \
        __CPROVER_loop_invariant(state->total_out - (uint32_t) (state->tmp_out_valid - state->tmp_out_processed) == \
                                 t0__ + (avail_out - state->avail_out))                            \
        ID_LOOP_DEC
#define H_isal_inflate_1 VCANARY();
#define H_isal_inflate_2 VCANARY();
#endif
