/* MEMORY-SAFETY side of the streaming decompression driver  int isal_inflate(struct inflate_state *)
 * (igzip/igzip_inflate.c), property C05 ("writes at most avail_out bytes per call", the internal window
 * tmp_out_buffer[2*ISAL_DEF_HIST_SIZE + ISAL_LOOK_AHEAD] is never left), plus the entry points that
 * establish the invariant (isal_inflate_reset, isal_inflate_set_dict).
 *
 * Companion of contracts/igzip_inflate_driver.h (protocol side, pointer checks off there).  Here every
 * store of the driver goes through a RECORDING stub whose PRECONDITION is the safety statement, so the
 * obligation "this copy stays inside the object it belongs to" is a checked precondition at each of the
 * seven call sites of isal_inflate:
 *      memcpy   tmp_out_buffer[processed ..) -> user buffer             (delivery)
 *      memcpy   user buffer (last 32 KB)     -> tmp_out_buffer[0 ..)    (history after direct decoding)
 *      memmove  tmp_out_buffer[shift ..)     -> tmp_out_buffer[0 ..)    (window shift)
 *      store_le_u32 / byte_copy  x2                                      (replay of the pending-overflow
 *                                                                         records into tmp_out_buffer)
 * and the ranges handed to the block decoders / to update_checksum are checked preconditions of their stubs.
 *
 * Regions (ghost pointers are snapshots taken by assignment in E_isal_inflate):
 *      TMP   = [g_tmp, g_tmp + IM_TMP_SIZE)          g_tmp   = state->tmp_out_buffer
 *      USER  = [g_out0, g_out0 + g_avail0)           g_out0  = next_out, g_avail0 = avail_out at entry
 *
 * State invariant IM_INV (required at entry, re-established at EVERY return, established by
 * isal_inflate_init/_reset and kept by isal_inflate_set_dict -- harnesses below):
 *      0 <= tmp_out_processed <= tmp_out_valid <= sizeof(tmp_out_buffer) = 2*32768 + 288
 *      while blocks may still be decoded (block_state not INPUT_DONE / FINISH / CHECKSUM_CHECK):
 *                                                 tmp_out_valid <= 2*32768 + 261
 *              (a decoder call fills at most up to offset 2*32768; the replay of the pending records adds at
 *               most 3 literals + 258 match bytes; ISAL_LOOK_AHEAD = 288 is the slop reserved for that.
 *               Once the final block is decoded a second replay may use the rest of the slop, guarded by the
 *               code's own test copy_overflow_length + write_overflow_len + tmp_out_valid > sizeof.)
 *      both pending-overflow records are empty, 0 <= read_in_length <= 64, block_state is a valid enum value.
 *
 * What had to be ASSUMED about the stubs (beyond "writes only inside the range it is given"):
 *  (A1) decoder: after ANY return  0 <= write_overflow_len <= 3,  0 <= copy_overflow_length <= 258, and a
 *       pending copy has  1 <= copy_overflow_distance <= 32768  and reaches back at most to the start_out it
 *       was given, counting the pending literals:  distance <= (next_out - start_out) + write_overflow_len
 *       (RFC 1951 maximum distance; the look-back test of the decode loop, contracts/igzip_decode_loop.h
 *       incl. /repo cea2eed).  Records only with a non-zero return; ISAL_OUT_OVERFLOW only with avail_out == 0;
 *       a record's payload (lits / distance) is non-zero only together with its length.
 *  (A2) starvation is stable: once a callee has returned ISAL_END_INPUT in this call, every further callee
 *       called in this call (the input is untouched in between) returns ISAL_END_INPUT again, produces nothing
 *       and leaves no record.  Needed for exactly one situation: the second decoding loop (directly into the
 *       user buffer) runs after the first one ended starved with < 32 KB in tmp_out_buffer; a match record
 *       produced there would be replayed at &tmp_out_buffer[valid] with valid < distance.  In the real code
 *       the second loop cannot make progress in that situation; the stubs have no memory of it without (A2).
 *  (A3) header / trailer / literal-block callees move next_in forward inside the input and do not touch the
 *       output fields or the window bookkeeping (their proved frames, igzip_inflate_parts.h, igzip_hdr_read.h). */
#ifndef IGZIP_INFLATE_MEM_H
#define IGZIP_INFLATE_MEM_H
#include "verif_common.h"

extern uint8_t *g_tmp, *g_out0;
extern uint32_t g_avail0;
extern uint32_t w_starved;   /* (A2) a callee has reported ISAL_END_INPUT in this call */
extern uint32_t w_calls;     /* stub calls (canary help) */
extern uint32_t w_user_writes; /* bytes handed to copy stubs / decoders with a USER destination (not summed: max) */

#define IM_H ISAL_DEF_HIST_SIZE
#define IM_TMP_SIZE ((int64_t) (2 * ISAL_DEF_HIST_SIZE + ISAL_LOOK_AHEAD))
#define IM_VMAX ((int32_t) (2 * ISAL_DEF_HIST_SIZE + 3 + 258))
#define IM_OFF(p) ((int64_t) __CPROVER_POINTER_OFFSET(p))
#define IM_IN_TMP(p, n)                                                                            \
        (__CPROVER_same_object(p, g_tmp) && IM_OFF(p) >= IM_OFF(g_tmp) &&                          \
         IM_OFF(p) - IM_OFF(g_tmp) + (int64_t) (n) <= IM_TMP_SIZE)
#define IM_IN_USER(p, n)                                                                           \
        (__CPROVER_same_object(p, g_out0) && IM_OFF(p) >= IM_OFF(g_out0) &&                        \
         IM_OFF(p) - IM_OFF(g_out0) + (int64_t) (n) <= (int64_t) g_avail0)
#define IM_RET __CPROVER_return_value
#define IM_LEN_OK(s) ((s)->read_in_length >= 0 && (s)->read_in_length <= 64)
#define IM_NO_REC(s)                                                                               \
        ((s)->write_overflow_len == 0 && (s)->write_overflow_lits == 0 &&                          \
         (s)->copy_overflow_length == 0 && (s)->copy_overflow_distance == 0)
/* no block will be decoded any more in this stream (until isal_inflate_reset) */
#define IM_DECODING_OVER(s)                                                                        \
        ((s)->block_state == ISAL_BLOCK_INPUT_DONE || (s)->block_state == ISAL_BLOCK_FINISH ||     \
         (s)->block_state == ISAL_CHECKSUM_CHECK)
#define IM_INV(s)                                                                                  \
        ((s)->tmp_out_processed >= 0 && (s)->tmp_out_processed <= (s)->tmp_out_valid &&            \
         (s)->tmp_out_valid <= (int32_t) IM_TMP_SIZE &&                                            \
         (IM_DECODING_OVER(s) || (s)->tmp_out_valid <= IM_VMAX) &&                                 \
         IM_NO_REC(s) && IM_LEN_OK(s) && (uint32_t) (s)->block_state <= ISAL_CHECKSUM_CHECK)
#define IM_IN_FRAME state->read_in, state->read_in_length, state->next_in, state->avail_in
#define IM_IN_FORWARD(s)                                                                           \
        ((s)->avail_in <= __CPROVER_old((s)->avail_in) &&                                          \
         (s)->next_in == __CPROVER_old((s)->next_in) + (__CPROVER_old((s)->avail_in) - (s)->avail_in))
#define IM_OUT_ADVANCE(s)                                                                          \
        ((s)->avail_out <= __CPROVER_old((s)->avail_out) &&                                        \
         (s)->next_out ==                                                                          \
                 __CPROVER_old((s)->next_out) + (__CPROVER_old((s)->avail_out) - (s)->avail_out))
/* -DIM_NO_A2 switches assumption (A2) off (experiment only: then byte_copy.precondition.2 fails, see report) */
#ifdef IM_NO_A2
#define IM_A2(x) 0
#else
#define IM_A2(x) (x)
#endif
#define IM_STARVE_RULE(s)                                                                          \
        (w_starved == ((__CPROVER_old(w_starved) || IM_RET == ISAL_END_INPUT) ? 1u : 0u) &&        \
         (IM_A2(__CPROVER_old(w_starved)) ==> IM_RET == ISAL_END_INPUT) && w_calls == __CPROVER_old(w_calls) + 1)
/* the callee was handed an output range it may write: inside TMP or inside USER */
#define IM_OUT_RANGE_OK(s)                                                                         \
        (IM_IN_TMP((s)->next_out, (s)->avail_out) || IM_IN_USER((s)->next_out, (s)->avail_out))

/* ------------------------------------------------------------------------------------------------ stubs */
#if defined(IM_DRIVER)
/* block header, stateful wrapper (A3) */
#define C_read_header_stateful                                                                     \
        __CPROVER_requires(IM_LEN_OK(state))                                                       \
        __CPROVER_assigns(IM_IN_FRAME, state->bfinal, state->type0_block_len, state->block_state,  \
                          state->tmp_in_size, w_starved, w_calls)                                  \
        __CPROVER_ensures(IM_RET == 0 || IM_RET == ISAL_END_INPUT || IM_RET == ISAL_INVALID_BLOCK) \
        __CPROVER_ensures(IM_RET == 0 ==> (state->block_state == ISAL_BLOCK_CODED ||               \
                                           state->block_state == ISAL_BLOCK_TYPE0))                \
        __CPROVER_ensures(IM_RET == ISAL_END_INPUT ==> state->block_state == ISAL_BLOCK_HDR)       \
        __CPROVER_ensures(IM_RET == ISAL_INVALID_BLOCK ==>                                         \
                          state->block_state == __CPROVER_old(state->block_state))                 \
        __CPROVER_ensures(IM_IN_FORWARD(state) && IM_LEN_OK(state) && IM_STARVE_RULE(state))

/* stored block: mirrors C_decode_literal_block (proved, igzip_inflate_parts.h): writes only inside
 * [next_out, next_out + avail_out), which must therefore be a valid range: checked precondition */
#define C_decode_literal_block                                                                     \
        __CPROVER_requires(IM_LEN_OK(state) && state->block_state == ISAL_BLOCK_TYPE0)             \
        __CPROVER_requires(IM_OUT_RANGE_OK(state))                                                 \
        __CPROVER_assigns(state->next_out, state->avail_out, state->total_out, IM_IN_FRAME,        \
                          state->type0_block_len, state->block_state, w_starved, w_calls)          \
        __CPROVER_ensures(IM_OUT_ADVANCE(state) && IM_IN_FORWARD(state))                           \
        __CPROVER_ensures(IM_RET == 0 || IM_RET == ISAL_END_INPUT || IM_RET == ISAL_OUT_OVERFLOW)  \
        __CPROVER_ensures(state->block_state ==                                                    \
                          (IM_RET != 0 ? ISAL_BLOCK_TYPE0                                          \
                                       : (state->bfinal ? ISAL_BLOCK_INPUT_DONE : ISAL_BLOCK_NEW_HDR))) \
        __CPROVER_ensures(IM_RET == ISAL_OUT_OVERFLOW ==> state->avail_out == 0)                   \
        __CPROVER_ensures(IM_A2(__CPROVER_old(w_starved)) ==> state->avail_out == __CPROVER_old(state->avail_out)) \
        __CPROVER_ensures(IM_LEN_OK(state) && IM_STARVE_RULE(state))

/* Huffman block decoder (dispatched symbol, NASM on x86): ASSUMED (A1), (A2).
 * CHECKED at every call site: the output range is valid, start_out is the base of the buffer next_out points
 * into and not behind next_out, no stale pending-literal record. */
int
decode_huffman_code_block_stateless(struct inflate_state *state, uint8_t *start_out)
        __CPROVER_requires(state->write_overflow_len == 0 && state->write_overflow_lits == 0)
        __CPROVER_requires(IM_LEN_OK(state) && IM_OUT_RANGE_OK(state))
        __CPROVER_requires(__CPROVER_same_object(state->next_out, start_out) &&
                           IM_OFF(state->next_out) >= IM_OFF(start_out) &&
                           (start_out == g_tmp || start_out == g_out0))
        __CPROVER_assigns(state->next_out, state->avail_out, state->total_out, IM_IN_FRAME,
                          state->block_state, state->write_overflow_lits, state->write_overflow_len,
                          state->copy_overflow_length, state->copy_overflow_distance, w_starved, w_calls)
        __CPROVER_ensures(IM_OUT_ADVANCE(state) && IM_IN_FORWARD(state))
        __CPROVER_ensures(IM_RET == 0 || IM_RET == ISAL_END_INPUT || IM_RET == ISAL_OUT_OVERFLOW ||
                          IM_RET == ISAL_INVALID_SYMBOL || IM_RET == ISAL_INVALID_LOOKBACK)
        __CPROVER_ensures(state->block_state == ISAL_BLOCK_CODED ||
                          state->block_state == ISAL_BLOCK_NEW_HDR ||
                          state->block_state == ISAL_BLOCK_INPUT_DONE)
        __CPROVER_ensures((IM_RET == 0 || IM_RET == ISAL_END_INPUT) ==> IM_NO_REC(state))
        __CPROVER_ensures(IM_RET == 0 ==> state->block_state != ISAL_BLOCK_CODED)
        __CPROVER_ensures(IM_RET == ISAL_OUT_OVERFLOW ==> state->avail_out == 0)
        /* (A1) */
        __CPROVER_ensures(state->write_overflow_len >= 0 && state->write_overflow_len <= 3 &&
                          state->copy_overflow_length >= 0 && state->copy_overflow_length <= 258)
        __CPROVER_ensures(state->copy_overflow_length > 0 ==>
                          (state->copy_overflow_distance >= 1 && state->copy_overflow_distance <= 32768 &&
                           (int64_t) state->copy_overflow_distance <=
                                   IM_OFF(state->next_out) - IM_OFF(start_out) + state->write_overflow_len))
        /* (A1, as in igzip_inflate_driver.h) a record's payload is set only together with its length */
        __CPROVER_ensures((state->write_overflow_len == 0 ==> state->write_overflow_lits == 0) &&
                          (state->copy_overflow_length == 0 ==> state->copy_overflow_distance == 0))
        /* (A2) */
        __CPROVER_ensures(IM_A2(__CPROVER_old(w_starved)) ==>
                          (state->avail_out == __CPROVER_old(state->avail_out) && IM_NO_REC(state)))
        __CPROVER_ensures(IM_LEN_OK(state) && IM_STARVE_RULE(state));

/* running checksum: reads [start_in, start_in + length): must be bytes of USER delivered in this call */
#define C_update_checksum                                                                          \
        __CPROVER_requires(IM_IN_USER(start_in, length) && start_in == g_out0 &&                   \
                           (int64_t) length == IM_OFF(state->next_out) - IM_OFF(g_out0))           \
        __CPROVER_assigns(state->crc, w_calls)                                                     \
        __CPROVER_ensures(w_calls == __CPROVER_old(w_calls) + 1)
#define C_finalize_adler32 __CPROVER_assigns(state->crc)
#define IM_CHECK_CONTRACT                                                                          \
        __CPROVER_requires(IM_LEN_OK(state))                                                       \
        __CPROVER_assigns(IM_IN_FRAME, state->tmp_in_size, state->block_state, w_calls)            \
        __CPROVER_ensures(IM_RET == ISAL_DECOMP_OK || IM_RET == ISAL_END_INPUT ||                  \
                          IM_RET == ISAL_INCORRECT_CHECKSUM)                                       \
        __CPROVER_ensures(state->block_state ==                                                    \
                          (IM_RET == ISAL_END_INPUT ? ISAL_CHECKSUM_CHECK : ISAL_BLOCK_FINISH))    \
        __CPROVER_ensures(IM_IN_FORWARD(state) && IM_LEN_OK(state) && w_calls == __CPROVER_old(w_calls) + 1)
#define C_check_gzip_checksum IM_CHECK_CONTRACT
#define C_check_zlib_checksum IM_CHECK_CONTRACT
/* wrapper headers (A3): proved frames of igzip_hdr_read.h reduced to what a memory argument needs */
#define IM_WRAP_STATES                                                                             \
        (state->block_state == __CPROVER_old(state->block_state) ||                                \
         state->block_state == ISAL_BLOCK_NEW_HDR ||                                               \
         (state->block_state >= ISAL_GZIP_EXTRA_LEN && state->block_state <= ISAL_ZLIB_DICT))
#define C_isal_read_gzip_header                                                                    \
        __CPROVER_assigns(state->next_in, state->avail_in, state->tmp_in_size, state->block_state, \
                          state->wrapper_flag, state->count, gz_hdr->flags, gz_hdr->extra_len,     \
                          gz_hdr->hcrc, w_calls)                                                   \
        __CPROVER_ensures(IM_RET >= ISAL_INCORRECT_CHECKSUM && IM_RET <= ISAL_EXTRA_OVERFLOW)      \
        __CPROVER_ensures(IM_RET == ISAL_DECOMP_OK ==>                                             \
                          (state->wrapper_flag == 1 && state->block_state == ISAL_BLOCK_NEW_HDR))  \
        __CPROVER_ensures(IM_WRAP_STATES && IM_IN_FORWARD(state) && w_calls == __CPROVER_old(w_calls) + 1)
#define C_isal_read_zlib_header                                                                    \
        __CPROVER_assigns(state->next_in, state->avail_in, state->tmp_in_size, state->block_state, \
                          state->wrapper_flag, zlib_hdr->info, zlib_hdr->level,                    \
                          zlib_hdr->dict_flag, zlib_hdr->dict_id, w_calls)                         \
        __CPROVER_ensures(IM_RET >= ISAL_INCORRECT_CHECKSUM && IM_RET <= ISAL_END_INPUT)           \
        __CPROVER_ensures(IM_RET == ISAL_DECOMP_OK ==>                                             \
                          (state->wrapper_flag == 1 && state->block_state == ISAL_BLOCK_NEW_HDR))  \
        __CPROVER_ensures(IM_WRAP_STATES && IM_IN_FORWARD(state) && w_calls == __CPROVER_old(w_calls) + 1)
void
isal_gzip_header_init(struct isal_gzip_header *gz_hdr) __CPROVER_assigns(__CPROVER_object_whole(gz_hdr));
void
isal_zlib_header_init(struct isal_zlib_header *z_hdr) __CPROVER_assigns(__CPROVER_object_whole(z_hdr));

/* ---- the driver's own stores: recording stubs, PRECONDITION = the safety statement ---- */
/* memcpy / memmove: destination inside TMP or USER, source inside TMP or USER, n bytes each.
 * (The two ranges of the window shift overlap: the code rightly uses memmove there; both are routed here.) */
void *
verif_mem_copy(void *d, const void *s, size_t n)
        __CPROVER_requires(n <= 0x7fffffff)
        __CPROVER_requires(IM_IN_TMP((const uint8_t *) d, n) || IM_IN_USER((const uint8_t *) d, n))
        __CPROVER_requires(IM_IN_TMP((const uint8_t *) s, n) || IM_IN_USER((const uint8_t *) s, n))
        __CPROVER_assigns(w_calls)
        __CPROVER_ensures(w_calls == __CPROVER_old(w_calls) + 1 && __CPROVER_return_value == d);
/* store_le_u32 writes FOUR bytes whatever write_overflow_len is */
void
verif_mem_store32(uint8_t *d, uint32_t v)
        __CPROVER_requires(IM_IN_TMP(d, 4))
        __CPROVER_assigns(w_calls)
        __CPROVER_ensures(w_calls == __CPROVER_old(w_calls) + 1);
/* byte_copy(dest, distance, length): writes [dest, dest+length) and reads from dest - distance on */
#define C_byte_copy                                                                                \
        __CPROVER_requires(repeat_length > 0 && repeat_length <= 258 && lookback_distance >= 1)    \
        __CPROVER_requires(IM_IN_TMP(dest, repeat_length) &&                                       \
                           IM_OFF(dest) - IM_OFF(g_tmp) >= (int64_t) lookback_distance)            \
        __CPROVER_assigns(w_calls)                                                                 \
        __CPROVER_ensures(w_calls == __CPROVER_old(w_calls) + 1)

/* ------------------------------------------------------------------------------------------------
 * isal_inflate
 * ------------------------------------------------------------------------------------------------ */
#define IM_OLD(f) __CPROVER_old(state->f)
#define IM_HDR_PENDING(s) ((s)->wrapper_flag == 0 && ((s)->crc_flag == IGZIP_GZIP || (s)->crc_flag == IGZIP_ZLIB))
#define IM_STREAMING(s)                                                                            \
        ((s)->block_state != ISAL_BLOCK_INPUT_DONE && (s)->block_state != ISAL_BLOCK_FINISH &&     \
         (s)->block_state != ISAL_CHECKSUM_CHECK)
#define C_isal_inflate                                                                             \
        __CPROVER_requires(__CPROVER_is_fresh(state, sizeof(*state)))                              \
        __CPROVER_requires(__CPROVER_is_fresh(state->next_out, state->avail_out))                  \
        __CPROVER_requires(__CPROVER_is_fresh(state->next_in, state->avail_in))                    \
        /* block_state is consistent with the wrapper: a wrapper still to be read means the stream is at its \
         * start or inside that header; afterwards it is in a deflate-level state (as in                 \
         * contracts/igzip_inflate_driver.h) */                                                      \
        __CPROVER_requires(IM_HDR_PENDING(state)                                                   \
                                   ? (state->block_state == ISAL_BLOCK_NEW_HDR ||                  \
                                      (state->block_state >= ISAL_GZIP_EXTRA_LEN &&                \
                                       state->block_state <= ISAL_ZLIB_DICT))                      \
                                   : ((uint32_t) state->block_state <= ISAL_BLOCK_FINISH ||        \
                                      state->block_state == ISAL_CHECKSUM_CHECK))                  \
        __CPROVER_requires(IM_INV(state) && w_starved == 0 && w_calls == 0)                        \
        __CPROVER_assigns(__CPROVER_object_whole(state), g_tmp, g_out0, g_avail0, w_starved, w_calls) \
        /* the invariant is re-established on every return path */                                 \
        __CPROVER_ensures(IM_INV(state))                                                           \
        /* C05: the user's output position stays inside [entry next_out, + entry avail_out] */     \
        __CPROVER_ensures(state->avail_out <= IM_OLD(avail_out) &&                                 \
                          state->next_out == g_out0 + (IM_OLD(avail_out) - state->avail_out))      \
        /* window bookkeeping while the stream goes on (return OK, more blocks to come): the shift / history   \
         * copy never leaves more than 32 KB of already delivered bytes in front (room for the next call)   \
         * and never keeps less than 32 KB of history once the window held that much */             \
        __CPROVER_ensures((IM_STREAMING(state) && IM_RET == ISAL_DECOMP_OK &&                      \
                           IM_OLD(tmp_out_processed) <= IM_H) ==> state->tmp_out_processed <= IM_H) \
        __CPROVER_ensures((IM_STREAMING(state) && IM_RET == ISAL_DECOMP_OK &&                      \
                           IM_OLD(tmp_out_valid) >= IM_H) ==> state->tmp_out_valid >= IM_H)
#define E_isal_inflate                                                                             \
        g_tmp = state->tmp_out_buffer;                                                             \
        g_out0 = state->next_out;                                                                  \
        g_avail0 = state->avail_out;

#define IM_LOOP_FRAME                                                                              \
        ret, state->next_out, state->avail_out, state->total_out, IM_IN_FRAME, state->bfinal,      \
                state->type0_block_len, state->block_state, state->tmp_in_size,                    \
                state->write_overflow_lits, state->write_overflow_len,                             \
                state->copy_overflow_length, state->copy_overflow_distance, w_starved, w_calls
/* loop 1: decode into TMP.  The range handed to the decoders always ends at offset 2*32768 of TMP. */
#define L_isal_inflate_1                                                                           \
        __CPROVER_assigns(IM_LOOP_FRAME)                                                           \
        __CPROVER_loop_invariant(ret == 0 && w_starved == 0 && IM_LEN_OK(state) && IM_NO_REC(state)) \
        __CPROVER_loop_invariant((uint32_t) state->block_state <= ISAL_BLOCK_INPUT_DONE)           \
        __CPROVER_loop_invariant(state->avail_in <= __CPROVER_loop_entry(state->avail_in) &&       \
                                 state->next_in == __CPROVER_loop_entry(state->next_in) +          \
                                                           (__CPROVER_loop_entry(state->avail_in) - state->avail_in)) \
        __CPROVER_loop_invariant(__CPROVER_same_object(state->next_out, g_tmp) &&                  \
                                 IM_OFF(state->next_out) - IM_OFF(g_tmp) >= state->tmp_out_valid && \
                                 IM_OFF(state->next_out) - IM_OFF(g_tmp) + (int64_t) state->avail_out == \
                                         2 * IM_H)
/* loop 2: decode directly into USER, behind what was delivered from TMP */
#define L_isal_inflate_2                                                                           \
        __CPROVER_assigns(IM_LOOP_FRAME)                                                           \
        __CPROVER_loop_invariant((ret == 0 || ret == ISAL_END_INPUT || ret == ISAL_OUT_OVERFLOW) && \
                                 IM_LEN_OK(state) && IM_NO_REC(state))                             \
        __CPROVER_loop_invariant((uint32_t) state->block_state <= ISAL_BLOCK_INPUT_DONE)           \
        __CPROVER_loop_invariant(state->avail_in <= __CPROVER_loop_entry(state->avail_in) &&       \
                                 state->next_in == __CPROVER_loop_entry(state->next_in) +          \
                                                           (__CPROVER_loop_entry(state->avail_in) - state->avail_in)) \
        __CPROVER_loop_invariant(__CPROVER_same_object(state->next_out, g_out0) &&                 \
                                 IM_OFF(state->next_out) >= IM_OFF(g_out0) &&                      \
                                 IM_OFF(state->next_out) - IM_OFF(g_out0) + (int64_t) state->avail_out == \
                                         (int64_t) g_avail0)                                       \
        /* (A2) carried: a starved first loop means no progress in the second */                   \
        __CPROVER_loop_invariant(__CPROVER_loop_entry(w_starved) ==>                               \
                                 (w_starved && state->next_out == __CPROVER_loop_entry(state->next_out)))
#define H_isal_inflate_1 VCANARY();
#define H_isal_inflate_2 VCANARY();
#endif /* IM_DRIVER */

/* ------------------------------------------------------------------------------------------------
 * who establishes IM_INV
 * ------------------------------------------------------------------------------------------------ */
#if defined(IM_ESTABLISH)
#define C_isal_inflate_init                                                                        \
        __CPROVER_requires(__CPROVER_is_fresh(state, sizeof(*state)))                              \
        __CPROVER_assigns(__CPROVER_object_whole(state))                                           \
        __CPROVER_ensures(IM_INV(state) && state->tmp_out_valid == 0)
#define C_isal_inflate_reset                                                                       \
        __CPROVER_requires(__CPROVER_is_fresh(state, sizeof(*state)))                              \
        __CPROVER_assigns(__CPROVER_object_whole(state))                                           \
        __CPROVER_ensures(IM_INV(state) && state->tmp_out_valid == 0)
/* dictionary: the copy is the recording stub with the TMP precondition; an accepted dictionary leaves
 * processed == valid == min(len, 32768); a refused one leaves the state alone; IM_INV is kept */
void *
verif_mem_copy_dict(void *d, const void *s, size_t n)
        __CPROVER_requires(IM_IN_TMP((const uint8_t *) d, n) && __CPROVER_r_ok(s, n))
        __CPROVER_assigns(w_calls)
        __CPROVER_ensures(w_calls == __CPROVER_old(w_calls) + 1 && __CPROVER_return_value == d);
#define C_isal_inflate_set_dict                                                                    \
        __CPROVER_requires(__CPROVER_is_fresh(state, sizeof(*state)) &&                            \
                           __CPROVER_is_fresh(dict, dict_len))                                     \
        __CPROVER_requires(IM_INV(state))                                                          \
        __CPROVER_assigns(state->tmp_out_processed, state->tmp_out_valid, state->dict_length, g_tmp, w_calls) \
        __CPROVER_ensures(IM_INV(state))                                                           \
        __CPROVER_ensures(IM_RET == COMP_OK ==>                                                    \
                          (state->tmp_out_valid == state->tmp_out_processed &&                     \
                           state->tmp_out_valid <= IM_H))
#define E_isal_inflate_set_dict g_tmp = state->tmp_out_buffer;
#endif

#endif
