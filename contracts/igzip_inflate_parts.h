/* Component contracts for the decompressor igzip/igzip_inflate.c
 * (properties C02 / C06 / C11 / C07 / C15 / C17; DESIGN.md section 7).
 *
 * Sources of the postconditions: RFC 1951 (bit order 3.1.1, block header 3.2.3, stored block 3.2.4,
 * canonical codes 3.2.2, dynamic header 3.2.7), RFC 1952 2.3.1 (CRC32 / ISIZE little endian),
 * RFC 1950 2.2 (ADLER32 most significant byte first), include/igzip_lib.h (return codes, field
 * meaning).  Nothing here is transcribed from the function bodies.
 *
 * Which group of contracts is active is selected by -DINF_<GROUP> in the registry entry (a function has
 * at most one contract per harness TU).
 *
 * ---------------------------------------------------------------------------------------------
 * The abstract input of the decoder ("logical bit stream") is
 *        read_in[0 .. read_in_length)  ||  bits of next_in[0], next_in[1], ... next_in[avail_in-1]
 * each byte contributing its bits least-significant first (RFC 1951 3.1.1).
 *
 * WF_inflate_bits(s):   -64 <= read_in_length <= 64, a negative length only with avail_in == 0
 *   (a negative length is the decoder's "ran out of input" marker: a reader consumed more bits than the
 *   logical stream had; it is only produced when avail_in == 0), and the bits of read_in above
 *   read_in_length are a subset of the bits of the not yet consumed input (the 64-bit fast path of
 *   inflate_in_load ORs eight input bytes in but advances next_in by fewer; these bits are ORed in
 *   again by the next load, which is harmless exactly because of this invariant).
 */
#ifndef IGZIP_INFLATE_PARTS_H
#define IGZIP_INFLATE_PARTS_H
#include "verif_common.h"
#include <string.h>
#include "igzip_lib.h"
#include "huff_codes.h"

/* ---- ghost variables (defined in the harness TUs) ---- */
extern uint32_t g_p;  /* ghost byte position */
extern uint32_t g_b;  /* ghost bit position */
extern uint32_t g_n;  /* ghost copy of a scalar argument */
extern uint64_t g_d;  /* ghost copy of a scalar argument */
extern uint64_t g_s0; /* ghost: first 64 bits of the logical input stream at entry (tied by == in requires;
                         __CPROVER_old() does not accept compound expressions) */
extern int64_t g_bits0; /* ghost: number of bits in the logical stream at entry */
extern uint32_t g_q;  /* second ghost byte position (frame statements) */
extern uint8_t w_q0;  /* ghost: value at position g_q at entry (snapshot taken by an E_ hook) */

/* ---- little helpers (pure expressions) ---- */
#define LOWBITS(x, n) ((n) >= 64 ? (uint64_t) (x) : ((n) <= 0 ? 0ULL : ((uint64_t) (x) & ((1ULL << (n)) - 1))))
#define SHL64(x, n) (((n) >= 64 || (n) < 0) ? 0ULL : ((uint64_t) (x) << (n)))
#define SHR64(x, n) (((n) >= 64 || (n) < 0) ? 0ULL : ((uint64_t) (x) >> (n)))
#define MIN2(a, b) ((a) < (b) ? (a) : (b))
/* next (up to) eight unconsumed input bytes as a little-endian word, zero beyond avail_in */
#define PEEKB(s, k) ((s)->avail_in > (k) ? ((uint64_t) (s)->next_in[k]) << (8 * (k)) : 0ULL)
#define PEEK64(s)                                                                                  \
        (PEEKB(s, 0) | PEEKB(s, 1) | PEEKB(s, 2) | PEEKB(s, 3) | PEEKB(s, 4) | PEEKB(s, 5) |       \
         PEEKB(s, 6) | PEEKB(s, 7))
/* first 64 bits of the logical stream (zero beyond its end) */
#define STREAM64(s) (LOWBITS((s)->read_in, (s)->read_in_length) | SHL64(PEEK64(s), (s)->read_in_length))
/* number of bits in the logical stream, saturated so that it fits */
#define STREAM_BITS(s) ((int64_t) (s)->read_in_length + 8 * (int64_t) (s)->avail_in)

#define WF_inflate_len(s) ((s)->read_in_length >= -64 && (s)->read_in_length <= 64 &&              \
                           ((s)->read_in_length >= 0 || (s)->avail_in == 0))
#define WF_inflate_garbage(s)                                                                      \
        (!((s)->read_in_length >= 0 && (s)->read_in_length < 64) ||                                \
         ((((s)->read_in >> (s)->read_in_length) & ~PEEK64(s)) == 0))
#define WF_inflate_bits(s) (WF_inflate_len(s) && WF_inflate_garbage(s))
/* at function boundaries of the block decoders the length is never negative */
#define WF_inflate(s) (WF_inflate_bits(s) && (s)->read_in_length >= 0 &&                           \
                       (s)->tmp_in_size >= 0 && (s)->tmp_in_size <= ISAL_DEF_MAX_HDR_SIZE)

/* The caller-owned objects of an inflate_state: the struct itself, exactly avail_in bytes of input and
 * exactly avail_out bytes of output (one byte more or less touched is a failed pointer check).
 * avail_in <= 2^32-9: see "possible defect" note at decode_literal_block. */
#define INF_FRESH_STATE(s) __CPROVER_is_fresh(s, sizeof(*(s)))
#define INF_FRESH_IN(s) __CPROVER_is_fresh((s)->next_in, (s)->avail_in)
#define INF_FRESH_OUT(s) __CPROVER_is_fresh((s)->next_out, (s)->avail_out)

/* =============================================================================================
 * (a) bit reader
 * ============================================================================================= */
#if defined(INF_BITS)
/* inflate_in_load: refills the accumulator without changing the logical stream.
 *   - nothing happens when the accumulator is full or the length is negative (then avail_in==0)
 *   - otherwise k = (L'-L)/8 whole bytes move from next_in into read_in at bit positions L+8j (LSB first),
 *     next_in/avail_in advance by exactly k, k <= avail_in (never reads past avail_in: is_fresh exact),
 *     and the refill is maximal in the sense the readers rely on: L' >= 57 or no input is left. */
#define C_inflate_in_load                                                                          \
        __CPROVER_requires(INF_FRESH_STATE(state) && INF_FRESH_IN(state))                          \
        __CPROVER_requires(WF_inflate_bits(state) && g_s0 == STREAM64(state))                      \
        __CPROVER_assigns(state->read_in, state->read_in_length, state->next_in, state->avail_in)  \
        __CPROVER_ensures(WF_inflate_bits(state))                                                  \
        __CPROVER_ensures((__CPROVER_old(state->read_in_length) >= 64 ||                           \
                           __CPROVER_old(state->read_in_length) < 0) ==>                           \
                          (state->read_in == __CPROVER_old(state->read_in) &&                      \
                           state->read_in_length == __CPROVER_old(state->read_in_length) &&        \
                           state->next_in == __CPROVER_old(state->next_in) &&                      \
                           state->avail_in == __CPROVER_old(state->avail_in)))                     \
        __CPROVER_ensures(state->read_in_length >= __CPROVER_old(state->read_in_length) &&         \
                          state->read_in_length <= 64 &&                                           \
                          (state->read_in_length - __CPROVER_old(state->read_in_length)) % 8 == 0) \
        __CPROVER_ensures(state->avail_in <= __CPROVER_old(state->avail_in) &&                     \
                          8 * (int64_t) (__CPROVER_old(state->avail_in) - state->avail_in) ==      \
                                  (int64_t) state->read_in_length -                                \
                                          __CPROVER_old(state->read_in_length) &&                  \
                          state->next_in == __CPROVER_old(state->next_in) +                        \
                                                    (__CPROVER_old(state->avail_in) - state->avail_in)) \
        /* the logical stream is unchanged: its first L' bits are now all in read_in */            \
        __CPROVER_ensures(state->read_in_length >= 0 ==>                                           \
                          LOWBITS(state->read_in, state->read_in_length) ==                        \
                                  LOWBITS(g_s0, state->read_in_length))  \
        /* maximal refill */                                                                       \
        __CPROVER_ensures(state->read_in_length >= 57 || state->avail_in == 0)
/* The byte-wise refill loop runs at most 8 times (57 is a constant of the code, WF gives L >= 0): it is
 * unwound 9 times with an unwinding assertion, which is complete.  (A loop contract was tried: the
 * invariant needs PEEK64 at a symbolic offset of a symbolic-size object and exhausts memory.) */
#define H_inflate_in_load_1 VCANARY();

/* inflate_in_read_bits_unsafe: takes bit_count bits off the accumulator, LSB first; the length may go
 * negative (the caller's out-of-input signal).  bit_count <= 30: the mask is computed in int. */
#define C_inflate_in_read_bits_unsafe                                                              \
        __CPROVER_requires(INF_FRESH_STATE(state))                                                 \
        __CPROVER_requires(bit_count <= 30 && state->read_in_length >= -1000 &&                    \
                           state->read_in_length <= 64 && g_n == bit_count)                        \
        __CPROVER_assigns(state->read_in, state->read_in_length)                                   \
        __CPROVER_ensures(__CPROVER_return_value == LOWBITS(__CPROVER_old(state->read_in), g_n))   \
        __CPROVER_ensures(state->read_in == SHR64(__CPROVER_old(state->read_in), g_n))             \
        __CPROVER_ensures(state->read_in_length == __CPROVER_old(state->read_in_length) - (int) g_n)

/* inflate_in_read_bits = load + take.  n <= 30.
 *   enough bits in the logical stream (L + 8*avail_in >= n):  returns its first n bits, the logical
 *        stream afterwards is the old one without those n bits, L' >= 0;
 *   not enough: L' < 0 and avail_in' == 0 (signal), never reads past avail_in. */
#define C_inflate_in_read_bits                                                                     \
        __CPROVER_requires(INF_FRESH_STATE(state) && INF_FRESH_IN(state))                          \
        __CPROVER_requires(WF_inflate_bits(state) && bit_count <= 30 && g_n == bit_count)          \
        __CPROVER_requires(g_s0 == STREAM64(state) && g_bits0 == STREAM_BITS(state))               \
        __CPROVER_assigns(state->read_in, state->read_in_length, state->next_in, state->avail_in)  \
        __CPROVER_ensures(state->read_in_length <= 64 &&                                           \
                          (state->read_in_length >= 0 || state->avail_in == 0))                    \
        __CPROVER_ensures(state->avail_in <= __CPROVER_old(state->avail_in) &&                     \
                          state->next_in == __CPROVER_old(state->next_in) +                        \
                                                    (__CPROVER_old(state->avail_in) - state->avail_in)) \
        /* bit accounting: consumed bytes*8 + old length - n == new length */                      \
        __CPROVER_ensures((int64_t) state->read_in_length ==                                       \
                          (int64_t) __CPROVER_old(state->read_in_length) - (int64_t) g_n +         \
                                  8 * (int64_t) (__CPROVER_old(state->avail_in) - state->avail_in)) \
        __CPROVER_ensures((g_bits0 >= (int64_t) g_n) ==>                 \
                          (state->read_in_length >= 0 &&                                           \
                           __CPROVER_return_value == LOWBITS(g_s0, g_n) && \
                           LOWBITS(state->read_in, state->read_in_length) ==                       \
                                   LOWBITS(SHR64(g_s0, g_n),             \
                                           state->read_in_length) &&                               \
                           WF_inflate_garbage(state)))                                             \
        __CPROVER_ensures((g_bits0 < (int64_t) g_n) ==>                  \
                          (state->read_in_length < 0 && state->avail_in == 0))
#endif /* INF_BITS */

/* =============================================================================================
 * (c) decode_literal_block  -- stored block body (RFC 1951 3.2.4), progress contract (C02/C06/C07)
 *
 * Logical input bytes of the block: the B = read_in_length/8 whole bytes buffered in read_in (least
 * significant first) followed by next_in[0..avail_in).  One call copies exactly
 *        N = min(type0_block_len, avail_out, B + avail_in)
 * bytes of it to next_out, advances next_out/avail_out/total_out by N, keeps the residue
 * type0_block_len - N, takes the input from read_in first, and leaves block_state TYPE0 iff the block is
 * not finished (NEW_HDR / INPUT_DONE by bfinal otherwise).  Return code: only 0, ISAL_END_INPUT,
 * ISAL_OUT_OVERFLOW; 0 only when the block is finished; OUT_OVERFLOW only with avail_out'==0 and a
 * residue; END_INPUT only when no whole input byte is left.
 *
 * WF_type0: on entry of the TYPE0 state the accumulator holds whole bytes only, and an empty accumulator
 * is all zero (both are postconditions of read_header's stored branch and of this function).
 *
 * avail_in <= 2^32-9: the code computes `avail_in + bytes` in uint32_t; see the report
 * (possible defect for avail_in within 8 of 2^32). */
#define WF_type0(s)                                                                                \
        (WF_inflate(s) && (s)->read_in_length % 8 == 0 && (s)->type0_block_len >= 0 &&             \
         (s)->type0_block_len <= 65535 && ((s)->read_in_length != 0 || (s)->read_in == 0))
#define DLB_LEN __CPROVER_old(state->type0_block_len)
#define DLB_AO __CPROVER_old(state->avail_out)
#define DLB_AI __CPROVER_old(state->avail_in)
#define DLB_B ((uint32_t) (__CPROVER_old(state->read_in_length) / 8))
#define DLB_N MIN2(MIN2((uint32_t) DLB_LEN, DLB_AO), DLB_B + DLB_AI)
#if defined(INF_LIT)
#define C_decode_literal_block                                                                     \
        __CPROVER_requires(INF_FRESH_STATE(state) && state->avail_in <= 0xfffffff7u)               \
        __CPROVER_requires(INF_FRESH_IN(state) && INF_FRESH_OUT(state))                            \
        __CPROVER_requires(WF_type0(state))                                                        \
        __CPROVER_requires(state->avail_out == 0 || g_q < state->avail_out)                        \
        __CPROVER_assigns(w_q0, state->next_out, state->avail_out, state->total_out, state->next_in, \
                          state->avail_in, state->read_in, state->read_in_length,                  \
                          state->type0_block_len, state->block_state,                              \
                          __CPROVER_object_upto(state->next_out, state->avail_out))                \
        /* counters */                                                                             \
        __CPROVER_ensures(state->next_out == __CPROVER_old(state->next_out) + DLB_N &&             \
                          state->avail_out == DLB_AO - DLB_N &&                                    \
                          state->total_out == (uint32_t) (__CPROVER_old(state->total_out) + DLB_N) && \
                          state->type0_block_len == DLB_LEN - (int32_t) DLB_N)                     \
        /* input accounting: buffered bytes first */                                               \
        __CPROVER_ensures(DLB_N >= DLB_B ==>                                                       \
                          (state->read_in_length == 0 && state->read_in == 0 &&                    \
                           state->next_in == __CPROVER_old(state->next_in) + (DLB_N - DLB_B) &&    \
                           state->avail_in == DLB_AI - (DLB_N - DLB_B)))                           \
        __CPROVER_ensures(DLB_N < DLB_B ==>                                                        \
                          (state->read_in_length ==                                                \
                                   __CPROVER_old(state->read_in_length) - 8 * (int32_t) DLB_N &&   \
                           state->read_in == (__CPROVER_old(state->read_in) >> (8 * DLB_N)) &&     \
                           state->next_in == __CPROVER_old(state->next_in) &&                      \
                           state->avail_in == DLB_AI))                                             \
        /* data: output byte g_p (any position) is logical input byte g_p */                       \
        __CPROVER_ensures((g_p < DLB_N && g_p < DLB_B) ==>                                         \
                          __CPROVER_old(state->next_out)[g_p] ==                                   \
                                  (uint8_t) (__CPROVER_old(state->read_in) >> (8 * g_p)))          \
        __CPROVER_ensures((g_p < DLB_N && g_p >= DLB_B) ==>                                        \
                          __CPROVER_old(state->next_out)[g_p] ==                                   \
                                  __CPROVER_old(state->next_in)[g_p - DLB_B])                      \
        /* exactly N bytes are written: every output position >= N keeps its value */              \
        __CPROVER_ensures((g_q >= DLB_N && g_q < DLB_AO) ==>                                       \
                          __CPROVER_old(state->next_out)[g_q] == w_q0)                             \
        /* state machine */                                                                        \
        __CPROVER_ensures(state->block_state ==                                                    \
                          (DLB_N < (uint32_t) DLB_LEN                                              \
                                   ? ISAL_BLOCK_TYPE0                                              \
                                   : (state->bfinal ? ISAL_BLOCK_INPUT_DONE : ISAL_BLOCK_NEW_HDR))) \
        __CPROVER_ensures(__CPROVER_return_value == 0 ||                                           \
                          __CPROVER_return_value == ISAL_END_INPUT ||                              \
                          __CPROVER_return_value == ISAL_OUT_OVERFLOW)                             \
        __CPROVER_ensures(__CPROVER_return_value == 0 ==>                                          \
                          (state->type0_block_len == 0 && state->block_state != ISAL_BLOCK_TYPE0)) \
        __CPROVER_ensures(__CPROVER_return_value == ISAL_OUT_OVERFLOW ==>                          \
                          (state->avail_out == 0 && state->type0_block_len > 0))                   \
        __CPROVER_ensures(__CPROVER_return_value == ISAL_END_INPUT ==>                             \
                          (state->avail_in == 0 && state->read_in_length == 0 &&                   \
                           state->block_state != ISAL_BLOCK_INPUT_DONE))                           \
        /* a finished final block is never reported as "needs input" */                            \
        __CPROVER_ensures(state->block_state == ISAL_BLOCK_INPUT_DONE ==>                          \
                          __CPROVER_return_value == 0)                                             \
        __CPROVER_ensures(WF_type0(state))
#define E_decode_literal_block w_q0 = state->avail_out ? state->next_out[g_q] : 0;
#endif /* INF_LIT */

/* =============================================================================================
 * (f) trailer verification (C11, C07): check_gzip_checksum / check_zlib_checksum, finalize_adler32,
 *     update_checksum
 *
 * Logical trailer = the B = read_in_length/8 whole bytes left in read_in (above the read_in_length%8
 * padding bits of the last deflate byte; least significant first)
 *                   || tmp_in_buffer[0 .. tmp_in_size)  ||  next_in[0 .. avail_in).
 * Reachable-state precondition CK_PRE: bytes are parked in tmp_in_buffer only by an earlier, incomplete
 * call of the same checker, which also empties the whole bytes of read_in; so tmp_in_size > 0 implies
 * read_in_length < 8, and tmp_in_size < trailer length.  (With both non-empty the code would put the
 * tmp_in_buffer bytes first; that state is not produced by isal_inflate.)
 *
 *   fewer than LEN (8 gzip / 4 zlib) logical bytes:  ISAL_END_INPUT, block_state == ISAL_CHECKSUM_CHECK,
 *        every logical byte is preserved, in order, in tmp_in_buffer[0 .. tmp_in_size'), avail_in' == 0,
 *        no whole byte stays in read_in; crc / total_out untouched (frame).
 *   otherwise:  exactly the missing LEN - B - T bytes are taken from next_in, block_state ==
 *        ISAL_BLOCK_FINISH, and
 *        gzip (RFC 1952 2.3.1):  ret == ISAL_DECOMP_OK  <=>  trailer == CRC32 (4 bytes, least significant
 *                                first) || ISIZE = total_out mod 2^32 (4 bytes, least significant first)
 *        zlib (RFC 1950 2.2):    ret == ISAL_DECOMP_OK  <=>  trailer == ADLER32, most significant byte first
 *        else ret == ISAL_INCORRECT_CHECKSUM. */
#define CK_B(s) ((uint32_t) ((s)->read_in_length / 8))
#define CK_T(s) ((uint32_t) (s)->tmp_in_size)
#define CK_A(s) ((uint64_t) CK_B(s) + CK_T(s) + (s)->avail_in)
#define CK_BYTE(s, i)                                                                              \
        ((uint64_t) ((i) < CK_B(s)                                                                 \
                             ? (uint8_t) ((s)->read_in >> ((s)->read_in_length % 8 + 8 * (i)))     \
                             : ((i) < CK_B(s) + CK_T(s) ? (s)->tmp_in_buffer[(i) - CK_B(s)]        \
                                                        : (s)->next_in[(i) - CK_B(s) - CK_T(s)])))
#define CK_TRB(s, i) ((uint64_t) (i) < CK_A(s) ? CK_BYTE(s, i) << (8 * (i)) : 0ULL)
#define CK_TR4(s) (CK_TRB(s, 0) | CK_TRB(s, 1) | CK_TRB(s, 2) | CK_TRB(s, 3))
#define CK_TR8(s) (CK_TR4(s) | CK_TRB(s, 4) | CK_TRB(s, 5) | CK_TRB(s, 6) | CK_TRB(s, 7))
/* the first bytes of tmp_in_buffer as a little-endian word, zero beyond tmp_in_size */
#define CK_TMPB(s, i) ((i) < CK_T(s) ? ((uint64_t) (s)->tmp_in_buffer[i]) << (8 * (i)) : 0ULL)
#define CK_TMP8(s)                                                                                 \
        (CK_TMPB(s, 0) | CK_TMPB(s, 1) | CK_TMPB(s, 2) | CK_TMPB(s, 3) | CK_TMPB(s, 4) |           \
         CK_TMPB(s, 5) | CK_TMPB(s, 6) | CK_TMPB(s, 7))
#define CK_PRE(s, LEN)                                                                             \
        ((s)->read_in_length >= 0 && (s)->read_in_length <= 64 && (s)->tmp_in_size >= 0 &&         \
         (s)->tmp_in_size < (LEN) && ((s)->tmp_in_size == 0 || (s)->read_in_length < 8))
#define GT(k) ((uint8_t) (g_tr >> (8 * (k)))) /* logical trailer byte k */
extern uint64_t g_tr; /* ghost: logical trailer (first 8 / 4 bytes, little-endian word, 0 beyond the end) */
extern uint64_t g_ta; /* ghost: number of logical trailer bytes available */
extern uint32_t g_tb, g_tt; /* ghost: B and T at entry */

#if defined(INF_CKSUM)
#include "stubs_inflate.h"
/* Tractability note.  check_*_checksum write into state->tmp_in_buffer at offset tmp_in_size
 * (+ read_in_length/8).  CBMC 6.11 encodes a byte write at a *symbolic* offset into the 87 KB struct
 * inflate_state by rebuilding the whole struct per written byte and does not finish (hours, > 14 GB), and
 * dfcc's per-object bookkeeping makes even a path with literal offsets cost ~3 s / 0.4 GB.  Therefore
 *   (1) the postconditions below are written once, as macros over (RET, old next_in, old avail_in);
 *   (2) h_check_*_checksum_all (harness/igzip/inflate_cksum.c, no dfcc instrumentation) asserts them on
 *       every admissible pair (read_in_length, tmp_in_size) given as literal constants -- exhaustive over
 *       CK_PRE -- with everything else unconstrained, plus an explicit frame (every other scalar field and
 *       ghost-indexed elements of every array unchanged) and CBMC's pointer/bounds checks;
 *   (3) the dfcc contract C_check_*_checksum (same macros, plus the assigns clause) is enforced on a
 *       handful of literal pairs (h_check_*_checksum_c<k>) to have the frame checked by dfcc as well.
 * `state` is allocated by the harness in all of them (malloc(sizeof *state), contents unconstrained). */
#define CK_POST_RET(RET)                                                                           \
        ((RET) == ISAL_DECOMP_OK || (RET) == ISAL_END_INPUT || (RET) == ISAL_INCORRECT_CHECKSUM)
/* not enough bytes: nothing is lost, nothing is decided */
#define CK_POST_SHORT(LEN, RET, ONI, OAI)                                                          \
        (g_ta < (LEN) ==>                                                                          \
         ((RET) == ISAL_END_INPUT && state->block_state == ISAL_CHECKSUM_CHECK &&                  \
          state->tmp_in_size == (int16_t) g_ta && CK_TMP8(state) == g_tr && state->avail_in == 0 && \
          state->next_in == (ONI) + (OAI) && state->read_in_length >= 0 &&                         \
          state->read_in_length < 8 && CK_PRE(state, LEN)))
/* enough bytes: decided, exactly the trailer is consumed */
#define CK_POST_FULL(LEN, RET, ONI, OAI)                                                           \
        (g_ta >= (LEN) ==>                                                                         \
         ((RET) != ISAL_END_INPUT && state->block_state == ISAL_BLOCK_FINISH &&                    \
          state->tmp_in_size == 0 &&                                                               \
          state->avail_in == (OAI) - ((LEN) - MIN2(g_tb, (LEN)) - g_tt) &&                         \
          state->next_in == (ONI) + ((LEN) - MIN2(g_tb, (LEN)) - g_tt) &&                          \
          state->read_in_length >= 0 &&                                                            \
          (uint32_t) (state->read_in_length / 8) == g_tb - MIN2(g_tb, (LEN))))
/* RFC 1952 2.3.1: CRC32 then ISIZE, both least significant byte first */
#define CK_POST_GZ(RET)                                                                            \
        (g_ta >= 8 ==>                                                                             \
         (((RET) == ISAL_DECOMP_OK) ==                                                             \
          (GT(0) == (uint8_t) (state->crc) && GT(1) == (uint8_t) (state->crc >> 8) &&              \
           GT(2) == (uint8_t) (state->crc >> 16) && GT(3) == (uint8_t) (state->crc >> 24) &&       \
           GT(4) == (uint8_t) (state->total_out) && GT(5) == (uint8_t) (state->total_out >> 8) &&  \
           GT(6) == (uint8_t) (state->total_out >> 16) &&                                          \
           GT(7) == (uint8_t) (state->total_out >> 24))))
/* RFC 1950 2.2: ADLER32 most significant byte first */
#define CK_POST_ZL(RET)                                                                            \
        (g_ta >= 4 ==>                                                                             \
         (((RET) == ISAL_DECOMP_OK) ==                                                             \
          (GT(0) == (uint8_t) (state->crc >> 24) && GT(1) == (uint8_t) (state->crc >> 16) &&       \
           GT(2) == (uint8_t) (state->crc >> 8) && GT(3) == (uint8_t) (state->crc))))

#if !defined(INF_CK_PLAIN)
#define CK_COMMON(LEN, TRW)                                                                        \
        __CPROVER_requires(state->avail_in <= 0xfffffff7u && INF_FRESH_IN(state))                  \
        __CPROVER_requires(CK_PRE(state, LEN))                                                     \
        __CPROVER_requires(g_tr == TRW(state) && g_ta == CK_A(state) && g_tb == CK_B(state) &&     \
                           g_tt == CK_T(state))                                                    \
        __CPROVER_assigns(state->read_in, state->read_in_length, state->tmp_in_size,               \
                          __CPROVER_object_upto(state->tmp_in_buffer, ISAL_DEF_MAX_HDR_SIZE),      \
                          state->next_in, state->avail_in, state->block_state)                     \
        __CPROVER_ensures(CK_POST_RET(__CPROVER_return_value))                                     \
        __CPROVER_ensures(CK_POST_SHORT(LEN, __CPROVER_return_value,                               \
                                        __CPROVER_old(state->next_in),                             \
                                        __CPROVER_old(state->avail_in)))                           \
        __CPROVER_ensures(CK_POST_FULL(LEN, __CPROVER_return_value,                                \
                                       __CPROVER_old(state->next_in),                              \
                                       __CPROVER_old(state->avail_in)))

#define C_check_gzip_checksum CK_COMMON(8, CK_TR8) __CPROVER_ensures(CK_POST_GZ(__CPROVER_return_value))
#define C_check_zlib_checksum CK_COMMON(4, CK_TR4) __CPROVER_ensures(CK_POST_ZL(__CPROVER_return_value))
#endif

/* finalize_adler32: the running value is B<<16 | ((A-1) mod 65521) (igzip convention, so that CRC and
 * Adler share the initial value 0); the final value is B<<16 | A with A reduced. */
#define C_finalize_adler32                                                                         \
        __CPROVER_requires(INF_FRESH_STATE(state) && (state->crc & 0xffff) < ADLER_MOD)            \
        __CPROVER_assigns(state->crc)                                                              \
        __CPROVER_ensures((state->crc >> 16) == (__CPROVER_old(state->crc) >> 16) &&               \
                          (state->crc & 0xffff) < ADLER_MOD &&                                     \
                          ((state->crc & 0xffff) + ADLER_MOD - 1) % ADLER_MOD ==                   \
                                  (__CPROVER_old(state->crc) & 0xffff))

/* update_checksum: crc_flag selects the routine (include/igzip_lib.h: ISAL_GZIP* -> CRC-32,
 * ISAL_ZLIB* -> Adler-32, ISAL_DEFLATE -> none); exactly one call, on exactly (running value, start_in,
 * length); its result becomes the running value. */
#define UC_IS_GZ(f) ((f) == ISAL_GZIP || (f) == ISAL_GZIP_NO_HDR || (f) == ISAL_GZIP_NO_HDR_VER)
#define UC_IS_ZL(f) ((f) == ISAL_ZLIB || (f) == ISAL_ZLIB_NO_HDR || (f) == ISAL_ZLIB_NO_HDR_VER)
#define C_update_checksum                                                                          \
        __CPROVER_requires(INF_FRESH_STATE(state) && w_crc_calls == 0 && w_ad_calls == 0)          \
        __CPROVER_assigns(state->crc, w_crc_init, w_crc_len, w_crc_buf, w_crc_calls, w_ad_init,    \
                          w_ad_len, w_ad_buf, w_ad_calls)                                          \
        __CPROVER_ensures(UC_IS_GZ(state->crc_flag) ==>                                            \
                          (w_crc_calls == 1 && w_ad_calls == 0 &&                                  \
                           w_crc_init == __CPROVER_old(state->crc) && w_crc_buf == start_in &&     \
                           w_crc_len == length && state->crc == g_crc_ret))                        \
        __CPROVER_ensures(UC_IS_ZL(state->crc_flag) ==>                                            \
                          (w_ad_calls == 1 && w_crc_calls == 0 &&                                  \
                           w_ad_init == __CPROVER_old(state->crc) && w_ad_buf == start_in &&       \
                           w_ad_len == length && state->crc == g_ad_ret))                          \
        __CPROVER_ensures((!UC_IS_GZ(state->crc_flag) && !UC_IS_ZL(state->crc_flag)) ==>           \
                          (w_crc_calls == 0 && w_ad_calls == 0 &&                                  \
                           state->crc == __CPROVER_old(state->crc)))
#endif /* INF_CKSUM */

#endif
