/* Component contracts for the decompressor igzip/igzip_inflate.c
 * (properties C02 / C06 / C11 / C07 / C15 / C17; DESIGN.md section 7).
 *
 * Sources of the postconditions: RFC 1951 (bit order 3.1.1, block header 3.2.3, stored block 3.2.4,
 * canonical codes 3.2.2, dynamic header 3.2.7), RFC 1952 2.3.1 (CRC32 / ISIZE little endian),
 * RFC 1950 2.2 (ADLER32 most significant byte first), include/igzip_lib.h (return codes, field
 * meaning).  Nothing here is transcribed from the function bodies.
 *
 * Which group of contracts is active is selected by -DINF_<GROUP> in the registry entry (a function has
 * at most one contract per harness TU):
 *   INF_BITS   (a) inflate_in_load, inflate_in_read_bits_unsafe, inflate_in_read_bits      [proved]
 *   INF_HDR    (b) read_header (table builders = assumed frame-only stubs)                  [proved, 3 runs]
 *   INF_HDRS   (b) read_header_stateful (read_header = assumed interface stub, memcpy = recording stub)
 *   INF_LIT    (c) decode_literal_block                                                     [proved]
 *   INF_COPY   (d) byte_copy contract text; INF_COPY_PLAIN: bounded assertion harnesses
 *   INF_CODES  (e) bit_reverse2, set_codes (RFC steps as ghost code; table_length 19/30/32)   [proved]
 *   INF_CKSUM  (f) check_gzip_checksum, check_zlib_checksum (exhaustive literal pairs), finalize_adler32,
 *                  update_checksum                                                           [proved]
 *   INF_DYN    (g) setup_dynamic_header: early exits exact, code-length loop bounded
 *   INF_INIT   (h) isal_inflate_init, isal_inflate_reset, isal_inflate_set_dict (memcpy = recording stub)
 *   INF_TABLES (j) make_inflate_huff_code_dist/_header/_lit_len, set_and_expand_lit_len_huffcode: bounded
 *                  assertion harnesses over literal code-length vectors (harness/igzip/inflate_tables.c)
 *   INF_STATIC (k) setup_static_header (pre-generated tables selected)
 * Contracts other helpers can reuse with --replace-call-with-contract: C_inflate_in_load,
 * C_inflate_in_read_bits_unsafe, C_inflate_in_read_bits (all three carry ghost ties g_s0/g_bits0/g_n in
 * their requires, so a caller must set those ghosts before the call), C_decode_literal_block,
 * C_byte_copy (ghost ties g_d/g_n), C_bit_reverse2.
 *
 * ---------------------------------------------------------------------------------------------
 * The abstract input of the decoder ("logical bit stream") is
 *        read_in[0 .. read_in_length)  ||  bits of next_in[0], next_in[1], ... next_in[avail_in-1]
 * each byte contributing its bits least-significant first (RFC 1951 3.1.1).
 *
 * WF_inflate_bits(s):   -64 <= read_in_length <= 64, a negative length only with avail_in == 0
 *   (a negative length is the decoder's "ran out of input" marker: a reader consumed more bits than the
 *   logical stream had; it is only produced when avail_in == 0), and the bits of read_in above
 *   read_in_length are a subset of the bits of the not yet consumed input (the 64-bit fast path of
 *   inflate_in_load ORs eight input bytes in but advances next_in by fewer; these bits are ORed in
 *   again by the next load, which is harmless exactly because of this invariant).
 */
#ifndef IGZIP_INFLATE_PARTS_H
#define IGZIP_INFLATE_PARTS_H
#include "verif_common.h"
#include <string.h>
#include "igzip_lib.h"
#include "huff_codes.h"

/* ---- ghost variables (defined in the harness TUs) ---- */
extern uint32_t g_p;  /* ghost byte position */
extern uint32_t g_b;  /* ghost bit position */
extern uint32_t g_n;  /* ghost copy of a scalar argument */
extern uint64_t g_d;  /* ghost copy of a scalar argument */
extern uint64_t g_s0; /* ghost: first 64 bits of the logical input stream at entry (tied by == in requires;
                         __CPROVER_old() does not accept compound expressions) */
extern int64_t g_bits0; /* ghost: number of bits in the logical stream at entry */
extern uint32_t g_q;  /* second ghost byte position (frame statements) */
extern uint32_t g_i, g_j; /* ghost table indices */
extern uint8_t w_q0;  /* ghost: value at position g_q at entry (snapshot taken by an E_ hook) */

/* ---- little helpers (pure expressions) ---- */
#define LOWBITS(x, n) ((n) >= 64 ? (uint64_t) (x) : ((n) <= 0 ? 0ULL : ((uint64_t) (x) & ((1ULL << (n)) - 1))))
#define SHL64(x, n) (((n) >= 64 || (n) < 0) ? 0ULL : ((uint64_t) (x) << (n)))
#define SHR64(x, n) (((n) >= 64 || (n) < 0) ? 0ULL : ((uint64_t) (x) >> (n)))
#define MIN2(a, b) ((a) < (b) ? (a) : (b))
/* next (up to) eight unconsumed input bytes as a little-endian word, zero beyond avail_in */
#define PEEKB(s, k) ((s)->avail_in > (k) ? ((uint64_t) (s)->next_in[k]) << (8 * (k)) : 0ULL)
#define PEEK64(s)                                                                                  \
        (PEEKB(s, 0) | PEEKB(s, 1) | PEEKB(s, 2) | PEEKB(s, 3) | PEEKB(s, 4) | PEEKB(s, 5) |       \
         PEEKB(s, 6) | PEEKB(s, 7))
/* first 64 bits of the logical stream (zero beyond its end) */
#define STREAM64(s) (LOWBITS((s)->read_in, (s)->read_in_length) | SHL64(PEEK64(s), (s)->read_in_length))
/* number of bits in the logical stream, saturated so that it fits */
#define STREAM_BITS(s) ((int64_t) (s)->read_in_length + 8 * (int64_t) (s)->avail_in)

#define WF_inflate_len(s) ((s)->read_in_length >= -64 && (s)->read_in_length <= 64 &&              \
                           ((s)->read_in_length >= 0 || (s)->avail_in == 0))
#define WF_inflate_garbage(s)                                                                      \
        (!((s)->read_in_length >= 0 && (s)->read_in_length < 64) ||                                \
         ((((s)->read_in >> (s)->read_in_length) & ~PEEK64(s)) == 0))
#define WF_inflate_bits(s) (WF_inflate_len(s) && WF_inflate_garbage(s))
/* at function boundaries of the block decoders the length is never negative */
#define WF_inflate(s) (WF_inflate_bits(s) && (s)->read_in_length >= 0 &&                           \
                       (s)->tmp_in_size >= 0 && (s)->tmp_in_size <= ISAL_DEF_MAX_HDR_SIZE)

/* The caller-owned objects of an inflate_state: the struct itself, exactly avail_in bytes of input and
 * exactly avail_out bytes of output (one byte more or less touched is a failed pointer check). */
#define INF_FRESH_STATE(s) __CPROVER_is_fresh(s, sizeof(*(s)))
#define INF_FRESH_IN(s) __CPROVER_is_fresh((s)->next_in, (s)->avail_in)
#define INF_FRESH_OUT(s) __CPROVER_is_fresh((s)->next_out, (s)->avail_out)

/* =============================================================================================
 * (a) bit reader
 * ============================================================================================= */
#if defined(INF_BITS)
/* inflate_in_load: refills the accumulator without changing the logical stream.
 *   - nothing happens when the accumulator is full or the length is negative (then avail_in==0)
 *   - otherwise k = (L'-L)/8 whole bytes move from next_in into read_in at bit positions L+8j (LSB first),
 *     next_in/avail_in advance by exactly k, k <= avail_in (never reads past avail_in: is_fresh exact),
 *     and the refill is maximal in the sense the readers rely on: L' >= 57 or no input is left. */
#define C_inflate_in_load                                                                          \
        __CPROVER_requires(INF_FRESH_STATE(state) && INF_FRESH_IN(state))                          \
        __CPROVER_requires(WF_inflate_bits(state) && g_s0 == STREAM64(state))                      \
        __CPROVER_assigns(state->read_in, state->read_in_length, state->next_in, state->avail_in)  \
        __CPROVER_ensures(WF_inflate_bits(state))                                                  \
        __CPROVER_ensures((__CPROVER_old(state->read_in_length) >= 64 ||                           \
                           __CPROVER_old(state->read_in_length) < 0) ==>                           \
                          (state->read_in == __CPROVER_old(state->read_in) &&                      \
                           state->read_in_length == __CPROVER_old(state->read_in_length) &&        \
                           state->next_in == __CPROVER_old(state->next_in) &&                      \
                           state->avail_in == __CPROVER_old(state->avail_in)))                     \
        __CPROVER_ensures(state->read_in_length >= __CPROVER_old(state->read_in_length) &&         \
                          state->read_in_length <= 64 &&                                           \
                          (state->read_in_length - __CPROVER_old(state->read_in_length)) % 8 == 0) \
        __CPROVER_ensures(state->avail_in <= __CPROVER_old(state->avail_in) &&                     \
                          8 * (int64_t) (__CPROVER_old(state->avail_in) - state->avail_in) ==      \
                                  (int64_t) state->read_in_length -                                \
                                          __CPROVER_old(state->read_in_length) &&                  \
                          state->next_in == __CPROVER_old(state->next_in) +                        \
                                                    (__CPROVER_old(state->avail_in) - state->avail_in)) \
        /* the logical stream is unchanged: its first L' bits are now all in read_in */            \
        __CPROVER_ensures(state->read_in_length >= 0 ==>                                           \
                          LOWBITS(state->read_in, state->read_in_length) ==                        \
                                  LOWBITS(g_s0, state->read_in_length))  \
        /* maximal refill */                                                                       \
        __CPROVER_ensures(state->read_in_length >= 57 || state->avail_in == 0)
/* The byte-wise refill loop runs at most 8 times (57 is a constant of the code, WF gives L >= 0): it is
 * unwound 9 times with an unwinding assertion, which is complete.  (A loop contract was tried: the
 * invariant needs PEEK64 at a symbolic offset of a symbolic-size object and exhausts memory.) */
#define H_inflate_in_load_1 VCANARY();

/* inflate_in_read_bits_unsafe: takes bit_count bits off the accumulator, LSB first; the length may go
 * negative (the caller's out-of-input signal).  bit_count <= 30: the mask is computed in int. */
#define C_inflate_in_read_bits_unsafe                                                              \
        __CPROVER_requires(INF_FRESH_STATE(state))                                                 \
        __CPROVER_requires(bit_count <= 30 && state->read_in_length >= -1000 &&                    \
                           state->read_in_length <= 64 && g_n == bit_count)                        \
        __CPROVER_assigns(state->read_in, state->read_in_length)                                   \
        __CPROVER_ensures(__CPROVER_return_value == LOWBITS(__CPROVER_old(state->read_in), g_n))   \
        __CPROVER_ensures(state->read_in == SHR64(__CPROVER_old(state->read_in), g_n))             \
        __CPROVER_ensures(state->read_in_length == __CPROVER_old(state->read_in_length) - (int) g_n)

/* inflate_in_read_bits = load + take.  n <= 30.
 *   enough bits in the logical stream (L + 8*avail_in >= n):  returns its first n bits, the logical
 *        stream afterwards is the old one without those n bits, L' >= 0;
 *   not enough: L' < 0 and avail_in' == 0 (signal), never reads past avail_in. */
#define C_inflate_in_read_bits                                                                     \
        __CPROVER_requires(INF_FRESH_STATE(state) && INF_FRESH_IN(state))                          \
        __CPROVER_requires(WF_inflate_bits(state) && bit_count <= 30 && g_n == bit_count)          \
        __CPROVER_requires(g_s0 == STREAM64(state) && g_bits0 == STREAM_BITS(state))               \
        __CPROVER_assigns(state->read_in, state->read_in_length, state->next_in, state->avail_in)  \
        __CPROVER_ensures(state->read_in_length <= 64 &&                                           \
                          (state->read_in_length >= 0 || state->avail_in == 0))                    \
        __CPROVER_ensures(state->avail_in <= __CPROVER_old(state->avail_in) &&                     \
                          state->next_in == __CPROVER_old(state->next_in) +                        \
                                                    (__CPROVER_old(state->avail_in) - state->avail_in)) \
        /* bit accounting: consumed bytes*8 + old length - n == new length */                      \
        __CPROVER_ensures((int64_t) state->read_in_length ==                                       \
                          (int64_t) __CPROVER_old(state->read_in_length) - (int64_t) g_n +         \
                                  8 * (int64_t) (__CPROVER_old(state->avail_in) - state->avail_in)) \
        __CPROVER_ensures((g_bits0 >= (int64_t) g_n) ==>                 \
                          (state->read_in_length >= 0 &&                                           \
                           __CPROVER_return_value == LOWBITS(g_s0, g_n) && \
                           LOWBITS(state->read_in, state->read_in_length) ==                       \
                                   LOWBITS(SHR64(g_s0, g_n),             \
                                           state->read_in_length) &&                               \
                           WF_inflate_garbage(state)))                                             \
        __CPROVER_ensures((g_bits0 < (int64_t) g_n) ==>                  \
                          (state->read_in_length < 0 && state->avail_in == 0))
#endif /* INF_BITS */

/* =============================================================================================
 * (c) decode_literal_block  -- stored block body (RFC 1951 3.2.4), progress contract (C02/C06/C07)
 *
 * Logical input bytes of the block: the B = read_in_length/8 whole bytes buffered in read_in (least
 * significant first) followed by next_in[0..avail_in).  One call copies exactly
 *        N = min(type0_block_len, avail_out, B + avail_in)
 * bytes of it to next_out, advances next_out/avail_out/total_out by N, keeps the residue
 * type0_block_len - N, takes the input from read_in first, and leaves block_state TYPE0 iff the block is
 * not finished (NEW_HDR / INPUT_DONE by bfinal otherwise).  Return code: only 0, ISAL_END_INPUT,
 * ISAL_OUT_OVERFLOW; 0 only when the block is finished; OUT_OVERFLOW only with avail_out'==0 and a
 * residue; END_INPUT only when no whole input byte is left.
 *
 * WF_type0: on entry of the TYPE0 state the accumulator holds whole bytes only, and an empty accumulator
 * is all zero (both are postconditions of read_header's stored branch and of this function).
 *
 * Every avail_in up to 2^32-1 is covered: on the pinned tree the code computed `avail_in + bytes` in uint32_t
 * (genuine defect for avail_in within 8 of 2^32, repaired by /repo commit fdffa6b). */
#define WF_type0(s)                                                                                \
        (WF_inflate(s) && (s)->read_in_length % 8 == 0 && (s)->type0_block_len >= 0 &&             \
         (s)->type0_block_len <= 65535 && ((s)->read_in_length != 0 || (s)->read_in == 0))
#define DLB_LEN __CPROVER_old(state->type0_block_len)
#define DLB_AO __CPROVER_old(state->avail_out)
#define DLB_AI __CPROVER_old(state->avail_in)
#define DLB_B ((uint32_t) (__CPROVER_old(state->read_in_length) / 8))
/* 64-bit sum: on the pinned tree the code added these in uint32_t (finding, repaired by /repo fdffa6b) */
#define DLB_SUM ((uint64_t) DLB_B + (uint64_t) DLB_AI)
#define DLB_N ((uint32_t) MIN2((uint64_t) MIN2((uint32_t) DLB_LEN, DLB_AO), DLB_SUM))
#if defined(INF_LIT)
#define C_decode_literal_block                                                                     \
        __CPROVER_requires(INF_FRESH_STATE(state))                                                 \
        __CPROVER_requires(INF_FRESH_IN(state) && INF_FRESH_OUT(state))                            \
        __CPROVER_requires(WF_type0(state))                                                        \
        __CPROVER_requires(state->avail_out == 0 || g_q < state->avail_out)                        \
        __CPROVER_assigns(w_q0, state->next_out, state->avail_out, state->total_out, state->next_in, \
                          state->avail_in, state->read_in, state->read_in_length,                  \
                          state->type0_block_len, state->block_state,                              \
                          __CPROVER_object_upto(state->next_out, state->avail_out))                \
        /* counters */                                                                             \
        __CPROVER_ensures(state->next_out == __CPROVER_old(state->next_out) + DLB_N &&             \
                          state->avail_out == DLB_AO - DLB_N &&                                    \
                          state->total_out == (uint32_t) (__CPROVER_old(state->total_out) + DLB_N) && \
                          state->type0_block_len == DLB_LEN - (int32_t) DLB_N)                     \
        /* input accounting: buffered bytes first */                                               \
        __CPROVER_ensures(DLB_N >= DLB_B ==>                                                       \
                          (state->read_in_length == 0 && state->read_in == 0 &&                    \
                           state->next_in == __CPROVER_old(state->next_in) + (DLB_N - DLB_B) &&    \
                           state->avail_in == DLB_AI - (DLB_N - DLB_B)))                           \
        __CPROVER_ensures(DLB_N < DLB_B ==>                                                        \
                          (state->read_in_length ==                                                \
                                   __CPROVER_old(state->read_in_length) - 8 * (int32_t) DLB_N &&   \
                           state->read_in == (__CPROVER_old(state->read_in) >> (8 * DLB_N)) &&     \
                           state->next_in == __CPROVER_old(state->next_in) &&                      \
                           state->avail_in == DLB_AI))                                             \
        /* data: output byte g_p (any position) is logical input byte g_p */                       \
        __CPROVER_ensures((g_p < DLB_N && g_p < DLB_B) ==>                                         \
                          __CPROVER_old(state->next_out)[g_p] ==                                   \
                                  (uint8_t) (__CPROVER_old(state->read_in) >> (8 * g_p)))          \
        __CPROVER_ensures((g_p < DLB_N && g_p >= DLB_B) ==>                                        \
                          __CPROVER_old(state->next_out)[g_p] ==                                   \
                                  __CPROVER_old(state->next_in)[g_p - DLB_B])                      \
        /* exactly N bytes are written: every output position >= N keeps its value */              \
        __CPROVER_ensures((g_q >= DLB_N && g_q < DLB_AO) ==>                                       \
                          __CPROVER_old(state->next_out)[g_q] == w_q0)                             \
        /* state machine */                                                                        \
        __CPROVER_ensures(state->block_state ==                                                    \
                          (DLB_N < (uint32_t) DLB_LEN                                              \
                                   ? ISAL_BLOCK_TYPE0                                              \
                                   : (state->bfinal ? ISAL_BLOCK_INPUT_DONE : ISAL_BLOCK_NEW_HDR))) \
        __CPROVER_ensures(__CPROVER_return_value == 0 ||                                           \
                          __CPROVER_return_value == ISAL_END_INPUT ||                              \
                          __CPROVER_return_value == ISAL_OUT_OVERFLOW)                             \
        __CPROVER_ensures(__CPROVER_return_value == 0 ==>                                          \
                          (state->type0_block_len == 0 && state->block_state != ISAL_BLOCK_TYPE0)) \
        __CPROVER_ensures(__CPROVER_return_value == ISAL_OUT_OVERFLOW ==>                          \
                          (state->avail_out == 0 && state->type0_block_len > 0))                   \
        __CPROVER_ensures(__CPROVER_return_value == ISAL_END_INPUT ==>                             \
                          (state->avail_in == 0 && state->read_in_length == 0 &&                   \
                           state->block_state != ISAL_BLOCK_INPUT_DONE))                           \
        /* a finished final block is never reported as "needs input" */                            \
        __CPROVER_ensures(state->block_state == ISAL_BLOCK_INPUT_DONE ==>                          \
                          __CPROVER_return_value == 0)                                             \
        __CPROVER_ensures(WF_type0(state))
#define E_decode_literal_block w_q0 = state->avail_out ? state->next_out[g_q] : 0;
#endif /* INF_LIT */

/* =============================================================================================
 * (f) trailer verification (C11, C07): check_gzip_checksum / check_zlib_checksum, finalize_adler32,
 *     update_checksum
 *
 * Logical trailer = the B = read_in_length/8 whole bytes left in read_in (above the read_in_length%8
 * padding bits of the last deflate byte; least significant first)
 *                   || tmp_in_buffer[0 .. tmp_in_size)  ||  next_in[0 .. avail_in).
 * Reachable-state precondition CK_PRE: bytes are parked in tmp_in_buffer only by an earlier, incomplete
 * call of the same checker, which also empties the whole bytes of read_in; so tmp_in_size > 0 implies
 * read_in_length < 8, and tmp_in_size < trailer length.  (With both non-empty the code would put the
 * tmp_in_buffer bytes first; that state is not produced by isal_inflate.)
 *
 *   fewer than LEN (8 gzip / 4 zlib) logical bytes:  ISAL_END_INPUT, block_state == ISAL_CHECKSUM_CHECK,
 *        every logical byte is preserved, in order, in tmp_in_buffer[0 .. tmp_in_size'), avail_in' == 0,
 *        no whole byte stays in read_in; crc / total_out untouched (frame).
 *   otherwise:  exactly the missing LEN - B - T bytes are taken from next_in, block_state ==
 *        ISAL_BLOCK_FINISH, and
 *        gzip (RFC 1952 2.3.1):  ret == ISAL_DECOMP_OK  <=>  trailer == CRC32 (4 bytes, least significant
 *                                first) || ISIZE = total_out mod 2^32 (4 bytes, least significant first)
 *        zlib (RFC 1950 2.2):    ret == ISAL_DECOMP_OK  <=>  trailer == ADLER32, most significant byte first
 *        else ret == ISAL_INCORRECT_CHECKSUM. */
#define CK_B(s) ((uint32_t) ((s)->read_in_length / 8))
#define CK_T(s) ((uint32_t) (s)->tmp_in_size)
#define CK_A(s) ((uint64_t) CK_B(s) + CK_T(s) + (s)->avail_in)
#define CK_BYTE(s, i)                                                                              \
        ((uint64_t) ((i) < CK_B(s)                                                                 \
                             ? (uint8_t) ((s)->read_in >> ((s)->read_in_length % 8 + 8 * (i)))     \
                             : ((i) < CK_B(s) + CK_T(s) ? (s)->tmp_in_buffer[(i) - CK_B(s)]        \
                                                        : (s)->next_in[(i) - CK_B(s) - CK_T(s)])))
#define CK_TRB(s, i) ((uint64_t) (i) < CK_A(s) ? CK_BYTE(s, i) << (8 * (i)) : 0ULL)
#define CK_TR4(s) (CK_TRB(s, 0) | CK_TRB(s, 1) | CK_TRB(s, 2) | CK_TRB(s, 3))
#define CK_TR8(s) (CK_TR4(s) | CK_TRB(s, 4) | CK_TRB(s, 5) | CK_TRB(s, 6) | CK_TRB(s, 7))
/* the first bytes of tmp_in_buffer as a little-endian word, zero beyond tmp_in_size */
#define CK_TMPB(s, i) ((i) < CK_T(s) ? ((uint64_t) (s)->tmp_in_buffer[i]) << (8 * (i)) : 0ULL)
#define CK_TMP8(s)                                                                                 \
        (CK_TMPB(s, 0) | CK_TMPB(s, 1) | CK_TMPB(s, 2) | CK_TMPB(s, 3) | CK_TMPB(s, 4) |           \
         CK_TMPB(s, 5) | CK_TMPB(s, 6) | CK_TMPB(s, 7))
#define CK_PRE(s, LEN)                                                                             \
        ((s)->read_in_length >= 0 && (s)->read_in_length <= 64 && (s)->tmp_in_size >= 0 &&         \
         (s)->tmp_in_size < (LEN) && ((s)->tmp_in_size == 0 || (s)->read_in_length < 8))
#define GT(k) ((uint8_t) (g_tr >> (8 * (k)))) /* logical trailer byte k */
extern uint64_t g_tr; /* ghost: logical trailer (first 8 / 4 bytes, little-endian word, 0 beyond the end) */
extern uint64_t g_ta; /* ghost: number of logical trailer bytes available */
extern uint32_t g_tb, g_tt; /* ghost: B and T at entry */

#if defined(INF_CKSUM)
#include "stubs_inflate.h"
/* Tractability note.  check_*_checksum write into state->tmp_in_buffer at offset tmp_in_size
 * (+ read_in_length/8).  CBMC 6.11 encodes a byte write at a *symbolic* offset into the 87 KB struct
 * inflate_state by rebuilding the whole struct per written byte and does not finish (hours, > 14 GB), and
 * dfcc's per-object bookkeeping makes even a path with literal offsets cost ~3 s / 0.4 GB.  Therefore
 *   (1) the postconditions below are written once, as macros over (RET, old next_in, old avail_in);
 *   (2) h_check_*_checksum_all (harness/igzip/inflate_cksum.c, no dfcc instrumentation) asserts them on
 *       every admissible pair (read_in_length, tmp_in_size) given as literal constants -- exhaustive over
 *       CK_PRE -- with everything else unconstrained, plus an explicit frame (every other scalar field and
 *       ghost-indexed elements of every array unchanged) and CBMC's pointer/bounds checks;
 *   (3) the dfcc contract C_check_*_checksum (same macros, plus the assigns clause) is enforced on a
 *       handful of literal pairs (h_check_*_checksum_c<k>) to have the frame checked by dfcc as well.
 * `state` is allocated by the harness in all of them (malloc(sizeof *state), contents unconstrained). */
#define CK_POST_RET(RET)                                                                           \
        ((RET) == ISAL_DECOMP_OK || (RET) == ISAL_END_INPUT || (RET) == ISAL_INCORRECT_CHECKSUM)
/* not enough bytes: nothing is lost, nothing is decided */
#define CK_POST_SHORT(LEN, RET, ONI, OAI)                                                          \
        (g_ta < (LEN) ==>                                                                          \
         ((RET) == ISAL_END_INPUT && state->block_state == ISAL_CHECKSUM_CHECK &&                  \
          state->tmp_in_size == (int16_t) g_ta && CK_TMP8(state) == g_tr && state->avail_in == 0 && \
          state->next_in == (ONI) + (OAI) && state->read_in_length >= 0 &&                         \
          state->read_in_length < 8 && CK_PRE(state, LEN)))
/* enough bytes: decided, exactly the trailer is consumed */
#define CK_POST_FULL(LEN, RET, ONI, OAI)                                                           \
        (g_ta >= (LEN) ==>                                                                         \
         ((RET) != ISAL_END_INPUT && state->block_state == ISAL_BLOCK_FINISH &&                    \
          state->tmp_in_size == 0 &&                                                               \
          state->avail_in == (OAI) - ((LEN) - MIN2(g_tb, (LEN)) - g_tt) &&                         \
          state->next_in == (ONI) + ((LEN) - MIN2(g_tb, (LEN)) - g_tt) &&                          \
          state->read_in_length >= 0 &&                                                            \
          (uint32_t) (state->read_in_length / 8) == g_tb - MIN2(g_tb, (LEN))))
/* RFC 1952 2.3.1: CRC32 then ISIZE, both least significant byte first */
#define CK_POST_GZ(RET)                                                                            \
        (g_ta >= 8 ==>                                                                             \
         (((RET) == ISAL_DECOMP_OK) ==                                                             \
          (GT(0) == (uint8_t) (state->crc) && GT(1) == (uint8_t) (state->crc >> 8) &&              \
           GT(2) == (uint8_t) (state->crc >> 16) && GT(3) == (uint8_t) (state->crc >> 24) &&       \
           GT(4) == (uint8_t) (state->total_out) && GT(5) == (uint8_t) (state->total_out >> 8) &&  \
           GT(6) == (uint8_t) (state->total_out >> 16) &&                                          \
           GT(7) == (uint8_t) (state->total_out >> 24))))
/* RFC 1950 2.2: ADLER32 most significant byte first */
#define CK_POST_ZL(RET)                                                                            \
        (g_ta >= 4 ==>                                                                             \
         (((RET) == ISAL_DECOMP_OK) ==                                                             \
          (GT(0) == (uint8_t) (state->crc >> 24) && GT(1) == (uint8_t) (state->crc >> 16) &&       \
           GT(2) == (uint8_t) (state->crc >> 8) && GT(3) == (uint8_t) (state->crc))))

#if !defined(INF_CK_PLAIN)
#define CK_COMMON(LEN, TRW)                                                                        \
        __CPROVER_requires(INF_FRESH_IN(state))                                                    \
        __CPROVER_requires(CK_PRE(state, LEN))                                                     \
        __CPROVER_requires(g_tr == TRW(state) && g_ta == CK_A(state) && g_tb == CK_B(state) &&     \
                           g_tt == CK_T(state))                                                    \
        __CPROVER_assigns(state->read_in, state->read_in_length, state->tmp_in_size,               \
                          __CPROVER_object_upto(state->tmp_in_buffer, ISAL_DEF_MAX_HDR_SIZE),      \
                          state->next_in, state->avail_in, state->block_state)                     \
        __CPROVER_ensures(CK_POST_RET(__CPROVER_return_value))                                     \
        __CPROVER_ensures(CK_POST_SHORT(LEN, __CPROVER_return_value,                               \
                                        __CPROVER_old(state->next_in),                             \
                                        __CPROVER_old(state->avail_in)))                           \
        __CPROVER_ensures(CK_POST_FULL(LEN, __CPROVER_return_value,                                \
                                       __CPROVER_old(state->next_in),                              \
                                       __CPROVER_old(state->avail_in)))

#define C_check_gzip_checksum CK_COMMON(8, CK_TR8) __CPROVER_ensures(CK_POST_GZ(__CPROVER_return_value))
#define C_check_zlib_checksum CK_COMMON(4, CK_TR4) __CPROVER_ensures(CK_POST_ZL(__CPROVER_return_value))
#endif

/* finalize_adler32: the running value is B<<16 | ((A-1) mod 65521) (igzip convention, so that CRC and
 * Adler share the initial value 0); the final value is B<<16 | A with A reduced. */
#define C_finalize_adler32                                                                         \
        __CPROVER_requires(INF_FRESH_STATE(state) && (state->crc & 0xffff) < ADLER_MOD)            \
        __CPROVER_assigns(state->crc)                                                              \
        __CPROVER_ensures((state->crc >> 16) == (__CPROVER_old(state->crc) >> 16) &&               \
                          (state->crc & 0xffff) < ADLER_MOD &&                                     \
                          ((state->crc & 0xffff) + ADLER_MOD - 1) % ADLER_MOD ==                   \
                                  (__CPROVER_old(state->crc) & 0xffff))

/* update_checksum: crc_flag selects the routine (include/igzip_lib.h: ISAL_GZIP* -> CRC-32,
 * ISAL_ZLIB* -> Adler-32, ISAL_DEFLATE -> none); exactly one call, on exactly (running value, start_in,
 * length); its result becomes the running value. */
#define UC_IS_GZ(f) ((f) == ISAL_GZIP || (f) == ISAL_GZIP_NO_HDR || (f) == ISAL_GZIP_NO_HDR_VER)
#define UC_IS_ZL(f) ((f) == ISAL_ZLIB || (f) == ISAL_ZLIB_NO_HDR || (f) == ISAL_ZLIB_NO_HDR_VER)
#define C_update_checksum                                                                          \
        __CPROVER_requires(INF_FRESH_STATE(state) && w_crc_calls == 0 && w_ad_calls == 0)          \
        __CPROVER_assigns(state->crc, w_crc_init, w_crc_len, w_crc_buf, w_crc_calls, w_ad_init,    \
                          w_ad_len, w_ad_buf, w_ad_calls)                                          \
        __CPROVER_ensures(UC_IS_GZ(state->crc_flag) ==>                                            \
                          (w_crc_calls == 1 && w_ad_calls == 0 &&                                  \
                           w_crc_init == __CPROVER_old(state->crc) && w_crc_buf == start_in &&     \
                           w_crc_len == length && state->crc == g_crc_ret))                        \
        __CPROVER_ensures(UC_IS_ZL(state->crc_flag) ==>                                            \
                          (w_ad_calls == 1 && w_crc_calls == 0 &&                                  \
                           w_ad_init == __CPROVER_old(state->crc) && w_ad_buf == start_in &&       \
                           w_ad_len == length && state->crc == g_ad_ret))                          \
        __CPROVER_ensures((!UC_IS_GZ(state->crc_flag) && !UC_IS_ZL(state->crc_flag)) ==>           \
                          (w_crc_calls == 0 && w_ad_calls == 0 &&                                  \
                           state->crc == __CPROVER_old(state->crc)))
#endif /* INF_CKSUM */

/* =============================================================================================
 * (b) read_header -- block header (RFC 1951 3.2.3) and stored-block header (3.2.4); C02/C06
 *
 * With S = the logical input stream (bit 0 first) and NB its length in bits:
 *   NB < 3                      ->  ISAL_END_INPUT (all input has been taken into the accumulator)
 *   BFINAL = S[0] is recorded in state->bfinal;  BTYPE = S[1..2]
 *   BTYPE == 3                  ->  ISAL_INVALID_BLOCK
 *   BTYPE == 1 / 2              ->  the fixed / dynamic table builder is called exactly once, the logical
 *                                   stream at that call is S without its first 3 bits; its result is returned
 *   BTYPE == 0: pad = (NB-3) % 8 bits are skipped (to the next byte boundary of the input),
 *        fewer than 32 bits after that  ->  ISAL_END_INPUT
 *        LEN = next 16 bits, NLEN = the 16 after;  LEN != ~NLEN  ->  ISAL_INVALID_BLOCK
 *        else 0, type0_block_len == LEN, block_state == ISAL_BLOCK_TYPE0, and the logical stream is S
 *        without its first 35+pad bits (whole bytes only remain in the accumulator: WF_type0).
 * "Logical stream after == logical stream before shifted by k bits" is ADV(k): the number of bits drops by
 * k and the first 64 bits of the new stream are bits k..k+63 of the old one (g_s1:g_s0 = its first 128). */
#define PEEK64_2(s)                                                                                \
        (((s)->avail_in > 8 ? (uint64_t) (s)->next_in[8] : 0ULL) |                                 \
         ((s)->avail_in > 9 ? ((uint64_t) (s)->next_in[9]) << 8 : 0ULL) |                          \
         ((s)->avail_in > 10 ? ((uint64_t) (s)->next_in[10]) << 16 : 0ULL) |                       \
         ((s)->avail_in > 11 ? ((uint64_t) (s)->next_in[11]) << 24 : 0ULL) |                       \
         ((s)->avail_in > 12 ? ((uint64_t) (s)->next_in[12]) << 32 : 0ULL) |                       \
         ((s)->avail_in > 13 ? ((uint64_t) (s)->next_in[13]) << 40 : 0ULL) |                       \
         ((s)->avail_in > 14 ? ((uint64_t) (s)->next_in[14]) << 48 : 0ULL) |                       \
         ((s)->avail_in > 15 ? ((uint64_t) (s)->next_in[15]) << 56 : 0ULL))
/* bits 64..127 of the logical stream */
#define STREAM64_HI(s)                                                                             \
        ((s)->read_in_length <= 0                                                                  \
                 ? PEEK64_2(s)                                                                     \
                 : ((s)->read_in_length >= 64                                                      \
                            ? PEEK64(s)                                                            \
                            : ((PEEK64(s) >> (64 - (s)->read_in_length)) |                         \
                               (PEEK64_2(s) << (s)->read_in_length))))
extern uint64_t g_s1; /* ghost: bits 64..127 of the logical input stream at entry */
/* bits k..k+63 of the entry stream (zero beyond bit 127), 0 <= k < 128 */
#define S_FROM(k)                                                                                  \
        ((k) == 0 ? g_s0                                                                           \
                  : ((k) < 64 ? ((g_s0 >> ((k) & 63)) | (g_s1 << ((64 - (k)) & 63)))               \
                              : (g_s1 >> (((k) - 64) & 63))))
#define ADV(s, k) (STREAM_BITS(s) == g_bits0 - (int64_t) (k) && STREAM64(s) == S_FROM(k))
#define RH_BTYPE ((uint32_t) ((g_s0 >> 1) & 3))
#define RH_PAD ((uint32_t) ((g_bits0 - 3) % 8))
#define RH_LEN ((uint32_t) ((g_s0 >> (3 + RH_PAD)) & 0xffff))
#define RH_NLEN ((uint32_t) ((g_s0 >> (19 + RH_PAD)) & 0xffff))
#if defined(INF_HDR)
#include "stubs_inflate.h"
#define C_read_header                                                                              \
        __CPROVER_requires(INF_FRESH_STATE(state) && INF_FRESH_IN(state))                                                    \
        __CPROVER_requires(WF_inflate(state) && w_st_calls == 0 && w_dy_calls == 0)                \
        __CPROVER_requires(g_s0 == STREAM64(state) && g_s1 == STREAM64_HI(state) &&                \
                           g_bits0 == STREAM_BITS(state))                                          \
        __CPROVER_assigns(state->read_in, state->read_in_length, state->next_in, state->avail_in,  \
                          state->bfinal, state->type0_block_len, state->block_state,               \
                          state->lit_huff_code, state->dist_huff_code, w_st_calls, w_dy_calls,     \
                          w_dy_read_in, w_dy_len, w_dy_avail, w_dy_next_in)                        \
        __CPROVER_ensures(__CPROVER_return_value == 0 || __CPROVER_return_value == ISAL_END_INPUT || \
                          __CPROVER_return_value == ISAL_INVALID_BLOCK)                            \
        /* input position stays inside the caller's buffer and only moves forward */               \
        __CPROVER_ensures(state->avail_in <= __CPROVER_old(state->avail_in) &&                     \
                          state->next_in == __CPROVER_old(state->next_in) +                        \
                                                    (__CPROVER_old(state->avail_in) - state->avail_in)) \
        __CPROVER_ensures(g_bits0 < 3 ==>                                                          \
                          (__CPROVER_return_value == ISAL_END_INPUT && state->avail_in == 0 &&     \
                           w_st_calls == 0 && w_dy_calls == 0))                                    \
        __CPROVER_ensures(g_bits0 >= 3 ==> state->bfinal == (uint32_t) (g_s0 & 1))                 \
        __CPROVER_ensures((g_bits0 >= 3 && RH_BTYPE == 3) ==>                                      \
                          (__CPROVER_return_value == ISAL_INVALID_BLOCK && w_st_calls == 0 &&      \
                           w_dy_calls == 0 &&                                                      \
                           state->block_state == __CPROVER_old(state->block_state)))               \
        __CPROVER_ensures((g_bits0 >= 3 && RH_BTYPE == 1) ==>                                      \
                          (w_st_calls == 1 && w_dy_calls == 0 && __CPROVER_return_value == 0 &&    \
                           state->block_state == ISAL_BLOCK_CODED && ADV(state, 3) &&              \
                           WF_inflate(state)))                                                     \
        __CPROVER_ensures((g_bits0 >= 3 && RH_BTYPE == 2) ==>                                      \
                          (w_dy_calls == 1 && w_st_calls == 0 &&                                   \
                           __CPROVER_return_value == g_dy_ret &&                                   \
                           (int64_t) w_dy_len + 8 * (int64_t) w_dy_avail == g_bits0 - 3 &&         \
                           w_dy_len >= 0 &&                                                        \
                           LOWBITS(w_dy_read_in, w_dy_len) == LOWBITS(S_FROM(3), w_dy_len) &&      \
                           w_dy_next_in == __CPROVER_old(state->next_in) +                         \
                                                   (__CPROVER_old(state->avail_in) - w_dy_avail))) \
        /* stored block */                                                                         \
        __CPROVER_ensures((g_bits0 >= 3 && RH_BTYPE == 0) ==> (w_st_calls == 0 && w_dy_calls == 0)) \
        __CPROVER_ensures((g_bits0 >= 3 && RH_BTYPE == 0 && g_bits0 - 3 - RH_PAD < 32) ==>         \
                          (__CPROVER_return_value == ISAL_END_INPUT && state->avail_in == 0))      \
        __CPROVER_ensures((g_bits0 >= 3 && RH_BTYPE == 0 && g_bits0 - 3 - RH_PAD >= 32 &&          \
                           RH_LEN != (~RH_NLEN & 0xffff)) ==>                                      \
                          (__CPROVER_return_value == ISAL_INVALID_BLOCK &&                         \
                           state->block_state == __CPROVER_old(state->block_state)))               \
        __CPROVER_ensures((g_bits0 >= 3 && RH_BTYPE == 0 && g_bits0 - 3 - RH_PAD >= 32 &&          \
                           RH_LEN == (~RH_NLEN & 0xffff)) ==>                                      \
                          (__CPROVER_return_value == 0 &&                                          \
                           state->type0_block_len == (int32_t) RH_LEN &&                           \
                           state->block_state == ISAL_BLOCK_TYPE0 && ADV(state, 35 + RH_PAD) &&    \
                           WF_type0(state)))
#endif /* INF_HDR */

/* =============================================================================================
 * (e) canonical Huffman code assignment: bit_reverse2, set_codes (RFC 1951 3.2.2; C02/C06)
 *
 * RFC 1951 3.2.2 with bl_count = count[]:  next_code[L] = sum_{1<=i<L} count[i] * 2^(L-i);  symbol n
 * with length L > 0 gets Code(n) = next_code[L] + #{m < n : len(m) == L}; length 0 gets none.  isa-l stores
 * the L code bits reversed (deflate sends Huffman codes most significant bit first, the decoder indexes
 * by the bits as they arrive, least significant first) in the low 24 bits and L in the top byte.
 * A set of lengths is over-subscribed iff its Kraft sum exceeds 1: sum_{1<=i<=15} count[i]*2^(15-i) > 2^15;
 * set_codes must return ISAL_INVALID_BLOCK exactly then, and touch nothing in that case.  The contract states
 * the test in the RFC's own terms (the count[15] codes of length 15 start at next_code[15] and must fit below
 * 2^15: SC_OVER); that SC_OVER is the Kraft inequality is the arithmetic lemma h_set_codes_kraft_lemma.
 *
 * Specification = the RFC's steps 2 and 3 run as ghost code next to the real loop:
 *   E_set_codes   g_nc[bits] = RFC next_code[bits] (step 2: code = (code + bl_count[bits-1]) << 1, bl_count[0]=0)
 *   H_set_codes_2 for the symbol being visited: if (len != 0) { Code = g_nc[len]; g_nc[len]++; }  (step 3)
 *                 and for the arbitrary symbol g_p the RFC code is remembered in w_code.
 * Postcondition: the stored entry of symbol g_p (arbitrary) is its length in the top byte and the g_l low
 * bits of w_code in reversed order (arbitrary bit g_b), nothing else set.
 * Precondition "every code length <= 15" (next_code has 16 entries; callers only store symbols < 16):
 * instantiated at each visited entry by HARNESS_ASSUME in the hook (input shaping, one instance of the
 * universally quantified precondition per executed iteration; CBMC contracts have no usable forall).
 * table_length is one of the call-site constants 19 / 30 / 32 (one harness each), loops fully unwound.
 * A loop-contract version for arbitrary table_length was tried: dfcc's write-set check for stores through
 * the loop-carried pointer huff_code_table (unknown object after the loop havoc) exhausts 12 GB. */
extern uint32_t g_l;      /* ghost: code length of symbol g_p */
extern uint32_t g_nc[16]; /* ghost: the RFC's next_code[] */
extern uint32_t w_code;   /* ghost: RFC code of symbol g_p */
/* next_code[] exactly as RFC 1951 3.2.2 step 2 defines it (bl_count[0] = 0; code = (code + bl_count[bits-1]) << 1) */
#define SC_NC1 0u
#define SC_NC2 ((SC_NC1 + (uint32_t) count[1]) << 1)
#define SC_NC3 ((SC_NC2 + (uint32_t) count[2]) << 1)
#define SC_NC4 ((SC_NC3 + (uint32_t) count[3]) << 1)
#define SC_NC5 ((SC_NC4 + (uint32_t) count[4]) << 1)
#define SC_NC6 ((SC_NC5 + (uint32_t) count[5]) << 1)
#define SC_NC7 ((SC_NC6 + (uint32_t) count[6]) << 1)
#define SC_NC8 ((SC_NC7 + (uint32_t) count[7]) << 1)
#define SC_NC9 ((SC_NC8 + (uint32_t) count[8]) << 1)
#define SC_NC10 ((SC_NC9 + (uint32_t) count[9]) << 1)
#define SC_NC11 ((SC_NC10 + (uint32_t) count[10]) << 1)
#define SC_NC12 ((SC_NC11 + (uint32_t) count[11]) << 1)
#define SC_NC13 ((SC_NC12 + (uint32_t) count[12]) << 1)
#define SC_NC14 ((SC_NC13 + (uint32_t) count[13]) << 1)
#define SC_NC15 ((SC_NC14 + (uint32_t) count[14]) << 1)
#define SC_FIRST(L) \
        ((L) == 1 ? SC_NC1 : \
         ((L) == 2 ? SC_NC2 : \
         ((L) == 3 ? SC_NC3 : \
         ((L) == 4 ? SC_NC4 : \
         ((L) == 5 ? SC_NC5 : \
         ((L) == 6 ? SC_NC6 : \
         ((L) == 7 ? SC_NC7 : \
         ((L) == 8 ? SC_NC8 : \
         ((L) == 9 ? SC_NC9 : \
         ((L) == 10 ? SC_NC10 : \
         ((L) == 11 ? SC_NC11 : \
         ((L) == 12 ? SC_NC12 : \
         ((L) == 13 ? SC_NC13 : \
         ((L) == 14 ? SC_NC14 : \
         ((L) == 15 ? SC_NC15 : \
         0u)))))))))))))))
/* over-subscription: the count[15] codes of length 15 start at next_code[15] and must fit below 2^15
 * (equivalently the Kraft sum  sum_i count[i]*2^(15-i)  exceeds 2^15; that equivalence is pure arithmetic
 * and is the separate lemma harness set_codes_kraft_lemma) */
#define SC_OVER ((uint64_t) SC_NC15 + count[15] > 32768u)
#define SC_KRAFT (((uint64_t) count[1] << (15 - 1)) + ((uint64_t) count[2] << (15 - 2)) + ((uint64_t) \
         count[3] << (15 - 3)) + ((uint64_t) count[4] << (15 - 4)) + ((uint64_t) \
         count[5] << (15 - 5)) + ((uint64_t) count[6] << (15 - 6)) + ((uint64_t) \
         count[7] << (15 - 7)) + ((uint64_t) count[8] << (15 - 8)) + ((uint64_t) \
         count[9] << (15 - 9)) + ((uint64_t) count[10] << (15 - 10)) + ((uint64_t) \
         count[11] << (15 - 11)) + ((uint64_t) count[12] << (15 - 12)) + ((uint64_t) \
         count[13] << (15 - 13)) + ((uint64_t) count[14] << (15 - 14)) + ((uint64_t) \
         count[15] << (15 - 15)))
#define SC_T0 (__CPROVER_old(huff_code_table))
/* what entry E must look like for symbol g_p whose RFC code is CODE (bit g_b of the stored, reversed code) */
#define SC_DONE_OF(E, CODE)                                                                        \
        (((E) >> 24) == g_l && (((E) & 0xffffff) >> g_l) == 0 &&                                   \
         (g_b < g_l ==> ((((E) >> g_b) & 1) == (((CODE) >> (g_l - 1 - g_b)) & 1))))
#if defined(INF_CODES)
#define C_bit_reverse2                                                                             \
        __CPROVER_requires(length <= 16 && g_n == length && g_d == bits)                           \
        __CPROVER_assigns()                                                                        \
        __CPROVER_ensures(g_b < g_n ==>                                                            \
                          ((__CPROVER_return_value >> g_b) & 1) == ((g_d >> (g_n - 1 - g_b)) & 1)) \
        __CPROVER_ensures((__CPROVER_return_value >> g_n) == 0)
#define C_set_codes                                                                                \
        __CPROVER_requires(table_length >= 0 && table_length <= 32 && g_p < (uint32_t) table_length) \
        __CPROVER_requires(__CPROVER_is_fresh(huff_code_table, table_length * sizeof(struct huff_code))) \
        __CPROVER_requires(__CPROVER_is_fresh(count, 16 * sizeof(uint16_t)))                       \
        __CPROVER_requires(g_l == huff_code_table[g_p].length && g_l <= 15 &&                      \
                           g_n == huff_code_table[g_p].code_and_length)                            \
        __CPROVER_assigns(w_code, __CPROVER_object_whole(g_nc),                                    \
                          __CPROVER_object_upto(huff_code_table, table_length * sizeof(struct huff_code))) \
        __CPROVER_ensures(__CPROVER_return_value == 0 ||                                           \
                          __CPROVER_return_value == ISAL_INVALID_BLOCK)                            \
        __CPROVER_ensures((__CPROVER_return_value == ISAL_INVALID_BLOCK) == SC_OVER)               \
        /* rejected set or unused symbol: entry untouched */                                       \
        __CPROVER_ensures((__CPROVER_return_value != 0 || g_l == 0) ==>                            \
                          SC_T0[g_p].code_and_length == g_n)                                       \
        /* accepted: length kept, the RFC's code, bit-reversed */                                  \
        __CPROVER_ensures((__CPROVER_return_value == 0 && g_l != 0) ==>                            \
                          SC_DONE_OF(SC_T0[g_p].code_and_length, w_code))
#define SC_IDX ((uint64_t) __CPROVER_POINTER_OFFSET(huff_code_table) / sizeof(struct huff_code))
/* RFC step 2 */
#define E_set_codes                                                                                \
        g_nc[0] = 0;                                                                               \
        g_nc[1] = SC_NC1;                                                                          \
        g_nc[2] = SC_NC2;                                                                          \
        g_nc[3] = SC_NC3;                                                                          \
        g_nc[4] = SC_NC4;                                                                          \
        g_nc[5] = SC_NC5;                                                                          \
        g_nc[6] = SC_NC6;                                                                          \
        g_nc[7] = SC_NC7;                                                                          \
        g_nc[8] = SC_NC8;                                                                          \
        g_nc[9] = SC_NC9;                                                                          \
        g_nc[10] = SC_NC10;                                                                        \
        g_nc[11] = SC_NC11;                                                                        \
        g_nc[12] = SC_NC12;                                                                        \
        g_nc[13] = SC_NC13;                                                                        \
        g_nc[14] = SC_NC14;                                                                        \
        g_nc[15] = SC_NC15;
#define H_set_codes_1 VCANARY();
/* RFC step 3 for the symbol being visited */
#define H_set_codes_2                                                                              \
        {                                                                                          \
                HARNESS_ASSUME(huff_code_table->length <= 15);                                     \
                if (huff_code_table->length != 0) {                                                \
                        if (SC_IDX == g_p)                                                         \
                                w_code = g_nc[huff_code_table->length];                            \
                        g_nc[huff_code_table->length]++;                                           \
                }                                                                                  \
                VCANARY();                                                                         \
        }
#endif /* INF_CODES */

/* =============================================================================================
 * (h) isal_inflate_init / isal_inflate_reset (C15), isal_inflate_set_dict (C17)
 *
 * init (igzip_lib.h: "Initialize decompression state data structure"): every scalar the decoder reads
 * before writing it gets its start value; reset ("Reinitialize ... preserving user settings"): the same
 * for every scalar except the caller's stream fields next_in/avail_in/next_out/avail_out and the settings
 * crc_flag/hist_bits, whatever the previous contents (state is unconstrained garbage on entry).
 * INF_FRESHLIKE(s): the value init gives to the fields reset is responsible for. */
#define INF_FRESHLIKE(s)                                                                           \
        ((s)->read_in == 0 && (s)->read_in_length == 0 && (s)->total_out == 0 &&                   \
         (s)->dict_length == 0 && (s)->block_state == ISAL_BLOCK_NEW_HDR && (s)->bfinal == 0 &&    \
         (s)->crc == 0 && (s)->type0_block_len == 0 && (s)->write_overflow_lits == 0 &&            \
         (s)->write_overflow_len == 0 && (s)->copy_overflow_length == 0 &&                         \
         (s)->copy_overflow_distance == 0 && (s)->wrapper_flag == 0 && (s)->tmp_in_size == 0 &&    \
         (s)->tmp_out_processed == 0 && (s)->tmp_out_valid == 0)
#define INF_FRESHLIKE_ASSIGNS                                                                      \
        state->read_in, state->read_in_length, state->total_out, state->dict_length,               \
                state->block_state, state->bfinal, state->crc, state->type0_block_len,             \
                state->write_overflow_lits, state->write_overflow_len,                             \
                state->copy_overflow_length, state->copy_overflow_distance, state->wrapper_flag,   \
                state->tmp_in_size, state->tmp_out_processed, state->tmp_out_valid
#if defined(INF_INIT)
#include "stubs_inflate.h"
#define C_isal_inflate_init                                                                        \
        __CPROVER_requires(INF_FRESH_STATE(state))                                                 \
        __CPROVER_assigns(INF_FRESHLIKE_ASSIGNS, state->next_in, state->avail_in, state->next_out, \
                          state->avail_out, state->crc_flag, state->hist_bits)                     \
        __CPROVER_ensures(INF_FRESHLIKE(state) && state->next_in == NULL && state->avail_in == 0 && \
                          state->next_out == NULL && state->avail_out == 0 &&                      \
                          state->crc_flag == 0 && state->hist_bits == 0)                           \
        __CPROVER_ensures(WF_inflate(state))
#define C_isal_inflate_reset                                                                       \
        __CPROVER_requires(INF_FRESH_STATE(state))                                                 \
        __CPROVER_assigns(INF_FRESHLIKE_ASSIGNS)                                                   \
        __CPROVER_ensures(INF_FRESHLIKE(state))
/* isal_inflate_set_dict (igzip_lib.h: "should be called after isal_inflate_init ... if the dictionary is
 * longer than IGZIP_HIST_SIZE only the last IGZIP_HIST_SIZE bytes will be used"; returns COMP_OK or
 * ISAL_INVALID_STATE): a call in a wrong state changes nothing and copies nothing; otherwise exactly one
 * copy of the last N = min(dict_len, IGZIP_HIST_SIZE) dictionary bytes to tmp_out_buffer[0..N) (memcpy is a
 * recording stub, see contracts/stubs_inflate.h) and the three bookkeeping fields become N. */
#define SD_BAD(s) ((s)->block_state != ISAL_BLOCK_NEW_HDR || (s)->tmp_out_processed != (s)->tmp_out_valid)
#define SD_N MIN2(dict_len, (uint32_t) IGZIP_HIST_SIZE)
#define C_isal_inflate_set_dict                                                                    \
        __CPROVER_requires(INF_FRESH_STATE(state) && __CPROVER_is_fresh(dict, dict_len))           \
        __CPROVER_requires(g_n == (SD_BAD(state) ? 1u : 0u) && w_mc_calls == 0)                    \
        __CPROVER_assigns(g_n == 0 : state->tmp_out_processed, state->tmp_out_valid,               \
                                     state->dict_length, w_mc_calls,                                \
                                     __CPROVER_object_whole(w_mc_dst),                             \
                                     __CPROVER_object_whole(w_mc_src),                             \
                                     __CPROVER_object_whole(w_mc_n))                               \
        __CPROVER_ensures(g_n != 0 ==>                                                             \
                          (__CPROVER_return_value == ISAL_INVALID_STATE && w_mc_calls == 0))       \
        __CPROVER_ensures(g_n == 0 ==>                                                             \
                          (__CPROVER_return_value == COMP_OK &&                                    \
                           state->tmp_out_processed == (int32_t) SD_N &&                           \
                           state->tmp_out_valid == (int32_t) SD_N && state->dict_length == SD_N && \
                           w_mc_calls == 1 &&                                                      \
                           w_mc_dst[0] == (const void *) state->tmp_out_buffer &&                  \
                           w_mc_src[0] == (const void *) (dict + (dict_len - SD_N)) &&             \
                           w_mc_n[0] == SD_N))
#endif /* INF_INIT */

/* =============================================================================================
 * (d) byte_copy -- the overlapping LZ77 copy (RFC 1951 3.2.3: "the referenced string may overlap the
 * current position"): afterwards every copied byte equals the byte `distance` before it,
 * dest[g] == dest[g - distance] for every 0 <= g < length (ghost index g_p), and nothing outside
 * [dest, dest+length) is written.  The caller owns the window [dest-distance, dest+length). */
/* repeat_length <= 258: the longest match RFC 1951 can encode (length symbol 285), which is also the
 * largest value both call sites can pass (repeat_length resp. copy_overflow_length <= 258).
 * The contract text C_byte_copy is what callers may use with --replace-call-with-contract; it is
 * established by the un-instrumented harness h_byte_copy (harness/igzip/inflate_init.c), which asserts
 * BC_POST and the frame on a window of exactly distance+length bytes with the loop unwound 259 times.
 * (dfcc enforcement was tried both with a loop contract and with unwinding: its per-store write-set check
 * on the walking pointers exhausts 12-14 GB.) */
#define BC_POST(d0) (g_p < g_n ==> (d0)[g_p] == *((d0) + g_p - g_d))
#if defined(INF_COPY)
#define C_byte_copy                                                                                \
        __CPROVER_requires(repeat_length >= 0 && repeat_length <= 258 &&                           \
                           lookback_distance <= 0x100000 && g_d == lookback_distance &&            \
                           g_n == (uint32_t) repeat_length)                                        \
        __CPROVER_requires(__CPROVER_rw_ok(dest - lookback_distance,                               \
                                           lookback_distance + (uint64_t) repeat_length))          \
        __CPROVER_assigns(__CPROVER_object_upto(dest, repeat_length))                              \
        __CPROVER_ensures(BC_POST(__CPROVER_old(dest)))
#endif
#if defined(INF_COPY_PLAIN)
#define H_byte_copy_1 VCANARY();
#endif /* INF_COPY_PLAIN */

/* =============================================================================================
 * read_header_stateful (C07): the resumable wrapper around read_header.
 *
 * T = tmp_in_size bytes of an earlier, incomplete header are parked in tmp_in_buffer (block_state
 * ISAL_BLOCK_HDR; in ISAL_BLOCK_NEW_HDR nothing is parked).  One call
 *   - in HDR state appends c = min(328 - T, avail_in) new bytes behind the parked ones (copy #0:
 *     tmp_in_buffer+T <- next_in, c bytes) and lets read_header parse tmp_in_buffer[0 .. T+c);
 *   - ISAL_END_INPUT (header still incomplete): the bit accumulator is exactly as on entry, ALL avail_in
 *     bytes of the caller are appended behind the T parked ones (last copy: tmp_in_buffer+T <- the caller's
 *     next_in, avail_in bytes; T + avail_in <= 328), tmp_in_size' == T + avail_in, the caller's input is
 *     fully consumed, block_state' == ISAL_BLOCK_HDR  -- so that the next call sees the same logical input
 *     extended by the new chunk, for any split;
 *   - any other result: nothing stays parked (tmp_in_size' == 0) and the caller's input advanced by exactly
 *     the number of *new* bytes read_header consumed (k - T if positive; k = bytes consumed from
 *     tmp_in_buffer), in NEW_HDR state by exactly what read_header consumed.
 * read_header and memcpy are stubs (contracts/stubs_inflate.h): interface contract resp. recording stub
 * whose precondition (destination writable, source readable for n bytes) is proved at both call sites. */
#if defined(INF_HDRS)
#include "stubs_inflate.h"
#define RHS_T ((uint32_t) __CPROVER_old(state->tmp_in_size))
#define RHS_A (__CPROVER_old(state->avail_in))
#define RHS_HDR (__CPROVER_old(state->block_state) == ISAL_BLOCK_HDR)
#define RHS_C MIN2((uint32_t) ISAL_DEF_MAX_HDR_SIZE - RHS_T, RHS_A)
#define C_read_header_stateful                                                                     \
        __CPROVER_requires(INF_FRESH_STATE(state) && INF_FRESH_IN(state))                          \
        __CPROVER_requires((state->block_state == ISAL_BLOCK_NEW_HDR && state->tmp_in_size == 0) || \
                           (state->block_state == ISAL_BLOCK_HDR && state->tmp_in_size >= 0 &&     \
                            state->tmp_in_size <= ISAL_DEF_MAX_HDR_SIZE))                          \
        __CPROVER_requires(w_mc_calls == 0 && w_rh_calls == 0)                                     \
        __CPROVER_assigns(w_rh_calls, w_rh_k, w_rh_avail, w_rh_next_in, w_mc_calls,                \
                          __CPROVER_object_whole(w_mc_dst), __CPROVER_object_whole(w_mc_src),      \
                          __CPROVER_object_whole(w_mc_n), state->read_in, state->read_in_length,   \
                          state->next_in, state->avail_in, state->bfinal, state->type0_block_len,  \
                          state->block_state, state->lit_huff_code, state->dist_huff_code,         \
                          state->tmp_in_size)                                                      \
        __CPROVER_ensures(__CPROVER_return_value == g_rh_ret && w_rh_calls == 1)                   \
        /* what read_header was given */                                                           \
        __CPROVER_ensures(RHS_HDR ? (w_rh_next_in == state->tmp_in_buffer &&                       \
                                     w_rh_avail == RHS_T + RHS_C && w_mc_calls >= 1 &&             \
                                     w_mc_dst[0] == (const void *) (state->tmp_in_buffer + RHS_T) && \
                                     w_mc_src[0] == (const void *) __CPROVER_old(state->next_in) && \
                                     w_mc_n[0] == RHS_C)                                           \
                                  : (w_rh_next_in == __CPROVER_old(state->next_in) &&              \
                                     w_rh_avail == RHS_A))                                         \
        /* header still incomplete: everything is kept for the next call */                        \
        __CPROVER_ensures(g_rh_ret == ISAL_END_INPUT ==>                                           \
                          (state->read_in == __CPROVER_old(state->read_in) &&                      \
                           state->read_in_length == __CPROVER_old(state->read_in_length) &&        \
                           state->tmp_in_size == (int16_t) (RHS_T + RHS_A) &&                      \
                           RHS_T + RHS_A <= ISAL_DEF_MAX_HDR_SIZE && state->avail_in == 0 &&       \
                           state->next_in == __CPROVER_old(state->next_in) + RHS_A &&              \
                           state->block_state == ISAL_BLOCK_HDR &&                                 \
                           w_mc_calls == (RHS_HDR ? 2u : 1u) &&                                    \
                           w_mc_dst[w_mc_calls - 1] ==                                             \
                                   (const void *) (state->tmp_in_buffer + RHS_T) &&                \
                           w_mc_src[w_mc_calls - 1] == (const void *) __CPROVER_old(state->next_in) && \
                           w_mc_n[w_mc_calls - 1] == RHS_A))                                       \
        /* decided: nothing parked, the caller's input advanced by the new bytes consumed */       \
        __CPROVER_ensures(g_rh_ret != ISAL_END_INPUT ==>                                           \
                          (state->tmp_in_size == 0 && w_mc_calls == (RHS_HDR ? 1u : 0u) &&         \
                           state->next_in ==                                                       \
                                   __CPROVER_old(state->next_in) +                                 \
                                           (RHS_HDR ? (w_rh_k > RHS_T ? w_rh_k - RHS_T : 0) : w_rh_k) && \
                           state->avail_in ==                                                      \
                                   RHS_A - (RHS_HDR ? (w_rh_k > RHS_T ? w_rh_k - RHS_T : 0) : w_rh_k)))
#endif /* INF_HDRS */

/* =============================================================================================
 * (g) setup_dynamic_header -- dynamic block header (RFC 1951 3.2.7), the part before the code-length
 *     decoding loop exactly, the loop itself as a bounded stand-in (C06)
 *
 * With S the logical stream at entry (just after BFINAL/BTYPE) and NB its length in bits:
 *   NB < 14                                  -> ISAL_END_INPUT
 *   HLIT = S[0..4], HDIST = S[5..9], HCLEN = S[10..13];  HLIT > 29 or HDIST > 29 -> ISAL_INVALID_BLOCK
 *        (RFC: HLIT+257 in 257..286, HDIST+1 in 1..30; 30 and 31 do not occur in valid streams)
 *   NB < 14 + 3*(HCLEN+4)                    -> ISAL_END_INPUT
 *   all HCLEN+4 code-length-code lengths zero -> ISAL_INVALID_BLOCK (no code-length symbol decodable)
 *   the code-length code is rejected by set_codes (over-subscribed) -> ISAL_INVALID_BLOCK
 *   always: only the documented codes 0 / ISAL_END_INPUT / ISAL_INVALID_BLOCK; 0 only with block_state ==
 *   ISAL_BLOCK_CODED, otherwise block_state unchanged; frame = bit buffer, input position, the two
 *   lookup tables, block_state.
 * Callees are stubs (contracts/stubs_inflate.h, -DINF_DYN); decode_next_header delivers at most
 * DYN_MAX_SYMS symbols, so the statements about the loop (memory safety, return codes) are BOUNDED, the
 * five early-exit statements above are not (they are decided before the loop is entered).
 * The pre-generated-header shortcut (header_matches_pregen) is stubbed to "no match". */
#define DY_HLIT ((uint32_t) (g_s0 & 31))
#define DY_HDIST ((uint32_t) ((g_s0 >> 5) & 31))
#define DY_HCLEN ((uint32_t) ((g_s0 >> 10) & 15))
#define DY_CL(j) ((uint32_t) ((S_FROM(14 + 3 * (j))) & 7))
#define DY_CLZ(j) ((j) >= DY_HCLEN + 4 || DY_CL(j) == 0)
#define DY_ALLZERO                                                                                 \
        (DY_CLZ(0) && DY_CLZ(1) && DY_CLZ(2) && DY_CLZ(3) && DY_CLZ(4) && DY_CLZ(5) && DY_CLZ(6) && \
         DY_CLZ(7) && DY_CLZ(8) && DY_CLZ(9) && DY_CLZ(10) && DY_CLZ(11) && DY_CLZ(12) &&          \
         DY_CLZ(13) && DY_CLZ(14) && DY_CLZ(15) && DY_CLZ(16) && DY_CLZ(17) && DY_CLZ(18))
#define DY_HDR_OK (g_bits0 >= 14 && DY_HLIT <= 29 && DY_HDIST <= 29 &&                             \
                   g_bits0 >= 14 + 3 * ((int64_t) DY_HCLEN + 4))
#if defined(INF_DYN)
#include "stubs_inflate.h"
#define C_setup_dynamic_header                                                                     \
        __CPROVER_requires(INF_FRESH_STATE(state) && INF_FRESH_IN(state))                                                    \
        __CPROVER_requires(WF_inflate(state) && w_sc_calls == 0 && w_dnh_calls == 0 &&             \
                           w_mk_calls == 0)                                                        \
        __CPROVER_requires(g_s0 == STREAM64(state) && g_s1 == STREAM64_HI(state) &&                \
                           g_bits0 == STREAM_BITS(state))                                          \
        __CPROVER_assigns(state->read_in, state->read_in_length, state->next_in, state->avail_in,  \
                          state->block_state, state->lit_huff_code, state->dist_huff_code,         \
                          w_sc_calls, w_dnh_calls, w_mk_calls, __CPROVER_object_whole(w_sc_len))   \
        __CPROVER_ensures(__CPROVER_return_value == 0 || __CPROVER_return_value == ISAL_END_INPUT || \
                          __CPROVER_return_value == ISAL_INVALID_BLOCK)                            \
        __CPROVER_ensures(__CPROVER_return_value == 0                                              \
                                  ? state->block_state == ISAL_BLOCK_CODED                         \
                                  : state->block_state == __CPROVER_old(state->block_state))       \
        __CPROVER_ensures(state->avail_in <= __CPROVER_old(state->avail_in) &&                     \
                          state->next_in == __CPROVER_old(state->next_in) +                        \
                                                    (__CPROVER_old(state->avail_in) - state->avail_in)) \
        __CPROVER_ensures(g_bits0 < 14 ==> __CPROVER_return_value == ISAL_END_INPUT)               \
        __CPROVER_ensures((g_bits0 >= 14 && (DY_HLIT > 29 || DY_HDIST > 29)) ==>                   \
                          __CPROVER_return_value == ISAL_INVALID_BLOCK)                            \
        __CPROVER_ensures((g_bits0 >= 14 && DY_HLIT <= 29 && DY_HDIST <= 29 &&                     \
                           g_bits0 < 14 + 3 * ((int64_t) DY_HCLEN + 4)) ==>                        \
                          __CPROVER_return_value == ISAL_END_INPUT)                                \
        __CPROVER_ensures((DY_HDR_OK && DY_ALLZERO) ==>                                            \
                          (__CPROVER_return_value == ISAL_INVALID_BLOCK && w_sc_calls == 0))       \
        /* otherwise the code-length code (19 entries) goes to set_codes, whose verdict is honoured */ \
        __CPROVER_ensures((DY_HDR_OK && !DY_ALLZERO) ==> (w_sc_calls >= 1 && w_sc_len[0] == 19))   \
        __CPROVER_ensures((DY_HDR_OK && !DY_ALLZERO && g_sc_ret[0] != 0) ==>                       \
                          (__CPROVER_return_value == ISAL_INVALID_BLOCK && w_dnh_calls == 0))      \
        /* nothing is decoded with a table that was not built; success only after all three tables */ \
        __CPROVER_ensures(__CPROVER_return_value == 0 ==>                                          \
                          (w_mk_calls == 3 && w_sc_calls == 2 && w_sc_len[1] == 30 &&              \
                           g_sc_ret[0] == 0 && g_sc_ret[1] == 0))
#define H_setup_dynamic_header_1 VCANARY();
#define H_setup_dynamic_header_2 VCANARY();
#define H_setup_dynamic_header_3 VCANARY();
#endif /* INF_DYN */

/* =============================================================================================
 * (j) decode lookup-table builders make_inflate_huff_code_dist / _header (C02/C06), BOUNDED harnesses
 *
 * Input as in the real call context: a table of code lengths, its histogram count[], canonical codes
 * assigned by the real set_codes (accepted, i.e. Kraft sum <= 1; incomplete codes included).
 * Bound: at most TB_NSYM symbols (at nondeterministic, increasing positions of the 30/19-entry table) have a
 * non-zero length; every length 1..15 is allowed.  The result object is pre-filled with the poison
 * value 0xFFFF, which no legal entry can equal (code length field <= 15 keeps bit 15 clear).
 * Asserted afterwards (g_i: arbitrary short index, g_j: arbitrary offset inside a long slice):
 *   (b) no stale entry: short_code_lookup[g_i] != poison; if it is a long-code pointer (FLAG), then its
 *       max length is 11..15, its slice [off, off + 2^(maxlen-10)) lies inside long_code_lookup and
 *       long_code_lookup[off + g_j] != poison  -- i.e. every entry the decoder can reach was written by
 *       THIS call (stale entries of an earlier block cannot survive, also for incomplete codes);
 *   (c) lookup correctness for the arbitrary symbol g_p with code C (stored bit-reversed) of length L and
 *       arbitrary following bits g_d:  L <= 10: short[C | g_d<<L] is {symbol, extra-bit count (dist),
 *       length L};  L > 10: short[C & 1023] is a pointer with maxlen >= L and
 *       long[off + ((C | g_d<<L) >> 10 & (2^(maxlen-10)-1))] is {symbol, extra, L};
 *       a symbol >= max_symbol (dist only) yields the "invalid" encoding (code length field 0);
 *   (a) memory safety of every access (CBMC pointer/bounds checks on exact-size objects) and the frame:
 *       count[] unchanged, the length byte of every table entry unchanged (codes of long symbols are
 *       overwritten with 0xFFFF by design). */
#define TB_POISON 0xFFFFu
#define TB_FLAG SMALL_FLAG_BIT
#define TB_OFF(e) ((uint32_t) (e) & SMALL_SHORT_SYM_MASK)
#define TB_MAXLEN(e) ((uint32_t) (e) >> SMALL_SHORT_CODE_LEN_OFFSET)

/* =============================================================================================
 * (k) setup_static_header (C02): fixed-Huffman block, RFC 1951 3.2.6.
 * In the default build (igzip/static_inflate.h defines ISAL_STATIC_INFLATE_TABLE) the function selects the
 * pre-generated tables: afterwards state->lit_huff_code / dist_huff_code are byte-for-byte
 * static_lit_huff_code / static_dist_huff_code (ghost element indices g_i, g_j), block_state ==
 * ISAL_BLOCK_CODED, return 0, nothing else written.  That those two constant tables decode exactly the
 * RFC 3.2.6 code (lengths 8/9/7/8, 5-bit distance codes, every symbol, extra value and following bits)
 * is checked natively: `replay/inflate_parts.c static_tables` (dfcc havocs non-const statics, so the
 * initialisers cannot be examined inside a contract harness; the postcondition below is relative to the
 * tables' current contents).  The run-time fallback (NO_STATIC_INFLATE_H) is not the built configuration. */
#if defined(INF_STATIC) && defined(INF_MEMCPY_REC)
/* quick variant: memcpy is the recording stub -- exactly two copies, of exactly the two static tables into
 * exactly the two table members (sizes = whole tables), destination writable / source readable proved */
#include "stubs_inflate.h"
#define C_setup_static_header                                                                      \
        __CPROVER_requires(INF_FRESH_STATE(state) && w_mc_calls == 0)                              \
        __CPROVER_assigns(state->block_state, w_mc_calls, __CPROVER_object_whole(w_mc_dst),        \
                          __CPROVER_object_whole(w_mc_src), __CPROVER_object_whole(w_mc_n))        \
        __CPROVER_ensures(__CPROVER_return_value == 0 && state->block_state == ISAL_BLOCK_CODED)   \
        __CPROVER_ensures(w_mc_calls == 2 && w_mc_dst[0] == (const void *) &state->lit_huff_code && \
                          w_mc_src[0] == (const void *) &static_lit_huff_code &&                   \
                          w_mc_n[0] == sizeof(struct inflate_huff_code_large) &&                   \
                          w_mc_dst[1] == (const void *) &state->dist_huff_code &&                  \
                          w_mc_src[1] == (const void *) &static_dist_huff_code &&                  \
                          w_mc_n[1] == sizeof(struct inflate_huff_code_small))
#elif defined(INF_STATIC)
#define C_setup_static_header                                                                      \
        __CPROVER_requires(INF_FRESH_STATE(state))                                                 \
        __CPROVER_assigns(state->lit_huff_code, state->dist_huff_code, state->block_state)         \
        __CPROVER_ensures(__CPROVER_return_value == 0 && state->block_state == ISAL_BLOCK_CODED)   \
        __CPROVER_ensures(state->lit_huff_code.short_code_lookup[g_i % (1 << ISAL_DECODE_LONG_BITS)] == \
                                  static_lit_huff_code.short_code_lookup[g_i % (1 << ISAL_DECODE_LONG_BITS)] && \
                          state->lit_huff_code.long_code_lookup[g_j % ISAL_HUFF_CODE_LARGE_LONG_ALIGNED] == \
                                  static_lit_huff_code.long_code_lookup[g_j % ISAL_HUFF_CODE_LARGE_LONG_ALIGNED]) \
        __CPROVER_ensures(state->dist_huff_code.short_code_lookup[g_i % (1 << ISAL_DECODE_SHORT_BITS)] == \
                                  static_dist_huff_code.short_code_lookup[g_i % (1 << ISAL_DECODE_SHORT_BITS)] && \
                          state->dist_huff_code.long_code_lookup[g_j % ISAL_HUFF_CODE_SMALL_LONG_ALIGNED] == \
                                  static_dist_huff_code.long_code_lookup[g_j % ISAL_HUFF_CODE_SMALL_LONG_ALIGNED])
#endif

#endif
