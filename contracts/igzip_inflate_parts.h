/* Component contracts for the decompressor igzip/igzip_inflate.c
 * (properties C02 / C06 / C11 / C07 / C15 / C17; DESIGN.md section 7).
 *
 * Sources of the postconditions: RFC 1951 (bit order 3.1.1, block header 3.2.3, stored block 3.2.4,
 * canonical codes 3.2.2, dynamic header 3.2.7), RFC 1952 2.3.1 (CRC32 / ISIZE little endian),
 * RFC 1950 2.2 (ADLER32 most significant byte first), include/igzip_lib.h (return codes, field
 * meaning).  Nothing here is transcribed from the function bodies.
 *
 * Which group of contracts is active is selected by -DINF_<GROUP> in the registry entry (a function has
 * at most one contract per harness TU).
 *
 * ---------------------------------------------------------------------------------------------
 * The abstract input of the decoder ("logical bit stream") is
 *        read_in[0 .. read_in_length)  ||  bits of next_in[0], next_in[1], ... next_in[avail_in-1]
 * each byte contributing its bits least-significant first (RFC 1951 3.1.1).
 *
 * WF_inflate_bits(s):   -64 <= read_in_length <= 64, a negative length only with avail_in == 0
 *   (a negative length is the decoder's "ran out of input" marker: a reader consumed more bits than the
 *   logical stream had; it is only produced when avail_in == 0), and the bits of read_in above
 *   read_in_length are a subset of the bits of the not yet consumed input (the 64-bit fast path of
 *   inflate_in_load ORs eight input bytes in but advances next_in by fewer; these bits are ORed in
 *   again by the next load, which is harmless exactly because of this invariant).
 */
#ifndef IGZIP_INFLATE_PARTS_H
#define IGZIP_INFLATE_PARTS_H
#include "verif_common.h"
#include <string.h>
#include "igzip_lib.h"
#include "huff_codes.h"

/* ---- ghost variables (defined in the harness TUs) ---- */
extern uint32_t g_p;  /* ghost byte position */
extern uint32_t g_b;  /* ghost bit position */
extern uint32_t g_n;  /* ghost copy of a scalar argument */
extern uint64_t g_d;  /* ghost copy of a scalar argument */

/* ---- little helpers (pure expressions) ---- */
#define LOWBITS(x, n) ((n) >= 64 ? (uint64_t) (x) : ((n) <= 0 ? 0ULL : ((uint64_t) (x) & ((1ULL << (n)) - 1))))
#define SHL64(x, n) ((n) >= 64 ? 0ULL : ((uint64_t) (x) << (n)))
#define SHR64(x, n) ((n) >= 64 ? 0ULL : ((uint64_t) (x) >> (n)))
#define MIN2(a, b) ((a) < (b) ? (a) : (b))
/* next (up to) eight unconsumed input bytes as a little-endian word, zero beyond avail_in */
#define PEEKB(s, k) ((s)->avail_in > (k) ? ((uint64_t) (s)->next_in[k]) << (8 * (k)) : 0ULL)
#define PEEK64(s)                                                                                  \
        (PEEKB(s, 0) | PEEKB(s, 1) | PEEKB(s, 2) | PEEKB(s, 3) | PEEKB(s, 4) | PEEKB(s, 5) |       \
         PEEKB(s, 6) | PEEKB(s, 7))
/* first 64 bits of the logical stream (zero beyond its end) */
#define STREAM64(s) (LOWBITS((s)->read_in, (s)->read_in_length) | SHL64(PEEK64(s), (s)->read_in_length))
/* number of bits in the logical stream, saturated so that it fits */
#define STREAM_BITS(s) ((int64_t) (s)->read_in_length + 8 * (int64_t) (s)->avail_in)

#define WF_inflate_len(s) ((s)->read_in_length >= -64 && (s)->read_in_length <= 64 &&              \
                           ((s)->read_in_length >= 0 || (s)->avail_in == 0))
#define WF_inflate_garbage(s)                                                                      \
        (!((s)->read_in_length >= 0 && (s)->read_in_length < 64) ||                                \
         ((((s)->read_in >> (s)->read_in_length) & ~PEEK64(s)) == 0))
#define WF_inflate_bits(s) (WF_inflate_len(s) && WF_inflate_garbage(s))
/* at function boundaries of the block decoders the length is never negative */
#define WF_inflate(s) (WF_inflate_bits(s) && (s)->read_in_length >= 0 &&                           \
                       (s)->tmp_in_size >= 0 && (s)->tmp_in_size <= ISAL_DEF_MAX_HDR_SIZE)

/* The caller-owned objects of an inflate_state: the struct itself, exactly avail_in bytes of input and
 * exactly avail_out bytes of output (one byte more or less touched is a failed pointer check).
 * avail_in <= 2^32-9: see "possible defect" note at decode_literal_block. */
#define INF_FRESH_STATE(s) __CPROVER_is_fresh(s, sizeof(*(s)))
#define INF_FRESH_IN(s) __CPROVER_is_fresh((s)->next_in, (s)->avail_in)
#define INF_FRESH_OUT(s) __CPROVER_is_fresh((s)->next_out, (s)->avail_out)

/* =============================================================================================
 * (a) bit reader
 * ============================================================================================= */
#if defined(INF_BITS)
/* inflate_in_load: refills the accumulator without changing the logical stream.
 *   - nothing happens when the accumulator is full or the length is negative (then avail_in==0)
 *   - otherwise k = (L'-L)/8 whole bytes move from next_in into read_in at bit positions L+8j (LSB first),
 *     next_in/avail_in advance by exactly k, k <= avail_in (never reads past avail_in: is_fresh exact),
 *     and the refill is maximal in the sense the readers rely on: L' >= 57 or no input is left. */
#define C_inflate_in_load                                                                          \
        __CPROVER_requires(INF_FRESH_STATE(state) && INF_FRESH_IN(state))                          \
        __CPROVER_requires(WF_inflate_bits(state))                                                 \
        __CPROVER_assigns(state->read_in, state->read_in_length, state->next_in, state->avail_in)  \
        __CPROVER_ensures(WF_inflate_bits(state))                                                  \
        __CPROVER_ensures((__CPROVER_old(state->read_in_length) >= 64 ||                           \
                           __CPROVER_old(state->read_in_length) < 0) ==>                           \
                          (state->read_in == __CPROVER_old(state->read_in) &&                      \
                           state->read_in_length == __CPROVER_old(state->read_in_length) &&        \
                           state->next_in == __CPROVER_old(state->next_in) &&                      \
                           state->avail_in == __CPROVER_old(state->avail_in)))                     \
        __CPROVER_ensures(state->read_in_length >= __CPROVER_old(state->read_in_length) &&         \
                          state->read_in_length <= 64 &&                                           \
                          (state->read_in_length - __CPROVER_old(state->read_in_length)) % 8 == 0) \
        __CPROVER_ensures(state->avail_in <= __CPROVER_old(state->avail_in) &&                     \
                          8 * (int64_t) (__CPROVER_old(state->avail_in) - state->avail_in) ==      \
                                  (int64_t) state->read_in_length -                                \
                                          __CPROVER_old(state->read_in_length) &&                  \
                          state->next_in == __CPROVER_old(state->next_in) +                        \
                                                    (__CPROVER_old(state->avail_in) - state->avail_in)) \
        /* the logical stream is unchanged: its first L' bits are now all in read_in */            \
        __CPROVER_ensures(state->read_in_length >= 0 ==>                                           \
                          LOWBITS(state->read_in, state->read_in_length) ==                        \
                                  LOWBITS(__CPROVER_old(STREAM64(state)), state->read_in_length))  \
        /* maximal refill */                                                                       \
        __CPROVER_ensures(state->read_in_length >= 57 || state->avail_in == 0)
#define L_inflate_in_load_1                                                                        \
        __CPROVER_assigns(temp, state->read_in, state->read_in_length, state->next_in,             \
                          state->avail_in)                                                         \
        __CPROVER_loop_invariant(state->read_in_length >= 0 && state->read_in_length <= 64 &&      \
                                 state->read_in_length % 8 == in_l0__ % 8 &&                       \
                                 state->read_in_length >= in_l0__ &&                               \
                                 state->avail_in <= in_a0__ &&                                     \
                                 8 * (int64_t) (in_a0__ - state->avail_in) ==                      \
                                         (int64_t) state->read_in_length - in_l0__ &&              \
                                 state->next_in == in_p0__ + (in_a0__ - state->avail_in) &&        \
                                 LOWBITS(state->read_in, state->read_in_length) ==                 \
                                         LOWBITS(in_s0__, state->read_in_length) &&                \
                                 WF_inflate_garbage(state))                                        \
        __CPROVER_decreases(64 - state->read_in_length)
#define E_inflate_in_load                                                                          \
        int32_t in_l0__ = state->read_in_length;                                                   \
        uint32_t in_a0__ = state->avail_in;                                                        \
        uint8_t *in_p0__ = state->next_in;                                                         \
        uint64_t in_s0__ = STREAM64(state);
#define H_inflate_in_load_1 VCANARY();

/* inflate_in_read_bits_unsafe: takes bit_count bits off the accumulator, LSB first; the length may go
 * negative (the caller's out-of-input signal).  bit_count <= 30: the mask is computed in int. */
#define C_inflate_in_read_bits_unsafe                                                              \
        __CPROVER_requires(INF_FRESH_STATE(state))                                                 \
        __CPROVER_requires(bit_count <= 30 && state->read_in_length >= -1000 &&                    \
                           state->read_in_length <= 64 && g_n == bit_count)                        \
        __CPROVER_assigns(state->read_in, state->read_in_length)                                   \
        __CPROVER_ensures(__CPROVER_return_value == LOWBITS(__CPROVER_old(state->read_in), g_n))   \
        __CPROVER_ensures(state->read_in == SHR64(__CPROVER_old(state->read_in), g_n))             \
        __CPROVER_ensures(state->read_in_length == __CPROVER_old(state->read_in_length) - (int) g_n)

/* inflate_in_read_bits = load + take.  n <= 30.
 *   enough bits in the logical stream (L + 8*avail_in >= n):  returns its first n bits, the logical
 *        stream afterwards is the old one without those n bits, L' >= 0;
 *   not enough: L' < 0 and avail_in' == 0 (signal), never reads past avail_in. */
#define C_inflate_in_read_bits                                                                     \
        __CPROVER_requires(INF_FRESH_STATE(state) && INF_FRESH_IN(state))                          \
        __CPROVER_requires(WF_inflate_bits(state) && bit_count <= 30 && g_n == bit_count)          \
        __CPROVER_assigns(state->read_in, state->read_in_length, state->next_in, state->avail_in)  \
        __CPROVER_ensures(WF_inflate_len(state))                                                   \
        __CPROVER_ensures(state->avail_in <= __CPROVER_old(state->avail_in) &&                     \
                          state->next_in == __CPROVER_old(state->next_in) +                        \
                                                    (__CPROVER_old(state->avail_in) - state->avail_in)) \
        /* bit accounting: consumed bytes*8 + old length - n == new length */                      \
        __CPROVER_ensures((int64_t) state->read_in_length ==                                       \
                          (int64_t) __CPROVER_old(state->read_in_length) - (int64_t) g_n +         \
                                  8 * (int64_t) (__CPROVER_old(state->avail_in) - state->avail_in)) \
        __CPROVER_ensures((__CPROVER_old(STREAM_BITS(state)) >= (int64_t) g_n) ==>                 \
                          (state->read_in_length >= 0 &&                                           \
                           __CPROVER_return_value == LOWBITS(__CPROVER_old(STREAM64(state)), g_n) && \
                           LOWBITS(state->read_in, state->read_in_length) ==                       \
                                   LOWBITS(SHR64(__CPROVER_old(STREAM64(state)), g_n),             \
                                           state->read_in_length) &&                               \
                           WF_inflate_garbage(state)))                                             \
        __CPROVER_ensures((__CPROVER_old(STREAM_BITS(state)) < (int64_t) g_n) ==>                  \
                          (state->read_in_length < 0 && state->avail_in == 0))
#endif /* INF_BITS */

#endif
