/* Contracts for the LZ77 side of the igzip compressor (properties C17, C01, C18):
 *   igzip/igzip.c          set_dist_mask, set_hash_mask, isal_deflate_set_hufftables,
 *                          isal_deflate_set_dict, isal_deflate_process_dict, isal_deflate_reset_dict
 *   igzip/igzip_icf_base.c write_deflate_icf
 *   igzip/igzip_icf_body.c write_deflate_icf (store_native_u32 variant)
 *   igzip/encode_df.c      encode_deflate_icf_base
 * Each harness TU selects the group it needs with LZ_* defines (a contract macro without an anchor in the
 * spliced sources is an extraction error). */
#ifndef IGZIP_LZ_H
#define IGZIP_LZ_H
#include "verif_common.h"
#include "spec_deflate_rfc.h"

#define LZ_ST stream->internal_state

#ifdef LZ_IGZIP_C
/* ------------------------------------------------------------------------------------------------
 * set_dist_mask: window request hist_bits = w -> dist_mask = 2^w - 1, clamped to the build window;
 * w outside 1..15 (incl. 0 = default) selects 15.  C17: candidate distances are filtered by
 * dist - 1 < dist_mask, hence dist <= dist_mask <= 32767 < 2^w.
 * ---------------------------------------------------------------------------------------------- */
#define SDM_W(hb) (((hb) == 0 || (hb) > ISAL_DEF_MAX_HIST_BITS) ? ISAL_DEF_MAX_HIST_BITS : (hb))
#define SDM_OLDW SDM_W(__CPROVER_old(stream->hist_bits))
#define C_set_dist_mask                                                                            \
        __CPROVER_requires(__CPROVER_is_fresh(stream, sizeof(*stream)))                            \
        __CPROVER_assigns(stream->hist_bits, LZ_ST.dist_mask)                                      \
        __CPROVER_ensures(stream->hist_bits == SDM_OLDW)                                           \
        __CPROVER_ensures(LZ_ST.dist_mask ==                                                       \
                          (((1u << SDM_OLDW) - 1 > IGZIP_HIST_SIZE - 1) ? IGZIP_HIST_SIZE - 1      \
                                                                        : (1u << SDM_OLDW) - 1))   \
        __CPROVER_ensures(LZ_ST.dist_mask + 1 <= 32768 && LZ_ST.dist_mask + 1 <= (1u << stream->hist_bits) && \
                          LZ_ST.dist_mask + 1 <= IGZIP_HIST_SIZE)

/* set_hash_mask: mask = (number of hash heads of the level) - 1, so that hash & mask indexes the table */
#define C_set_hash_mask                                                                            \
        __CPROVER_requires(__CPROVER_is_fresh(stream, sizeof(*stream)))                            \
        __CPROVER_assigns(LZ_ST.hash_mask)                                                         \
        __CPROVER_ensures(stream->level == 0 ==> LZ_ST.hash_mask == IGZIP_LVL0_HASH_SIZE - 1)      \
        __CPROVER_ensures(stream->level == 1 ==> LZ_ST.hash_mask == IGZIP_LVL1_HASH_SIZE - 1)      \
        __CPROVER_ensures(stream->level == 2 ==> LZ_ST.hash_mask == IGZIP_LVL2_HASH_SIZE - 1)      \
        __CPROVER_ensures(stream->level == 3 ==> LZ_ST.hash_mask == IGZIP_LVL3_HASH_SIZE - 1)      \
        __CPROVER_ensures(stream->level > 3 ==> LZ_ST.hash_mask == __CPROVER_old(LZ_ST.hash_mask))

/* ------------------------------------------------------------------------------------------------
 * isal_deflate_set_hufftables (C18): refused while a block is open (state != ZSTATE_NEW_HDR) and for
 * an unknown type / a NULL custom table, without touching the stream; otherwise exactly the
 * hufftables pointer is replaced (custom table / library default / library static table).
 * ---------------------------------------------------------------------------------------------- */
#define SHT_OK                                                                                     \
        (LZ_ST.state == ZSTATE_NEW_HDR &&                                                          \
         (type == IGZIP_HUFFTABLE_DEFAULT || type == IGZIP_HUFFTABLE_STATIC ||                     \
          (type == IGZIP_HUFFTABLE_CUSTOM && hufftables != NULL)))
#define C_isal_deflate_set_hufftables                                                              \
        __CPROVER_requires(__CPROVER_is_fresh(stream, sizeof(*stream)))                            \
        __CPROVER_assigns(SHT_OK : stream->hufftables)                                             \
        __CPROVER_ensures(!SHT_OK ==> (__CPROVER_return_value == ISAL_INVALID_OPERATION &&         \
                                       stream->hufftables == __CPROVER_old(stream->hufftables)))   \
        __CPROVER_ensures(SHT_OK ==> __CPROVER_return_value == COMP_OK)                            \
        __CPROVER_ensures((SHT_OK && type == IGZIP_HUFFTABLE_CUSTOM) ==> stream->hufftables == hufftables) \
        __CPROVER_ensures((SHT_OK && type == IGZIP_HUFFTABLE_DEFAULT) ==>                          \
                          stream->hufftables == (struct isal_hufftables *) &hufftables_default)    \
        __CPROVER_ensures((SHT_OK && type == IGZIP_HUFFTABLE_STATIC) ==>                           \
                          stream->hufftables == (struct isal_hufftables *) &hufftables_static)

/* ------------------------------------------------------------------------------------------------
 * Dictionary functions (C17).  memcpy is the recorded model lz_memcpy of stubs_huff.h: call k's
 * (dst, src, n) are in w_mc_dst[k], w_mc_src[k], w_mc_n[k]; the byte at ghost position g_m0 is really copied.
 * Entry-state predicates are tied to ghost scalars (g_ok, g_bad, g_lvlerr, g_sdn) because __CPROVER_old
 * cannot track || expressions and assigns targets/conditions may not contain ?:.
 * ---------------------------------------------------------------------------------------------- */
extern uint32_t g_di;  /* ghost byte index into the history */
extern uint32_t g_sdn; /* ghost copy of min(dict_len, IGZIP_HIST_SIZE) */
extern int g_ok, g_bad, g_lvlerr;
extern size_t g_m0;
extern void *w_mc_dst[2];
extern const void *w_mc_src[2];
extern size_t w_mc_n[2];
extern uint32_t w_mc_calls;
/* byte-level postconditions need the ghost-position copy of lz_memcpy; a symbolic-index write into the 64 KiB
 * buffer inside struct isal_zstream does not close within the quick budget, so the registered harnesses
 * use -DLZ_MEMCPY_NO_DATA: the copy is then characterised by its recorded (dst, src, n) only */
#ifdef LZ_MEMCPY_NO_DATA
#define LZ_DATA_ENSURES(c)
#else
#define LZ_DATA_ENSURES(c) __CPROVER_ensures(c)
#endif
#define MC_GHOSTS w_mc_dst[0], w_mc_dst[1], w_mc_src[0], w_mc_src[1], w_mc_n[0], w_mc_n[1], w_mc_calls

/* isal_deflate_set_dict: refused (ISAL_INVALID_STATE, nothing written, no copy) unless the stream is between
 * blocks with an empty internal buffer; otherwise exactly one copy of exactly the last
 * min(dict_len, IGZIP_HIST_SIZE) dictionary bytes to the start of the history buffer, and the bookkeeping
 * says so.  dict_len == 0: COMP_OK, no change. */
#define SD_STATE_OK (LZ_ST.state == ZSTATE_NEW_HDR && LZ_ST.b_bytes_processed == LZ_ST.b_bytes_valid)
#define SD_N (dict_len > IGZIP_HIST_SIZE ? (uint32_t) IGZIP_HIST_SIZE : dict_len)
#define C_isal_deflate_set_dict                                                                    \
        __CPROVER_requires(__CPROVER_is_fresh(stream, sizeof(*stream)))                            \
        __CPROVER_requires(__CPROVER_is_fresh(dict, dict_len))                                     \
        __CPROVER_requires(g_sdn == SD_N && g_ok == ((SD_STATE_OK) ? 1 : 0) && g_m0 == g_di && w_mc_calls == 0) \
        __CPROVER_assigns(SD_STATE_OK && dict_len > 0 : __CPROVER_object_upto(LZ_ST.buffer, g_sdn), \
                          LZ_ST.b_bytes_processed, LZ_ST.b_bytes_valid, LZ_ST.has_hist)            \
        __CPROVER_assigns(MC_GHOSTS)                                                               \
        __CPROVER_ensures(__CPROVER_return_value == (g_ok ? COMP_OK : ISAL_INVALID_STATE))         \
        __CPROVER_ensures(!(g_ok && dict_len > 0) ==> w_mc_calls == 0)                             \
        __CPROVER_ensures((g_ok && dict_len > 0) ==>                                               \
                          (LZ_ST.b_bytes_processed == SD_N && LZ_ST.b_bytes_valid == SD_N &&       \
                           LZ_ST.has_hist == IGZIP_DICT_HIST && w_mc_calls == 1 &&                 \
                           w_mc_dst[0] == LZ_ST.buffer && w_mc_src[0] == dict + (dict_len - SD_N) && \
                           w_mc_n[0] == SD_N))                                                     \
        LZ_DATA_ENSURES((g_ok && dict_len > 0 && g_di < SD_N) ==>                                  \
                        LZ_ST.buffer[g_di] == dict[dict_len - SD_N + g_di])

/* isal_deflate_process_dict.  Documented behaviour (igzip_lib.h): stream->level must be set; the last
 * min(dict_len, IGZIP_HIST_SIZE) bytes are kept.  Refusal (nothing written, no copy, no hashing) iff
 * dict_str == NULL, dict_len == 0 or stream->level is not a level (the pinned tree tested dict->level, the
 * OUTPUT structure, before writing it: finding C17-process-dict-level, repaired by a fix: commit).
 * Otherwise: one copy of exactly the tail into dict->history; level/hist_size/hash_size recorded; EVERY hash
 * head is 0xffff when the level's hash routine is entered (precondition of the stub, checked); that routine
 * is called exactly once on (dict->hashtable, mask of the level, index 0, the copied tail, its length). */
extern uint16_t *w_h_table;
extern uint8_t *w_h_dict;
extern uint32_t w_h_mask, w_h_index, w_h_len, w_h_lvl, w_h_calls;
extern uint32_t g_hi; /* ghost hash-head index */
#define PD_ERR (dict == NULL || dict_len == 0 || stream->level > ISAL_DEF_MAX_LEVEL)
#define PD_HSIZE                                                                                   \
        (stream->level == 3   ? (uint32_t) IGZIP_LVL3_HASH_SIZE                                    \
         : stream->level == 2 ? (uint32_t) IGZIP_LVL2_HASH_SIZE                                    \
         : stream->level == 1 ? (uint32_t) IGZIP_LVL1_HASH_SIZE                                    \
                              : (uint32_t) IGZIP_LVL0_HASH_SIZE)
#define C_isal_deflate_process_dict                                                                \
        __CPROVER_requires(__CPROVER_is_fresh(stream, sizeof(*stream)))                            \
        __CPROVER_requires(dict == NULL || __CPROVER_is_fresh(dict, sizeof(*dict)))                \
        __CPROVER_requires(__CPROVER_is_fresh(dict_data, dict_len))                                \
        __CPROVER_requires(w_h_calls == 0 && w_mc_calls == 0 && g_m0 == g_di)                      \
        __CPROVER_assigns(!PD_ERR : __CPROVER_object_whole(dict))                                  \
        __CPROVER_assigns(w_h_table, w_h_dict, w_h_mask, w_h_index, w_h_len, w_h_lvl, w_h_calls, MC_GHOSTS) \
        __CPROVER_ensures(__CPROVER_return_value == (PD_ERR ? ISAL_INVALID_STATE : COMP_OK))       \
        __CPROVER_ensures(PD_ERR ==> (w_h_calls == 0 && w_mc_calls == 0))                          \
        __CPROVER_ensures(!PD_ERR ==> (dict->level == stream->level && dict->hist_size == SD_N &&  \
                                       dict->hash_size == PD_HSIZE))                               \
        __CPROVER_ensures(!PD_ERR ==> (w_mc_calls == 1 && w_mc_dst[0] == dict->history &&          \
                                       w_mc_src[0] == dict_data + (dict_len - SD_N) && w_mc_n[0] == SD_N)) \
        LZ_DATA_ENSURES((!PD_ERR && g_di < SD_N) ==>                                               \
                        dict->history[g_di] == dict_data[dict_len - SD_N + g_di])                  \
        __CPROVER_ensures(!PD_ERR ==> (w_h_calls == 1 && w_h_lvl == stream->level &&               \
                                       w_h_table == dict->hashtable && w_h_mask == PD_HSIZE - 1 && \
                                       w_h_index == 0 && w_h_dict == dict_data + (dict_len - SD_N) && \
                                       w_h_len == SD_N))

/* isal_deflate_reset_dict: refused without side effects in a wrong state, for a dictionary processed at
 * another level or with inconsistent sizes, and when the level buffer is missing / too small
 * (check_level_req's code); otherwise exactly two copies: hist_size history bytes to the start of the
 * internal buffer, and the complete hash table of the level from dict->hashtable; bookkeeping set.
 * The frame names exactly those objects: dist_mask, hash_mask and hist_bits are NOT in it. */
#define RD_BAD                                                                                     \
        (LZ_ST.state != ZSTATE_NEW_HDR || LZ_ST.b_bytes_processed != LZ_ST.b_bytes_valid ||        \
         dict->level != stream->level || dict->hist_size == 0 || dict->hist_size > IGZIP_HIST_SIZE || \
         dict->hash_size > IGZIP_LVL3_HASH_SIZE)
#define RD_LVLERR                                                                                  \
        (stream->level == 0          ? 0                                                           \
         : stream->level_buf == NULL ? ISAL_INVALID_LEVEL_BUF                                      \
         : stream->level > 3         ? ISAL_INVALID_LEVEL                                          \
         : (stream->level == 1 && stream->level_buf_size < ISAL_DEF_LVL1_MIN) ? ISAL_INVALID_LEVEL \
         : (stream->level == 2 && stream->level_buf_size < ISAL_DEF_LVL2_MIN) ? ISAL_INVALID_LEVEL \
         : (stream->level == 3 && stream->level_buf_size < ISAL_DEF_LVL3_MIN) ? ISAL_INVALID_LEVEL \
                                                                              : 0)
#define RD_LVLOK                                                                                   \
        (stream->level == 0 ||                                                                     \
         (stream->level_buf != NULL && stream->level <= 3 &&                                       \
          !(stream->level == 1 && stream->level_buf_size < ISAL_DEF_LVL1_MIN) &&                   \
          !(stream->level == 2 && stream->level_buf_size < ISAL_DEF_LVL2_MIN) &&                   \
          !(stream->level == 3 && stream->level_buf_size < ISAL_DEF_LVL3_MIN)))
#define RD_GO (!RD_BAD && RD_LVLOK)
#define RD_LB ((struct level_buf *) stream->level_buf)
#define RD_TABLE                                                                                   \
        (stream->level == 3   ? (void *) RD_LB->lvl3.hash_table                                    \
         : stream->level == 2 ? (void *) RD_LB->lvl2.hash_table                                    \
         : stream->level == 1 ? (void *) RD_LB->lvl1.hash_table                                    \
                              : (void *) LZ_ST.head)
#define RD_TABLE_BYTES (2u * (size_t) PD_HSIZE)
#define C_isal_deflate_reset_dict                                                                  \
        __CPROVER_requires(__CPROVER_is_fresh(stream, sizeof(*stream)))                            \
        __CPROVER_requires(__CPROVER_is_fresh(dict, sizeof(*dict)))                                \
        __CPROVER_requires(stream->level_buf == NULL ||                                            \
                           __CPROVER_is_fresh(stream->level_buf, stream->level_buf_size))          \
        __CPROVER_requires(g_bad == ((RD_BAD) ? 1 : 0) && g_lvlerr == (RD_LVLERR))                 \
        __CPROVER_requires(g_ok == ((RD_GO) ? 1 : 0) && w_mc_calls == 0 && g_m0 == g_di)           \
        __CPROVER_assigns(RD_GO : __CPROVER_object_upto(LZ_ST.buffer, dict->hist_size),            \
                          LZ_ST.b_bytes_processed, LZ_ST.b_bytes_valid, LZ_ST.has_hist)            \
        __CPROVER_assigns(RD_GO && stream->level == 0 : __CPROVER_object_upto((uint8_t *) LZ_ST.head, sizeof(LZ_ST.head))) \
        __CPROVER_assigns(RD_GO && stream->level != 0 : __CPROVER_object_whole(stream->level_buf)) \
        __CPROVER_assigns(MC_GHOSTS)                                                               \
        __CPROVER_ensures(__CPROVER_return_value == (g_bad ? ISAL_INVALID_STATE : g_lvlerr))       \
        __CPROVER_ensures(g_ok == (!g_bad && g_lvlerr == 0))                                       \
        __CPROVER_ensures(!g_ok ==> w_mc_calls == 0)                                               \
        __CPROVER_ensures(g_ok ==> (LZ_ST.b_bytes_processed == dict->hist_size &&                  \
                                    LZ_ST.b_bytes_valid == dict->hist_size &&                      \
                                    LZ_ST.has_hist == IGZIP_DICT_HASH_SET))                        \
        LZ_DATA_ENSURES((g_ok && g_di < dict->hist_size) ==> LZ_ST.buffer[g_di] == dict->history[g_di]) \
        __CPROVER_ensures(g_ok ==> (w_mc_calls == 2 && w_mc_dst[0] == LZ_ST.buffer &&              \
                                    w_mc_src[0] == dict->history && w_mc_n[0] == dict->hist_size && \
                                    w_mc_dst[1] == RD_TABLE && w_mc_src[1] == dict->hashtable &&   \
                                    w_mc_n[1] == RD_TABLE_BYTES))
#endif /* LZ_IGZIP_C */

#if defined(LZ_ICF_BASE) || defined(LZ_ICF_BODY)
/* ------------------------------------------------------------------------------------------------
 * write_deflate_icf (both variants: bit-field stores in igzip_icf_base.c, one packed 32-bit store in
 * igzip_icf_body.c): the three fields of struct deflate_icf (encode_df.h: lit_len 10 bits, lit_dist 9 bits,
 * dist_extra 13 bits) read back the three arguments; exactly the 4 bytes of *icf are written.
 * ---------------------------------------------------------------------------------------------- */
#define C_write_deflate_icf                                                                        \
        __CPROVER_requires(__CPROVER_is_fresh(icf, sizeof(struct deflate_icf)))                    \
        __CPROVER_requires(lit_len < (1u << LIT_LEN_BIT_COUNT) && lit_dist < (1u << DIST_LIT_BIT_COUNT) && \
                           extra_bits < (1u << (ICF_CODE_LEN - DIST_LIT_BIT_COUNT - ICF_DIST_OFFSET))) \
        __CPROVER_assigns(__CPROVER_object_upto((uint8_t *) icf, 4))                               \
        __CPROVER_ensures(icf->lit_len == lit_len && icf->lit_dist == lit_dist && icf->dist_extra == extra_bits)
#endif

#ifdef LZ_ENCODE_DF
/* ------------------------------------------------------------------------------------------------
 * encode_deflate_icf_base (C01): per token, the Huffman code of the lit/len field (with its extra bits
 * already merged by expand_hufftables_icf: code_and_extra, `length` bits), then the code of the distance
 * field (`length` bits), then the token's dist_extra (`extra_bit_count` bits) are appended, in that order,
 * LSB first, to the bit string (pending bits m_bits/m_bit_count, flushed whole bytes at m_out_buf).
 * Stops at end_in or as soon as the buffer is full (m_out_buf > m_out_end); the 8-byte stores stay inside
 * [m_out_start, m_out_end + 8) -- the output object is exactly that large; returns the first
 * unprocessed token.
 * The per-token statement is the loop invariant: the ghost hook at the top of the body snapshots the state
 * and computes the expected 64-bit window w_e_word from the token and the table entries (this is the
 * specification of "appended in that order"); after the body the state must be that window advanced by
 * the whole bytes, and the eight bytes at the old write position must hold the window.
 * Well-formed table (requires, constant-range quantifiers): code < 2^length, lit/len length+extra <= 20,
 * distance code length <= 15, extra_bit_count <= 13 (RFC maxima: 15+5, 15, 13 -- at most 48 bits per token
 * on top of at most 7 pending bits).  Well-formed tokens: indices inside the tables, dist_extra below
 * 2^extra_bit_count; stated for EN_MAXTOK tokens (parameter bound, see reg file).
 * ---------------------------------------------------------------------------------------------- */
extern uint64_t g_ntok, g_osize;
/* -DEN_OSIZE=n fixes the size of the output object (cheaper quick variant); default: any size 8..EN_MAXOUT */
#ifdef EN_OSIZE
#define EN_OS ((uint64_t) EN_OSIZE)
#else
#define EN_OS g_osize
#endif
extern uint64_t w_e_bits, w_e_word;
extern uint32_t w_e_cnt, w_e_len;
extern uint8_t *w_e_out;
extern struct deflate_icf *w_e_first; /* next_in at entry (snapshot by assignment in the E_ hook) */
#ifndef EN_MAXTOK
#define EN_MAXTOK 4
#endif
#define EN_MAXOUT 0x1000000
#define EN_LL(i) hufftables->lit_len_table[i]
#define EN_DL(i) hufftables->dist_lit_table[i]
#define EN_TOK_OK(i)                                                                               \
        ((i) >= g_ntok ||                                                                          \
         (next_in[i].lit_len < 513 && next_in[i].lit_dist < 288 &&                                 \
          next_in[i].dist_extra < (1u << EN_DL(next_in[i].lit_dist < 288 ? next_in[i].lit_dist : 0).extra_bit_count)))
#define EN_OFF(p) __CPROVER_POINTER_OFFSET(p)
#define C_encode_deflate_icf_base                                                                  \
        __CPROVER_requires(__CPROVER_is_fresh(hufftables, sizeof(*hufftables)))                    \
        __CPROVER_requires(g_ntok <= EN_MAXTOK && __CPROVER_is_fresh(next_in, g_ntok * sizeof(struct deflate_icf))) \
        __CPROVER_requires(end_in == next_in + g_ntok)                                             \
        __CPROVER_requires(__CPROVER_is_fresh(bb, sizeof(*bb)))                                    \
        __CPROVER_requires(8 <= EN_OS && EN_OS <= EN_MAXOUT && __CPROVER_is_fresh(bb->m_out_start, EN_OS)) \
        __CPROVER_requires(bb->m_out_end == bb->m_out_start + (EN_OS - 8))                       \
        __CPROVER_requires(__CPROVER_same_object(bb->m_out_buf, bb->m_out_start) &&                \
                           EN_OFF(bb->m_out_buf) <= EN_OS)                                       \
        __CPROVER_requires(bb->m_bit_count <= 7 && (bb->m_bits >> bb->m_bit_count) == 0)           \
        __CPROVER_requires(__CPROVER_forall {                                                      \
                unsigned i_;                                                                       \
                (i_ < 513) ==> (EN_LL(i_).length <= 20 && EN_LL(i_).code_and_extra < (1u << EN_LL(i_).length)) \
        })                                                                                         \
        __CPROVER_requires(__CPROVER_forall {                                                      \
                unsigned j_;                                                                       \
                (j_ < 288) ==> (EN_DL(j_).length <= 15 && EN_DL(j_).code < (1u << EN_DL(j_).length) && \
                                EN_DL(j_).extra_bit_count <= 13)                                   \
        })                                                                                         \
        __CPROVER_requires(EN_TOK_OK(0) && EN_TOK_OK(1) && EN_TOK_OK(2) && EN_TOK_OK(3))           \
        __CPROVER_assigns(bb->m_bits, bb->m_bit_count, bb->m_out_buf, __CPROVER_object_whole(bb->m_out_start), \
                          w_e_bits, w_e_word, w_e_cnt, w_e_len, w_e_out, w_e_first)                \
        __CPROVER_ensures(__CPROVER_same_object(__CPROVER_return_value, next_in) &&                \
                          EN_OFF(next_in) <= EN_OFF(__CPROVER_return_value) &&                     \
                          EN_OFF(__CPROVER_return_value) <= EN_OFF(end_in) &&                      \
                          ((EN_OFF(__CPROVER_return_value) - EN_OFF(next_in)) & 3) == 0)           \
        __CPROVER_ensures(__CPROVER_return_value == end_in || bb->m_out_buf > bb->m_out_end)       \
        __CPROVER_ensures(bb->m_bit_count <= 7 && (bb->m_bits >> bb->m_bit_count) == 0)            \
        __CPROVER_ensures(__CPROVER_same_object(bb->m_out_buf, bb->m_out_start) &&                 \
                          EN_OFF(bb->m_out_buf) >= EN_OFF(__CPROVER_old(bb->m_out_buf)) &&         \
                          EN_OFF(bb->m_out_buf) <= EN_OS)                                        \
        /* the last token consumed left exactly its window behind (w_e_*: snapshot of its iteration) */ \
        __CPROVER_ensures(__CPROVER_return_value != next_in ==>                                    \
                          (EN_OFF(bb->m_out_buf) == EN_OFF(w_e_out) + EN_K &&                      \
                           bb->m_bit_count == ((w_e_cnt + w_e_len) & 7) EN_BITS_INV))              \
        /* nothing consumed ==> nothing produced */                                                \
        __CPROVER_ensures(__CPROVER_return_value == next_in ==>                                    \
                          (bb->m_out_buf == __CPROVER_old(bb->m_out_buf) &&                        \
                           bb->m_bits == __CPROVER_old(bb->m_bits) &&                              \
                           bb->m_bit_count == __CPROVER_old(bb->m_bit_count)))
#define EN_K ((w_e_cnt + w_e_len) >> 3)
/* -DEN_NO_BITS drops the conjunct "pending bits == expected window >> whole bytes" (quick structural variant:
 * positions, bit count, memory safety, termination; the equivalence of the two 64-bit shift/or chains is what
 * costs the solver minutes) */
#ifdef EN_NO_BITS
#define EN_BITS_INV
#else
#define EN_BITS_INV &&bb->m_bits == (w_e_word >> (8 * EN_K))
#endif
/* -DEN_BYTES adds: the eight bytes at the old write position hold the expected window (thorough tier) */
#ifdef EN_BYTES
#define EN_BYTES_INV                                                                               \
        &&w_e_out[0] == (uint8_t) w_e_word && w_e_out[1] == (uint8_t) (w_e_word >> 8) &&           \
                w_e_out[2] == (uint8_t) (w_e_word >> 16) && w_e_out[3] == (uint8_t) (w_e_word >> 24) && \
                w_e_out[4] == (uint8_t) (w_e_word >> 32) && w_e_out[5] == (uint8_t) (w_e_word >> 40) && \
                w_e_out[6] == (uint8_t) (w_e_word >> 48) && w_e_out[7] == (uint8_t) (w_e_word >> 56)
#else
#define EN_BYTES_INV
#endif
#define L_encode_deflate_icf_base_1                                                                \
        __CPROVER_assigns(next_in, lsym, dsym, bb->m_bits, bb->m_bit_count, bb->m_out_buf,         \
                          __CPROVER_object_whole(bb->m_out_start), w_e_bits, w_e_word, w_e_cnt, w_e_len, w_e_out) \
        __CPROVER_loop_invariant(                                                                  \
                __CPROVER_same_object(next_in, __CPROVER_loop_entry(next_in)) &&                   \
                EN_OFF(__CPROVER_loop_entry(next_in)) <= EN_OFF(next_in) && EN_OFF(next_in) <= EN_OFF(end_in) && \
                ((EN_OFF(next_in) - EN_OFF(__CPROVER_loop_entry(next_in))) & 3) == 0 &&            \
                bb->m_bit_count <= 7 && (bb->m_bits >> bb->m_bit_count) == 0 &&                    \
                __CPROVER_same_object(bb->m_out_buf, bb->m_out_start) &&                           \
                EN_OFF(bb->m_out_buf) >= EN_OFF(__CPROVER_loop_entry(bb->m_out_buf)) &&            \
                EN_OFF(bb->m_out_buf) <= EN_OS &&                                                \
                (next_in == __CPROVER_loop_entry(next_in) ==>                                      \
                 (bb->m_out_buf == __CPROVER_loop_entry(bb->m_out_buf) &&                          \
                  bb->m_bits == __CPROVER_loop_entry(bb->m_bits) &&                                \
                  bb->m_bit_count == __CPROVER_loop_entry(bb->m_bit_count))) &&                    \
                (next_in != __CPROVER_loop_entry(next_in) ==>                                      \
                 (w_e_cnt <= 7 && w_e_len <= 48 && __CPROVER_same_object(w_e_out, bb->m_out_start) && \
                  EN_OFF(w_e_out) + 8 <= EN_OS && EN_OFF(bb->m_out_buf) == EN_OFF(w_e_out) + EN_K && \
                  bb->m_bit_count == ((w_e_cnt + w_e_len) & 7) EN_BITS_INV                       \
                  EN_BYTES_INV)))                                                                  \
        __CPROVER_decreases(EN_OFF(end_in) - EN_OFF(next_in))
#define E_encode_deflate_icf_base w_e_first = next_in;
#define H_encode_deflate_icf_base_1                                                                \
        {                                                                                          \
                struct huff_code l__ = EN_LL(next_in->lit_len), d__ = EN_DL(next_in->lit_dist);    \
                /* previous token (needed when the loop is unwound instead of abstracted by its invariant) */ \
                __CPROVER_assert(next_in == w_e_first ||                                           \
                                         (EN_OFF(bb->m_out_buf) == EN_OFF(w_e_out) + EN_K &&       \
                                          bb->m_bit_count == ((w_e_cnt + w_e_len) & 7) EN_BITS_INV), \
                                 "previous token left exactly its window behind");                 \
                w_e_bits = bb->m_bits;                                                             \
                w_e_cnt = bb->m_bit_count;                                                         \
                w_e_out = bb->m_out_buf;                                                           \
                w_e_len = (uint32_t) l__.length + d__.length + d__.extra_bit_count;                \
                w_e_word = bb->m_bits | ((uint64_t) l__.code_and_extra << w_e_cnt) |               \
                           ((uint64_t) d__.code << (w_e_cnt + l__.length)) |                       \
                           ((uint64_t) next_in->dist_extra << (w_e_cnt + l__.length + d__.length)); \
                VCANARY();                                                                         \
        }
#endif


#endif
