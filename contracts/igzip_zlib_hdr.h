/* Contracts for the zlib wrapper header writer in igzip/igzip.c (property C19), from RFC 1950:
 *   CMF = CINFO<<4 | CM(8);  FLG = FLEVEL<<6 | FDICT<<5 | FCHECK, (CMF*256+FLG) % 31 == 0;
 *   if FDICT: DICTID follows, most-significant byte first. */
#ifndef IGZIP_ZLIB_HDR_H
#define IGZIP_ZLIB_HDR_H
#include "verif_common.h"

/* witness ghosts (entry values, captured by the E_ hook) for the native replay; g_zo: arbitrary byte
 * index in the output buffer, w_zold: next_out[g_zo] at entry (frame clauses) */
extern uint32_t w_info, w_level, w_dict_flag, w_dict_id, w_avail_out;
extern size_t g_zo;
extern uint8_t w_zold;
#define E_isal_write_zlib_header                                                                   \
        w_info = z_hdr->info;                                                                      \
        w_level = z_hdr->level;                                                                    \
        w_dict_flag = z_hdr->dict_flag;                                                            \
        w_dict_id = z_hdr->dict_id;                                                                \
        w_avail_out = stream->avail_out;                                                           \
        w_zold = g_zo < stream->avail_out ? stream->next_out[g_zo] : 0;

#define ZH_NEED (z_hdr->dict_flag ? 6u : 2u)
#define ZH_OUT __CPROVER_old(stream->next_out)
#define C_isal_write_zlib_header                                                                   \
        __CPROVER_requires(__CPROVER_is_fresh(stream, sizeof(*stream)))                            \
        __CPROVER_requires(__CPROVER_is_fresh(z_hdr, sizeof(*z_hdr)))                              \
        __CPROVER_requires(z_hdr->info <= 7 && z_hdr->level <= 3)                                  \
        __CPROVER_requires(__CPROVER_is_fresh(stream->next_out, stream->avail_out))                \
        __CPROVER_assigns(stream->next_out, stream->avail_out, stream->total_out,                  \
                          __CPROVER_object_whole(stream->next_out))                                \
        __CPROVER_assigns(w_info, w_level, w_dict_flag, w_dict_id, w_avail_out, w_zold)            \
        /* bytes outside the header (all bytes, when there is no room) keep their value */         \
        __CPROVER_ensures((g_zo < __CPROVER_old(stream->avail_out) &&                              \
                           (__CPROVER_old(stream->avail_out) < ZH_NEED || g_zo >= ZH_NEED)) ==>    \
                          ZH_OUT[g_zo] == w_zold)                                                  \
        /* too small: report the size needed, touch nothing */                                     \
        __CPROVER_ensures((__CPROVER_old(stream->avail_out) < ZH_NEED) ==>                         \
                          (__CPROVER_return_value == ZH_NEED &&                                    \
                           stream->next_out == __CPROVER_old(stream->next_out) &&                  \
                           stream->avail_out == __CPROVER_old(stream->avail_out) &&                \
                           stream->total_out == __CPROVER_old(stream->total_out)))                 \
        /* enough space: exact RFC 1950 layout, counters advance by exactly the header size */     \
        __CPROVER_ensures((__CPROVER_old(stream->avail_out) >= ZH_NEED) ==>                        \
                          (__CPROVER_return_value == 0 &&                                          \
                           stream->next_out == __CPROVER_old(stream->next_out) + ZH_NEED &&        \
                           stream->avail_out == __CPROVER_old(stream->avail_out) - ZH_NEED &&      \
                           stream->total_out == __CPROVER_old(stream->total_out) + ZH_NEED))       \
        __CPROVER_ensures((__CPROVER_old(stream->avail_out) >= ZH_NEED) ==>                        \
                          ((ZH_OUT[0] & 0xf) == 8 && (ZH_OUT[0] >> 4) == z_hdr->info &&            \
                           ((ZH_OUT[0] * 256 + ZH_OUT[1]) % 31) == 0 &&                            \
                           (ZH_OUT[1] >> 6) == z_hdr->level &&                                     \
                           (((ZH_OUT[1] >> 5) & 1) == (z_hdr->dict_flag ? 1 : 0))))                \
        __CPROVER_ensures((__CPROVER_old(stream->avail_out) >= 6u && z_hdr->dict_flag) ==>         \
                          (ZH_OUT[2] == (uint8_t) (z_hdr->dict_id >> 24) &&                        \
                           ZH_OUT[3] == (uint8_t) (z_hdr->dict_id >> 16) &&                        \
                           ZH_OUT[4] == (uint8_t) (z_hdr->dict_id >> 8) &&                         \
                           ZH_OUT[5] == (uint8_t) (z_hdr->dict_id)))
#endif
