/* Contracts for mem/mem_zero_detect_base.c (property C20).
 *
 * Property text: "returns 0 if and only if all len bytes of the region are zero ... bytes just outside
 * the region never influence the answer, len = 0 reports all-zero ... reading nothing outside".
 *
 * Three contract variants (selected by -D in the registry entry):
 *   default            soundness for an arbitrary buffer of exactly n bytes (is_fresh(buf,n)):
 *                        ret in {0,-1};  ret==0 ==> buf[g_p]==0 for the ghost position g_p<n (any position);
 *                        equivalently buf[g_p]!=0 ==> ret==-1;  n==0 ==> ret==0;  assigns nothing.
 *   MZD_COMPLETE       completeness for an arbitrary buffer of exactly n bytes, by witness:
 *                        ret!=0 ==> there is a k<n with buf[k]!=0.  The witness is either w_k (set by the
 *                        ghost hook from the eight bytes the loop iteration is about to inspect) or one of
 *                        the last min(7,n) bytes (seven-way disjunction, loop-free).  Contrapositive:
 *                        all bytes zero ==> ret==0.
 *   MZD_CALLOC         completeness stated directly: the harness calloc()s n bytes (all zero), the contract
 *                        has no is_fresh (the object is the harness's) and ensures ret==0.
 * g_n0 is the ghost copy of n (n is decremented by the code). */
#ifndef MEM_CONTRACTS_H
#define MEM_CONTRACTS_H
#include "verif_common.h"

extern size_t g_p;  /* ghost byte position */
extern size_t g_n0; /* ghost copy of n */
extern size_t w_k;  /* witness: position of a non-zero byte seen by the word loop */
extern int w_found;

#define MZD_NMAX 0x7fffffffffffULL
#define MZD_B(k) (((const uint8_t *) buf)[k])

/* "one of the last min(7,n) bytes is non-zero" */
#define MZD_TAIL_NZ(n0)                                                                            \
        (((n0) >= 1 && MZD_B((n0) - 1) != 0) || ((n0) >= 2 && MZD_B((n0) - 2) != 0) ||             \
         ((n0) >= 3 && MZD_B((n0) - 3) != 0) || ((n0) >= 4 && MZD_B((n0) - 4) != 0) ||             \
         ((n0) >= 5 && MZD_B((n0) - 5) != 0) || ((n0) >= 6 && MZD_B((n0) - 6) != 0) ||             \
         ((n0) >= 7 && MZD_B((n0) - 7) != 0))

#define MZD_LOOP_POS                                                                               \
        __CPROVER_loop_invariant(n <= g_n0 && __CPROVER_same_object(c, buf) &&                     \
                                 __CPROVER_POINTER_OFFSET(c) == g_n0 - n)

#if defined(MZD_CALLOC)
#define C_mem_zero_detect_base                                                                     \
        __CPROVER_requires(g_n0 == n)                                                              \
        __CPROVER_ensures(__CPROVER_return_value == 0)                                             \
        __CPROVER_assigns()
#define L_mem_zero_detect_base_1                                                                   \
        __CPROVER_assigns(n, c)                                                                    \
        MZD_LOOP_POS                                                                               \
        __CPROVER_decreases(n)
#define H_mem_zero_detect_base_1 VCANARY();

#elif defined(MZD_COMPLETE)
#define C_mem_zero_detect_base                                                                     \
        __CPROVER_requires(n <= MZD_NMAX && __CPROVER_is_fresh(buf, n))                            \
        __CPROVER_requires(g_n0 == n && w_found == 0)                                              \
        __CPROVER_ensures(__CPROVER_return_value == 0 || __CPROVER_return_value == -1)             \
        __CPROVER_ensures(__CPROVER_return_value != 0 ==>                                          \
                          (w_found ? (w_k < g_n0 && MZD_B(w_k) != 0) : MZD_TAIL_NZ(g_n0)))         \
        __CPROVER_assigns(w_k, w_found)
#define L_mem_zero_detect_base_1                                                                   \
        __CPROVER_assigns(n, c, w_k, w_found)                                                      \
        MZD_LOOP_POS                                                                               \
        __CPROVER_loop_invariant(w_found == 0)                                                     \
        __CPROVER_decreases(n)
/* ghost: if one of the eight bytes at c is non-zero, remember where.  After the loop w_found==0. */
#define H_mem_zero_detect_base_1                                                                   \
        {                                                                                          \
                size_t o__ = g_n0 - n;                                                             \
                int d__ = c[0] ? 0 : c[1] ? 1 : c[2] ? 2 : c[3] ? 3 : c[4] ? 4 : c[5] ? 5 : c[6] ? 6 : c[7] ? 7 : -1; \
                if (d__ >= 0) {                                                                    \
                        w_k = o__ + (size_t) d__;                                                  \
                        w_found = 1;                                                               \
                }                                                                                  \
                VCANARY();                                                                         \
        }

#else /* soundness */
#define C_mem_zero_detect_base                                                                     \
        __CPROVER_requires(n <= MZD_NMAX && __CPROVER_is_fresh(buf, n))                            \
        __CPROVER_requires(g_n0 == n)                                                              \
        __CPROVER_ensures(__CPROVER_return_value == 0 || __CPROVER_return_value == -1)             \
        __CPROVER_ensures((__CPROVER_return_value == 0 && g_p < g_n0) ==> MZD_B(g_p) == 0)         \
        __CPROVER_ensures((g_p < g_n0 && MZD_B(g_p) != 0) ==> __CPROVER_return_value == -1)        \
        __CPROVER_ensures(g_n0 == 0 ==> __CPROVER_return_value == 0)                               \
        __CPROVER_assigns()
#define L_mem_zero_detect_base_1                                                                   \
        __CPROVER_assigns(n, c)                                                                    \
        MZD_LOOP_POS                                                                               \
        __CPROVER_loop_invariant(g_p < g_n0 - n ==> MZD_B(g_p) == 0)                               \
        __CPROVER_decreases(n)
#define H_mem_zero_detect_base_1 VCANARY();
#endif

#endif
