/* Contracts for mem/mem_zero_detect_base.c (property C20).
 *
 * Property text: "returns 0 if and only if all len bytes of the region are zero ... bytes just outside
 * the region never influence the answer, len = 0 reports all-zero ... reading nothing outside".
 *
 * Contract variants (selected by -D in the registry entry):
 *   default            soundness for an arbitrary buffer of exactly n bytes (is_fresh(buf,n)):
 *                        ret in {0,-1};  ret==0 ==> buf[g_p]==0 for the ghost position g_p<n (any position);
 *                        equivalently buf[g_p]!=0 ==> ret==-1;  n==0 ==> ret==0;  assigns nothing.
 *   MZD_CALLOC         completeness: the harness calloc()s n bytes (all zero, n symbolic), the contract
 *                        has no is_fresh (the object is the harness's) and ensures ret==0.
 *   MZD_LEN0           default contract without the loop-hook canary (the n==0 harness never enters the loop).
 * A witness formulation of completeness on arbitrary buffers (ret!=0 ==> some byte is non-zero, witness
 * recorded by a ghost hook) was tried and did not finish (time-out / memory cap); it is not registered.
 * g_n0 is the ghost copy of n (n is decremented by the code). */
#ifndef MEM_CONTRACTS_H
#define MEM_CONTRACTS_H
#include "verif_common.h"

extern size_t g_p;  /* ghost byte position */
extern size_t g_n0; /* ghost copy of n */

#define MZD_NMAX 0x7fffffffffffULL
#define MZD_B(k) (((const uint8_t *) buf)[k])

#define MZD_LOOP_POS                                                                               \
        __CPROVER_loop_invariant(n <= g_n0 && __CPROVER_same_object(c, buf) &&                     \
                                 __CPROVER_POINTER_OFFSET(c) == g_n0 - n)

#if defined(MZD_CALLOC)
#define C_mem_zero_detect_base                                                                     \
        __CPROVER_requires(g_n0 == n)                                                              \
        __CPROVER_ensures(__CPROVER_return_value == 0)                                             \
        __CPROVER_assigns()
#define L_mem_zero_detect_base_1                                                                   \
        __CPROVER_assigns(n, c)                                                                    \
        MZD_LOOP_POS                                                                               \
        __CPROVER_decreases(n)
#define H_mem_zero_detect_base_1 VCANARY();

#else /* soundness */
#define C_mem_zero_detect_base                                                                     \
        __CPROVER_requires(n <= MZD_NMAX && __CPROVER_is_fresh(buf, n))                            \
        __CPROVER_requires(g_n0 == n)                                                              \
        __CPROVER_ensures(__CPROVER_return_value == 0 || __CPROVER_return_value == -1)             \
        __CPROVER_ensures((__CPROVER_return_value == 0 && g_p < g_n0) ==> MZD_B(g_p) == 0)         \
        __CPROVER_ensures((g_p < g_n0 && MZD_B(g_p) != 0) ==> __CPROVER_return_value == -1)        \
        __CPROVER_ensures(g_n0 == 0 ==> __CPROVER_return_value == 0)                               \
        __CPROVER_assigns()
#define L_mem_zero_detect_base_1                                                                   \
        __CPROVER_assigns(n, c)                                                                    \
        MZD_LOOP_POS                                                                               \
        __CPROVER_loop_invariant(g_p < g_n0 - n ==> MZD_B(g_p) == 0)                               \
        __CPROVER_decreases(n)
#ifndef MZD_LEN0 /* the n==0 harness never enters the loop: no canary there */
#define H_mem_zero_detect_base_1 VCANARY();
#endif
#endif

#endif
