/* Contracts for raid/raid_base.c (property C08): xor_gen_base, xor_check_base, pq_gen_base, pq_check_base.
 *
 * Specification (property text / include/raid.h):
 *   array[0..n-1] are the n data blocks D_0..D_{n-1}, followed by the parity block(s).
 *   P = D_0 ^ ... ^ D_{n-1}               byte for byte
 *   Q = sum_{j<n} 2^j * D_j  over GF(2^8)/0x11D, byte for byte
 *     stated here in Horner form  T[n] = 0,  T[j] = 2*T[j+1] ^ D_j,  Q = T[0]   (2*x = SPEC_X2(x));
 *     the harness lemma pq_horner_is_sum proves Horner == sum of spec_gf_mul(2^j, D_j) for n <= 8.
 *   minimum vects: xor_gen > 2, xor_check > 1, pq_gen > 3, pq_check > 3; below it: non-zero return and
 *   nothing written or read (the guard harnesses pass invalid pointers).
 *
 * Ghost state: g_i is one byte position (the proof holds for every value); fold arrays over the sources
 *   RX[0]=0, RX[j+1] = RX[j] ^ D_j[g_i]                 (xor functions, ascending like the definition)
 *   RP[n]=0, RP[j] = RP[j+1] ^ D_j[g_i];  RQ[n]=0, RQ[j] = SPEC_X2(RQ[j+1]) ^ D_j[g_i]   (pq functions)
 * are defined by GHOST_AXIOMs in the loop hooks for the iteration(s) that handle position g_i.
 * The pointer array and the blocks are built by the harness (vects <= RAID_KMAX, set by -DRAID_KMAX=n in
 * the registry entry); every code loop is
 * closed by a loop contract, so len is unbounded (0 <= len <= INT_MAX).
 *
 * Completeness of the checkers ("consistent arrays are reported 0") is stated by witness: the hook
 * records the position w_i at which the code decides to report failure;
 *   ret != 0  ==>  0 <= w_i < len  and  (w_i == g_i ==> the arrays are inconsistent at byte g_i).
 * g_i is universally quantified, so for every failing call the instance g_i = w_i shows a real
 * inconsistency. */
#ifndef RAID_CONTRACTS_H
#define RAID_CONTRACTS_H
#include "verif_common.h"
#include "spec_gf.h"

#ifndef RAID_KMAX
#ifdef VERIF_THOROUGH
#define RAID_KMAX 8
#else
#define RAID_KMAX 4
#endif
#endif

extern int g_i;            /* ghost byte position */
extern unsigned char *RX;  /* xor fold, vects entries (+1 for check) */
extern unsigned char *RP;  /* P fold, vects-1 entries */
extern unsigned char *RQ;  /* Q Horner fold, vects-1 entries */
extern int w_i;            /* witness: position where a checker reports failure */

#define RAID_HC() VCANARY()
#define RAID_B(k) (((unsigned char **) array)[k]) /* block k as bytes */
#define RAID_POS (0 <= g_i && g_i < len)
#define RAID_COMMON_REQ                                                                            \
        __CPROVER_requires(0 <= len && vects <= RAID_KMAX)

/* ------------------------------------------------------------------ xor_gen_base */
#define C_xor_gen_base                                                                             \
        RAID_COMMON_REQ                                                                            \
        __CPROVER_requires(vects >= 3 ==> (__CPROVER_is_fresh(RX, vects) && RX[0] == 0))           \
        __CPROVER_ensures(vects < 3 ==> __CPROVER_return_value != 0)                               \
        __CPROVER_ensures(vects >= 3 ==> __CPROVER_return_value == 0)                              \
        __CPROVER_ensures((vects >= 3 && RAID_POS) ==> RAID_B(vects - 1)[g_i] == RX[vects - 1])    \
        __CPROVER_assigns(vects >= 3 : __CPROVER_object_upto(RAID_B(vects - 1), (size_t) len))
#define FL_xor_gen_base_1                                                                           \
        __CPROVER_assigns(i, j, parity, __CPROVER_object_upto(src[vects - 1], (size_t) len)) \
        __CPROVER_loop_invariant(0 <= i && i <= len)                                               \
        __CPROVER_loop_invariant((0 <= g_i && g_i < i) ==> src[vects - 1][g_i] == RX[vects - 1])   \
        __CPROVER_decreases(len - i)
#define FH_xor_gen_base_1                                                                           \
        {                                                                                          \
                if (i == g_i)                                                                      \
                        GHOST_AXIOM(RX[1] == (RX[0] ^ src[0][i]));                                 \
                RAID_HC();                                                                         \
        }
#define FL_xor_gen_base_2                                                                           \
        __CPROVER_assigns(j, parity)                                                               \
        __CPROVER_loop_invariant(1 <= j && j <= vects - 1)                                         \
        __CPROVER_loop_invariant(i == g_i ==> parity == RX[j])                                     \
        __CPROVER_decreases(vects - 1 - j)
#define FH_xor_gen_base_2                                                                           \
        {                                                                                          \
                if (i == g_i)                                                                      \
                        GHOST_AXIOM(RX[j + 1] == (RX[j] ^ src[j][i]));                             \
                RAID_HC();                                                                         \
        }

/* ------------------------------------------------------------------ xor_check_base */
#define C_xor_check_base                                                                           \
        RAID_COMMON_REQ                                                                            \
        __CPROVER_requires(vects >= 2 ==> (__CPROVER_is_fresh(RX, vects + 1) && RX[0] == 0))       \
        __CPROVER_ensures(vects < 2 ==> __CPROVER_return_value != 0)                               \
        /* soundness: reported consistent ==> consistent at every position */                     \
        __CPROVER_ensures((vects >= 2 && RAID_POS && __CPROVER_return_value == 0) ==> RX[vects] == 0) \
        /* any inconsistent byte position is reported */                                          \
        __CPROVER_ensures((vects >= 2 && RAID_POS && RX[vects] != 0) ==> __CPROVER_return_value != 0) \
        /* completeness by witness */                                                             \
        __CPROVER_ensures((vects >= 2 && __CPROVER_return_value != 0) ==>                          \
                          (0 <= w_i && w_i < len && (w_i == g_i ==> RX[vects] != 0)))              \
        __CPROVER_ensures((vects >= 2 && len == 0) ==> __CPROVER_return_value == 0)                \
        __CPROVER_assigns(w_i)
#define FL_xor_check_base_1                                                                         \
        __CPROVER_assigns(i, j, parity, fail, w_i)                                 \
        __CPROVER_loop_invariant(0 <= i && i <= len && fail == 0)                                  \
        __CPROVER_loop_invariant((0 <= g_i && g_i < i) ==> RX[vects] == 0)                         \
        __CPROVER_decreases(len - i)
#define FH_xor_check_base_1                                                                         \
        {                                                                                          \
                w_i = i;                                                                           \
                RAID_HC();                                                                         \
        }
#define FL_xor_check_base_2                                                                         \
        __CPROVER_assigns(j, parity)                                                               \
        __CPROVER_loop_invariant(0 <= j && j <= vects)                                             \
        __CPROVER_loop_invariant(i == g_i ==> parity == RX[j])                                     \
        __CPROVER_decreases(vects - j)
#define FH_xor_check_base_2                                                                         \
        {                                                                                          \
                if (i == g_i)                                                                      \
                        GHOST_AXIOM(RX[j + 1] == (RX[j] ^ src[j][i]));                             \
                RAID_HC();                                                                         \
        }

/* ------------------------------------------------------------------ pq_gen_base
 * The code works on `unsigned long` words; blocks = len / sizeof(long) words are produced, i.e. the
 * first 8*(len/8) bytes of P and Q; the frame is exactly those bytes, so for len % 8 != 0 (outside the
 * documented "16B aligned" domain) the trailing len % 8 bytes of P and Q are provably left untouched. */
#define RAID_WORDBYTES(len) ((size_t) ((len) / 8) * 8)
#define RAID_POSW (0 <= g_i && g_i < (len / 8) * 8)
#define RAID_BYTE(w, b) ((unsigned char) ((w) >> (8 * (b))))
#define C_pq_gen_base                                                                              \
        RAID_COMMON_REQ                                                                            \
        __CPROVER_requires(vects >= 4 ==> (__CPROVER_is_fresh(RP, vects - 1) && RP[vects - 2] == 0)) \
        __CPROVER_requires(vects >= 4 ==> (__CPROVER_is_fresh(RQ, vects - 1) && RQ[vects - 2] == 0)) \
        __CPROVER_ensures(vects < 4 ==> __CPROVER_return_value != 0)                               \
        __CPROVER_ensures(vects >= 4 ==> __CPROVER_return_value == 0)                              \
        __CPROVER_ensures((vects >= 4 && RAID_POSW) ==> RAID_B(vects - 2)[g_i] == RP[0])           \
        __CPROVER_ensures((vects >= 4 && RAID_POSW) ==> RAID_B(vects - 1)[g_i] == RQ[0])           \
        __CPROVER_assigns(vects >= 4 : __CPROVER_object_upto(RAID_B(vects - 2), RAID_WORDBYTES(len))) \
        __CPROVER_assigns(vects >= 4 : __CPROVER_object_upto(RAID_B(vects - 1), RAID_WORDBYTES(len)))
#define FL_pq_gen_base_1                                                                            \
        __CPROVER_assigns(i, j, p, q, s,                                           \
                          __CPROVER_object_upto((unsigned char *) src[vects - 2], RAID_WORDBYTES(len)), \
                          __CPROVER_object_upto((unsigned char *) src[vects - 1], RAID_WORDBYTES(len))) \
        __CPROVER_loop_invariant(0 <= i && i <= blocks && blocks == len / 8)                       \
        __CPROVER_loop_invariant((0 <= g_i && g_i / 8 < i) ==>                                     \
                                 (RAID_B(vects - 2)[g_i] == RP[0] && RAID_B(vects - 1)[g_i] == RQ[0])) \
        __CPROVER_decreases(blocks - i)
#define FH_pq_gen_base_1                                                                            \
        {                                                                                          \
                if (0 <= g_i && i == g_i / 8) {                                                    \
                        GHOST_AXIOM(RP[vects - 3] == (RP[vects - 2] ^ RAID_B(vects - 3)[g_i]));    \
                        GHOST_AXIOM(RQ[vects - 3] == (SPEC_X2(RQ[vects - 2]) ^ RAID_B(vects - 3)[g_i])); \
                }                                                                                  \
                RAID_HC();                                                                         \
        }
#define FL_pq_gen_base_2                                                                            \
        __CPROVER_assigns(j, p, q, s)                                                              \
        __CPROVER_loop_invariant(-1 <= j && j <= vects - 4)                                        \
        __CPROVER_loop_invariant((0 <= g_i && i == g_i / 8) ==>                                    \
                                 (RAID_BYTE(p, g_i % 8) == RP[j + 1] && RAID_BYTE(q, g_i % 8) == RQ[j + 1])) \
        __CPROVER_decreases(j + 1)
#define FH_pq_gen_base_2                                                                            \
        {                                                                                          \
                if (0 <= g_i && i == g_i / 8) {                                                    \
                        GHOST_AXIOM(RP[j] == (RP[j + 1] ^ RAID_B(j)[g_i]));                        \
                        GHOST_AXIOM(RQ[j] == (SPEC_X2(RQ[j + 1]) ^ RAID_B(j)[g_i]));               \
                }                                                                                  \
                RAID_HC();                                                                         \
        }

/* ------------------------------------------------------------------ pq_check_base */
#define RAID_PQ_BAD (RAID_B(vects - 2)[g_i] != RP[0] || RAID_B(vects - 1)[g_i] != RQ[0])
#define C_pq_check_base                                                                            \
        RAID_COMMON_REQ                                                                            \
        __CPROVER_requires(vects >= 4 ==> (__CPROVER_is_fresh(RP, vects - 1) && RP[vects - 2] == 0)) \
        __CPROVER_requires(vects >= 4 ==> (__CPROVER_is_fresh(RQ, vects - 1) && RQ[vects - 2] == 0)) \
        __CPROVER_ensures(vects < 4 ==> __CPROVER_return_value != 0)                               \
        __CPROVER_ensures((vects >= 4 && RAID_POS && __CPROVER_return_value == 0) ==> !RAID_PQ_BAD) \
        __CPROVER_ensures((vects >= 4 && RAID_POS && RAID_PQ_BAD) ==> __CPROVER_return_value != 0) \
        __CPROVER_ensures((vects >= 4 && __CPROVER_return_value != 0) ==>                          \
                          (0 <= w_i && w_i < len && (w_i == g_i ==> RAID_PQ_BAD)))                 \
        __CPROVER_ensures((vects >= 4 && len == 0) ==> __CPROVER_return_value == 0)                \
        __CPROVER_assigns(w_i)
#define FL_pq_check_base_1                                                                          \
        __CPROVER_assigns(i, j, p, q, s, w_i)                                      \
        __CPROVER_loop_invariant(0 <= i && i <= len)                                               \
        __CPROVER_loop_invariant((0 <= g_i && g_i < i) ==> !RAID_PQ_BAD)                           \
        __CPROVER_decreases(len - i)
#define FH_pq_check_base_1                                                                          \
        {                                                                                          \
                if (i == g_i) {                                                                    \
                        GHOST_AXIOM(RP[vects - 3] == (RP[vects - 2] ^ src[vects - 3][i]));         \
                        GHOST_AXIOM(RQ[vects - 3] == (SPEC_X2(RQ[vects - 2]) ^ src[vects - 3][i])); \
                }                                                                                  \
                w_i = i;                                                                           \
                RAID_HC();                                                                         \
        }
#define FL_pq_check_base_2                                                                          \
        __CPROVER_assigns(j, p, q, s)                                                              \
        __CPROVER_loop_invariant(-1 <= j && j <= vects - 4)                                        \
        __CPROVER_loop_invariant(i == g_i ==> (p == RP[j + 1] && q == RQ[j + 1]))                  \
        __CPROVER_decreases(j + 1)
#define FH_pq_check_base_2                                                                          \
        {                                                                                          \
                if (i == g_i) {                                                                    \
                        GHOST_AXIOM(RP[j] == (RP[j + 1] ^ src[j][i]));                             \
                        GHOST_AXIOM(RQ[j] == (SPEC_X2(RQ[j + 1]) ^ src[j][i]));                    \
                }                                                                                  \
                RAID_HC();                                                                         \
        }

/* ------------------------------------------------------------------ selection
 * Guard harnesses (-DRAID_GUARD, vects below the minimum, array == NULL): the function must return
 * before any loop, so the loops carry a trivial contract and their bodies assert unreachability. */
#ifdef RAID_GUARD
#define RAID_GL __CPROVER_loop_invariant(1 == 1)
#define RAID_GH __CPROVER_assert(0, "loop body is unreachable when vects is below the documented minimum");
#define L_xor_gen_base_1 RAID_GL
#define H_xor_gen_base_1 RAID_GH
#define L_xor_gen_base_2 RAID_GL
#define H_xor_gen_base_2 RAID_GH
#define L_xor_check_base_1 RAID_GL
#define H_xor_check_base_1 RAID_GH
#define L_xor_check_base_2 RAID_GL
#define H_xor_check_base_2 RAID_GH
#define L_pq_gen_base_1 RAID_GL
#define H_pq_gen_base_1 RAID_GH
#define L_pq_gen_base_2 RAID_GL
#define H_pq_gen_base_2 RAID_GH
#define L_pq_check_base_1 RAID_GL
#define H_pq_check_base_1 RAID_GH
#define L_pq_check_base_2 RAID_GL
#define H_pq_check_base_2 RAID_GH
#else
#define L_xor_gen_base_1 FL_xor_gen_base_1
#define H_xor_gen_base_1 FH_xor_gen_base_1
#define L_xor_gen_base_2 FL_xor_gen_base_2
#define H_xor_gen_base_2 FH_xor_gen_base_2
#define L_xor_check_base_1 FL_xor_check_base_1
#define H_xor_check_base_1 FH_xor_check_base_1
#define L_xor_check_base_2 FL_xor_check_base_2
#define H_xor_check_base_2 FH_xor_check_base_2
#define L_pq_gen_base_1 FL_pq_gen_base_1
#define H_pq_gen_base_1 FH_pq_gen_base_1
#define L_pq_gen_base_2 FL_pq_gen_base_2
#define H_pq_gen_base_2 FH_pq_gen_base_2
#define L_pq_check_base_1 FL_pq_check_base_1
#define H_pq_check_base_1 FH_pq_check_base_1
#define L_pq_check_base_2 FL_pq_check_base_2
#define H_pq_check_base_2 FH_pq_check_base_2
#endif

#endif
