/* CRC specification: bit-by-bit LFSR step, written from the polynomial definitions
 * (catalogue of parametrised CRC algorithms).  Loop-free (8 unrolled rounds). */
#ifndef SPEC_CRC_H
#define SPEC_CRC_H
#include <stdint.h>

/* reflected (LSB-first) step, width 64: poly is the bit-reversed polynomial */
#define SPEC_R1_64(x, p) (((x) >> 1) ^ ((p) & (0ULL - ((x) & 1ULL))))
static inline uint64_t
spec_crc64_step_refl(uint64_t poly_refl, uint64_t crc, uint8_t b)
{
        uint64_t c0 = crc ^ b;
        uint64_t c1 = SPEC_R1_64(c0, poly_refl), c2 = SPEC_R1_64(c1, poly_refl), c3 = SPEC_R1_64(c2, poly_refl),
                 c4 = SPEC_R1_64(c3, poly_refl), c5 = SPEC_R1_64(c4, poly_refl), c6 = SPEC_R1_64(c5, poly_refl),
                 c7 = SPEC_R1_64(c6, poly_refl), c8 = SPEC_R1_64(c7, poly_refl);
        return c8;
}
/* normal (MSB-first) step, width 64 */
#define SPEC_N1_64(x, p) (((x) << 1) ^ ((p) & (0ULL - (((x) >> 63) & 1ULL))))
static inline uint64_t
spec_crc64_step_norm(uint64_t poly, uint64_t crc, uint8_t b)
{
        uint64_t c0 = crc ^ ((uint64_t) b << 56);
        uint64_t c1 = SPEC_N1_64(c0, poly), c2 = SPEC_N1_64(c1, poly), c3 = SPEC_N1_64(c2, poly),
                 c4 = SPEC_N1_64(c3, poly), c5 = SPEC_N1_64(c4, poly), c6 = SPEC_N1_64(c5, poly),
                 c7 = SPEC_N1_64(c6, poly), c8 = SPEC_N1_64(c7, poly);
        return c8;
}
/* width 32 */
#define SPEC_R1_32(x, p) ((uint32_t) (((x) >> 1) ^ ((p) & (0U - ((x) & 1U)))))
static inline uint32_t
spec_crc32_step_refl(uint32_t poly_refl, uint32_t crc, uint8_t b)
{
        uint32_t c0 = crc ^ b;
        uint32_t c1 = SPEC_R1_32(c0, poly_refl), c2 = SPEC_R1_32(c1, poly_refl), c3 = SPEC_R1_32(c2, poly_refl),
                 c4 = SPEC_R1_32(c3, poly_refl), c5 = SPEC_R1_32(c4, poly_refl), c6 = SPEC_R1_32(c5, poly_refl),
                 c7 = SPEC_R1_32(c6, poly_refl), c8 = SPEC_R1_32(c7, poly_refl);
        return c8;
}
#define SPEC_N1_32(x, p) ((uint32_t) (((x) << 1) ^ ((p) & (0U - (((x) >> 31) & 1U)))))
static inline uint32_t
spec_crc32_step_norm(uint32_t poly, uint32_t crc, uint8_t b)
{
        uint32_t c0 = crc ^ ((uint32_t) b << 24);
        uint32_t c1 = SPEC_N1_32(c0, poly), c2 = SPEC_N1_32(c1, poly), c3 = SPEC_N1_32(c2, poly),
                 c4 = SPEC_N1_32(c3, poly), c5 = SPEC_N1_32(c4, poly), c6 = SPEC_N1_32(c5, poly),
                 c7 = SPEC_N1_32(c6, poly), c8 = SPEC_N1_32(c7, poly);
        return c8;
}
/* width 16, normal */
#define SPEC_N1_16(x, p) ((uint16_t) (((x) << 1) ^ ((p) & (0U - (((x) >> 15) & 1U)))))
static inline uint16_t
spec_crc16_step_norm(uint16_t poly, uint16_t crc, uint8_t b)
{
        uint16_t c0 = (uint16_t) (crc ^ ((uint16_t) b << 8));
        uint16_t c1 = SPEC_N1_16(c0, poly), c2 = SPEC_N1_16(c1, poly), c3 = SPEC_N1_16(c2, poly),
                 c4 = SPEC_N1_16(c3, poly), c5 = SPEC_N1_16(c4, poly), c6 = SPEC_N1_16(c5, poly),
                 c7 = SPEC_N1_16(c6, poly), c8 = SPEC_N1_16(c7, poly);
        return c8;
}

/* polynomials (normal form) and their bit-reversals */
#define POLY_CRC64_ECMA      0x42F0E1EBA9EA3693ULL
#define POLY_CRC64_ECMA_REFL 0xC96C5795D7870F42ULL
#define POLY_CRC64_ISO       0x000000000000001BULL
#define POLY_CRC64_ISO_REFL  0xD800000000000000ULL
#define POLY_CRC64_JONES      0xAD93D23594C935A9ULL
#define POLY_CRC64_JONES_REFL 0x95AC9329AC4BC9B5ULL
#define POLY_CRC64_ROCKSOFT      0xAD93D23594C93659ULL
#define POLY_CRC64_ROCKSOFT_REFL 0x9A6C9329AC4BC9B5ULL
#define POLY_CRC32_IEEE       0x04C11DB7U
#define POLY_CRC32_IEEE_REFL  0xEDB88320U
#define POLY_CRC32_ISCSI      0x1EDC6F41U
#define POLY_CRC32_ISCSI_REFL 0x82F63B78U
#define POLY_CRC16_T10DIF     0x8BB7U
/* Adler-32 (RFC 1950 section 8.2): per byte  A = (A + byte) mod 65521,  B = (B + A) mod 65521,
 * value = B * 65536 + A.  Loop-free step functions. */
#define SPEC_ADLER_MOD 65521u
static inline uint32_t
spec_adler_a(uint32_t a, uint8_t byte)
{
        return (a + byte) % SPEC_ADLER_MOD;
}
static inline uint32_t
spec_adler_b(uint32_t b, uint32_t a_new)
{
        return (b + a_new) % SPEC_ADLER_MOD;
}
#endif
