/* RFC 1951 (DEFLATE) section 3.2.5 tables, typed in from the RFC text -- NOT derived from isa-l.
 *
 *              Extra               Extra               Extra
 *         Code Bits Length(s) Code Bits Lengths   Code Bits Length(s)
 *          257   0     3       267   1   15,16     277   4   67-82
 *          258   0     4       268   1   17,18     278   4   83-98
 *          259   0     5       269   2   19-22     279   4   99-114
 *          260   0     6       270   2   23-26     280   4  115-130
 *          261   0     7       271   2   27-30     281   5  131-162
 *          262   0     8       272   2   31-34     282   5  163-194
 *          263   0     9       273   3   35-42     283   5  195-226
 *          264   0    10       274   3   43-50     284   5  227-257
 *          265   1  11,12      275   3   51-58     285   0    258
 *          266   1  13,14      276   3   59-66
 *
 *               Extra           Extra               Extra
 *          Code Bits Dist  Code Bits   Dist     Code Bits Distance
 *            0   0    1     10   4     33-48    20    9   1025-1536
 *            1   0    2     11   4     49-64    21    9   1537-2048
 *            2   0    3     12   5     65-96    22   10   2049-3072
 *            3   0    4     13   5     97-128   23   10   3073-4096
 *            4   1   5,6    14   6    129-192   24   11   4097-6144
 *            5   1   7,8    15   6    193-256   25   11   6145-8192
 *            6   2   9-12   16   7    257-384   26   12  8193-12288
 *            7   2  13-16   17   7    385-512   27   12 12289-16384
 *            8   3  17-24   18   8    513-768   28   13 16385-24576
 *            9   3  25-32   19   8   769-1024   29   13 24577-32768
 *
 * Everything below is loop-free so that it can be called from contract clauses. */
#ifndef SPEC_DEFLATE_RFC_H
#define SPEC_DEFLATE_RFC_H
#include <stdint.h>

#define RFC_MIN_MATCH 3u
#define RFC_MAX_MATCH 258u
#define RFC_MAX_DIST  32768u
#define RFC_NUM_DIST_SYMS 30u
#define RFC_LEN_SYM_FIRST 257u
#define RFC_LEN_SYM_LAST  285u

/* index = length symbol - 257 */
static const uint16_t rfc_len_base[29] = { 3,  4,  5,  6,  7,  8,  9,  10, 11,  13,  15,  17,  19,  23, 27,
                                           31, 35, 43, 51, 59, 67, 83, 99, 115, 131, 163, 195, 227, 258 };
static const uint8_t rfc_len_extra[29] = { 0, 0, 0, 0, 0, 0, 0, 0, 1, 1, 1, 1, 2, 2, 2,
                                           2, 3, 3, 3, 3, 4, 4, 4, 4, 5, 5, 5, 5, 0 };
/* last length covered by the symbol (the "Length(s)" column); 284 stops at 257, not 258 */
static const uint16_t rfc_len_last[29] = { 3,  4,  5,  6,  7,  8,  9,  10, 12,  14,  16,  18,  22,  26, 30,
                                           34, 42, 50, 58, 66, 82, 98, 114, 130, 162, 194, 226, 257, 258 };

/* index = distance symbol */
static const uint16_t rfc_dist_base[30] = { 1,   2,   3,   4,   5,    7,    9,    13,   17,   25,
                                            33,  49,  65,  97,  129,  193,  257,  385,  513,  769,
                                            1025, 1537, 2049, 3073, 4097, 6145, 8193, 12289, 16385, 24577 };
static const uint8_t rfc_dist_extra[30] = { 0, 0, 0, 0, 1, 1, 2, 2, 3,  3,  4,  4,  5,  5,  6,
                                            6, 7, 7, 8, 8, 9, 9, 10, 10, 11, 11, 12, 12, 13, 13 };
/* last distance covered by the symbol (the "Dist" column) */
static const uint32_t rfc_dist_last[30] = { 1,   2,   3,   4,   6,    8,    12,   16,   24,   32,
                                            48,  64,  96,  128, 192,  256,  384,  512,  768,  1024,
                                            1536, 2048, 3072, 4096, 6144, 8192, 12288, 16384, 24576, 32768 };

/* "sym encodes value v with extra-bits field e" in the sense of the RFC tables */
static inline int
rfc_dist_sym_encodes(uint32_t sym, uint32_t extra, uint32_t dist)
{
        return sym < 30 && (uint32_t) rfc_dist_base[sym < 30 ? sym : 0] + extra == dist &&
               extra < (1u << rfc_dist_extra[sym < 30 ? sym : 0]) &&
               dist <= rfc_dist_last[sym < 30 ? sym : 0];
}

static inline int
rfc_len_sym_encodes(uint32_t sym, uint32_t extra, uint32_t length)
{
        uint32_t k = (sym >= 257 && sym <= 285) ? sym - 257 : 0;
        return sym >= 257 && sym <= 285 && (uint32_t) rfc_len_base[k] + extra == length &&
               extra < (1u << rfc_len_extra[k]) && length <= rfc_len_last[k];
}

/* the symbol the tables assign to a distance 1..32768 (comparison chain over the "Dist" column) */
static inline uint32_t
rfc_dist_sym(uint32_t d)
{
        return d <= 1       ? 0
               : d <= 2     ? 1
               : d <= 3     ? 2
               : d <= 4     ? 3
               : d <= 6     ? 4
               : d <= 8     ? 5
               : d <= 12    ? 6
               : d <= 16    ? 7
               : d <= 24    ? 8
               : d <= 32    ? 9
               : d <= 48    ? 10
               : d <= 64    ? 11
               : d <= 96    ? 12
               : d <= 128   ? 13
               : d <= 192   ? 14
               : d <= 256   ? 15
               : d <= 384   ? 16
               : d <= 512   ? 17
               : d <= 768   ? 18
               : d <= 1024  ? 19
               : d <= 1536  ? 20
               : d <= 2048  ? 21
               : d <= 3072  ? 22
               : d <= 4096  ? 23
               : d <= 6144  ? 24
               : d <= 8192  ? 25
               : d <= 12288 ? 26
               : d <= 16384 ? 27
               : d <= 24576 ? 28
                            : 29;
}

/* the symbol the tables assign to a match length 3..258 */
static inline uint32_t
rfc_len_sym(uint32_t l)
{
        return l <= 10    ? 254 + l
               : l <= 12  ? 265
               : l <= 14  ? 266
               : l <= 16  ? 267
               : l <= 18  ? 268
               : l <= 22  ? 269
               : l <= 26  ? 270
               : l <= 30  ? 271
               : l <= 34  ? 272
               : l <= 42  ? 273
               : l <= 50  ? 274
               : l <= 58  ? 275
               : l <= 66  ? 276
               : l <= 82  ? 277
               : l <= 98  ? 278
               : l <= 114 ? 279
               : l <= 130 ? 280
               : l <= 162 ? 281
               : l <= 194 ? 282
               : l <= 226 ? 283
               : l <= 257 ? 284
                          : 285;
}

static inline uint32_t
rfc_dist_extra_bits(uint32_t sym)
{
        return rfc_dist_extra[sym < 30 ? sym : 0];
}
static inline uint32_t
rfc_dist_extra_val(uint32_t dist)
{
        return dist - rfc_dist_base[rfc_dist_sym(dist)];
}
static inline uint32_t
rfc_len_extra_bits(uint32_t sym)
{
        return rfc_len_extra[(sym >= 257 && sym <= 285) ? sym - 257 : 0];
}
static inline uint32_t
rfc_len_extra_val(uint32_t length)
{
        return length - rfc_len_base[rfc_len_sym(length) - 257];
}

/* RFC 1951 3.2.7 code-length alphabet: what one run symbol expands to.
 *   0..15: one code length of that value
 *   16: copy the previous code length 3..6 times (2 extra bits)
 *   17: repeat a code length of 0 for 3..10 times (3 extra bits)
 *   18: repeat a code length of 0 for 11..138 times (7 extra bits) */
static inline uint32_t
rfc_cl_repeat(uint32_t sym, uint32_t extra)
{
        return sym <= 15 ? 1u : sym == 16 ? 3u + extra : sym == 17 ? 3u + extra : 11u + extra;
}
static inline int
rfc_cl_extra_ok(uint32_t sym, uint32_t extra)
{
        return sym <= 15 ? extra == 0 : sym == 16 ? extra < 4 : sym == 17 ? extra < 8 : sym == 18 ? extra < 128 : 0;
}
/* packed level-0 table entry of igzip ("bits 4:0 are the code length, bits 31:5 are the code", igzip_lib.h):
 * Huffman code of the symbol, the RFC extra-bits value above it (LSB-first bit order), total length below */
static inline uint32_t
spec_pack_code(uint32_t huff_code, uint32_t huff_len, uint32_t extra_val, uint32_t extra_bits)
{
        return ((huff_code | (extra_val << huff_len)) << 5) | (huff_len + extra_bits);
}

/* RFC 1951 3.2.6 fixed Huffman code:
 *        Lit Value    Bits        Codes
 *          0 - 143     8          00110000 through 10111111
 *        144 - 255     9          110010000 through 111111111
 *        256 - 279     7          0000000 through 0010111
 *        280 - 287     8          11000000 through 11000111
 * distance codes 0-31: fixed-length 5-bit codes.  Codes are given MSB first; Huffman codes are packed into the
 * stream starting with their most significant bit (3.1.1), so an LSB-first bit writer holds them bit-reversed. */
static inline uint32_t
rfc_fixed_len(uint32_t sym)
{
        return sym <= 143 ? 8u : sym <= 255 ? 9u : sym <= 279 ? 7u : 8u;
}
static inline uint32_t
rfc_fixed_code(uint32_t sym)
{
        return sym <= 143 ? 0x30u + sym : sym <= 255 ? 0x190u + (sym - 144) : sym <= 279 ? sym - 256 : 0xc0u + (sym - 280);
}
/* reverse the low `len` (<= 16) bits of code */
static inline uint32_t
rfc_bitrev(uint32_t code, uint32_t len)
{
        uint32_t x = code & 0xffff;
        x = ((x & 0x5555) << 1) | ((x >> 1) & 0x5555);
        x = ((x & 0x3333) << 2) | ((x >> 2) & 0x3333);
        x = ((x & 0x0f0f) << 4) | ((x >> 4) & 0x0f0f);
        x = ((x & 0x00ff) << 8) | ((x >> 8) & 0x00ff);
        return len == 0 ? 0 : (x >> (16 - (len <= 16 ? len : 16)));
}
/* RFC 1951 3.2.7: order in which the code lengths of the code-length alphabet are transmitted */
static const uint8_t rfc_clc_order[19] = { 16, 17, 18, 0, 8, 7, 9, 6, 10, 5, 11, 4, 12, 3, 13, 2, 14, 1, 15 };
#endif
