/* GF(2^8) specification, written from the definition: polynomials over GF(2) modulo
 * x^8 + x^4 + x^3 + x^2 + 1 (0x11D).  Loop-free on purpose (DESIGN.md section 4.1).
 * Compiled into the CBMC harnesses and into the native replay programs. */
#ifndef SPEC_GF_H
#define SPEC_GF_H

/* multiply by x, reduce by 0x11D */
#define SPEC_X2(x) ((unsigned char) ((((x) << 1) & 0xff) ^ (((x) & 0x80) ? 0x1d : 0)))

static inline unsigned char
spec_gf_mul(unsigned char a, unsigned char b)
{
        unsigned char a0 = a, a1 = SPEC_X2(a0), a2 = SPEC_X2(a1), a3 = SPEC_X2(a2), a4 = SPEC_X2(a3),
                      a5 = SPEC_X2(a4), a6 = SPEC_X2(a5), a7 = SPEC_X2(a6);
        unsigned char r = (unsigned char) (((b & 1) ? a0 : 0) ^ ((b & 2) ? a1 : 0) ^ ((b & 4) ? a2 : 0) ^
                                           ((b & 8) ? a3 : 0) ^ ((b & 16) ? a4 : 0) ^
                                           ((b & 32) ? a5 : 0) ^ ((b & 64) ? a6 : 0) ^
                                           ((b & 128) ? a7 : 0));
        return r;
}

/* GF2P8AFFINEQB semantics (Intel SDM): result bit i = parity(A.byte[7-i] & x) (b = 0) */
#define SPEC_PAR8(v) ((((v) >> 0) ^ ((v) >> 1) ^ ((v) >> 2) ^ ((v) >> 3) ^ ((v) >> 4) ^ ((v) >> 5) ^ ((v) >> 6) ^ ((v) >> 7)) & 1)
static inline unsigned char
spec_gf_affine(unsigned long long A, unsigned char x)
{
        unsigned char r0 = SPEC_PAR8((unsigned char) (A >> 56) & x);
        unsigned char r1 = SPEC_PAR8((unsigned char) (A >> 48) & x);
        unsigned char r2 = SPEC_PAR8((unsigned char) (A >> 40) & x);
        unsigned char r3 = SPEC_PAR8((unsigned char) (A >> 32) & x);
        unsigned char r4 = SPEC_PAR8((unsigned char) (A >> 24) & x);
        unsigned char r5 = SPEC_PAR8((unsigned char) (A >> 16) & x);
        unsigned char r6 = SPEC_PAR8((unsigned char) (A >> 8) & x);
        unsigned char r7 = SPEC_PAR8((unsigned char) (A >> 0) & x);
        return (unsigned char) (r0 | (r1 << 1) | (r2 << 2) | (r3 << 3) | (r4 << 4) | (r5 << 5) | (r6 << 6) | (r7 << 7));
}
#endif
