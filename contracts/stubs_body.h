/* Models of the callees of the level-0 LZ77 bodies (igzip/igzip_base.c), used INSTEAD of the callees' bodies: the
 * E_<callee> entry hooks at the end of this file turn each callee into `return model(args);` (the headers
 * huffman.h, bitbuf2.h, unaligned.h are spliced too).  Why not --replace-call-with-contract: every replaced
 * call site costs ~20 dfcc bookkeeping objects with 2^object_bits-entry tables; with the 12 call sites of the
 * bodies that was 1.3 GB of CNF and > 10 min per obligation.
 *
 * Each model (1) ASSERTS the precondition of the callee's contract at the call site -- this is how facts "at
 * the emission site" are checked -- and (2) returns a constructive over-approximation of the callee's
 * postcondition (no __CPROVER_assume anywhere).  Provenance of the postconditions:
 *   bd_load_le_u32   exact: the little-endian value of the 4 bytes (PROVED for the real body: harness load_le_u32);
 *                    extra check: the 4 bytes end at or before next_in + avail_in (g_inend)
 *   bd_compare258    C_compare258 of igzip_huff.h (PROVED: harnesses compare258, compare258_overlap): ret <=
 *                    min(max_length,258) and the first ret bytes are equal -- modelled as ANY n <= that bound
 *                    whose prefix agrees at the ghost position g_k (superset of the real results)
 *   bd_write_bits    C_write_bits of igzip_deflate_frame.h (PROVED: harness bb_write_bits): 8 bytes stored at
 *                    m_out_buf, m_out_buf += (m_bit_count+count)/8, m_bit_count = (m_bit_count+count)%8, pending
 *                    bits well formed.  The stored bytes are not modelled; the model asserts that the 8-byte
 *                    store lies inside [next_out, next_out+avail_out) (C10)
 *   bd_get_len_code / bd_get_dist_code / bd_get_lit_code
 *                    domain of the PROVED contracts of igzip_huff.h (3..258 / 1..32768 / <= 256) asserted; result:
 *                    ANY (code,len) with len <= 20 / 28 / 15 and code < 2^len -- what those contracts give for
 *                    tables with Huffman code lengths <= 15 (C18: are_hufftables_useable, set_huff_codes).  Table
 *                    well-formedness is thereby ASSUMED; the table is not read
 *   bd_compute_hash  ANY 32-bit value (the bodies use the hash only through `& hash_mask`); the first result of
 *                    an iteration is recorded in w_hash
 *
 * BD_HIT: "the hash head this iteration looks back through is the ghost head g_h".  The window invariant is
 * stated and proved for the ghost head (heads are independent), so look-back safety and match truth are
 * demanded when the head used is g_h; g_h is arbitrary, hence for every head. */
#ifndef STUBS_BODY_H
#define STUBS_BODY_H
#include "verif_common.h"
#include "igzip_lib.h"

extern uint32_t g_h;     /* ghost hash head, <= hash_mask */
extern uint32_t g_hmask; /* ghost copy of state->hash_mask */
extern uint32_t g_dmask; /* ghost copy of state->dist_mask */
extern uint32_t g_k;     /* ghost byte index inside a match */
extern uint8_t *g_out;   /* next_out at entry (compared only) */
extern uint32_t g_avout; /* avail_out at entry */
extern struct isal_hufftables *g_huff; /* stream->hufftables at entry (compared only) */
extern struct BitBuf2 *g_bb;           /* &state->bitbuf (compared only) */
extern uint8_t *g_in;    /* input object */
extern size_t g_inend;   /* offset of next_in + avail_in (entry values) inside it: nothing may be read at or behind it */
/* per-iteration ghost record (one object = one assigns target) */
struct bd_iter {
        uint32_t hash; /* first compute_hash result of the current iteration */
        int fresh;     /* 1 from the loop hook until the first compute_hash call of the iteration */
        uint32_t lit;  /* byte at next_in when the iteration started (set by the loop hooks) */
        uint32_t mlen; /* result of the compare258 call of the iteration */
        uint32_t dist; /* its look-back distance str2 - str1 */
};
extern struct bd_iter w_it;
#define w_hash w_it.hash
#define w_fresh w_it.fresh
#define g_lit w_it.lit

#define BD_HIT ((w_hash & g_hmask) == g_h)
#define BD_IN_BOUNDS(p, n)                                                                         \
        (__CPROVER_same_object(p, g_in) && __CPROVER_POINTER_OFFSET(p) + (n) <= g_inend)

#ifdef ISAL_VERIF
uint32_t nondet_bd_u32(void);
uint64_t nondet_bd_u64(void);

static inline uint32_t
bd_compute_hash(uint32_t data)
{
        uint32_t r = nondet_bd_u32();
        (void) data;
        if (w_fresh) {
                w_hash = r;
                w_fresh = 0;
        }
        return r;
}

static inline uint32_t
bd_load_le_u32(uint8_t *buf)
{
        __CPROVER_assert(BD_IN_BOUNDS(buf, 4), "load_le_u32: the 4 bytes lie in front of next_in + avail_in");
        return (uint32_t) buf[0] | ((uint32_t) buf[1] << 8) | ((uint32_t) buf[2] << 16) | ((uint32_t) buf[3] << 24);
}

/* look-back compare: str1 = next_in - dist, str2 = next_in */
static inline int
bd_compare258(uint8_t *str1, uint8_t *str2, uint32_t max_length)
{
        uint32_t cap = max_length > 258u ? 258u : max_length;
        uint32_t n = nondet_bd_u32();
        __CPROVER_assert(BD_IN_BOUNDS(str2, cap), "compare258: str2[0..cap) lies in front of next_in + avail_in");
        __CPROVER_assert(!BD_HIT || (__CPROVER_same_object(str1, str2) &&
                                     __CPROVER_POINTER_OFFSET(str1) < __CPROVER_POINTER_OFFSET(str2)),
                         "compare258: look-back through head g_h starts inside the input object");
        if (n > cap)
                n = cap;
        if (BD_HIT && g_k < n && str1[g_k] != str2[g_k])
                n = g_k;
        w_it.mlen = n;
        w_it.dist = (uint32_t) (__CPROVER_POINTER_OFFSET(str2) - __CPROVER_POINTER_OFFSET(str1));
        return (int) n;
}

static inline void
bd_code_any(uint64_t *code, uint64_t *len, uint32_t maxlen)
{
        uint64_t l = nondet_bd_u64() & 31;
        if (l > maxlen)
                l = maxlen;
        *len = l;
        *code = nondet_bd_u64() & ((1ull << l) - 1);
}

static inline void
bd_get_len_code(struct isal_hufftables *hufftables, uint32_t length, uint64_t *code, uint64_t *len)
{
        __CPROVER_assert(hufftables == g_huff, "get_len_code: the stream's table");
        __CPROVER_assert(3 <= length && length <= 258, "emitted match length in 3..258");
        __CPROVER_assert(length == w_it.mlen, "emitted match length is the compare258 result of this iteration");
        bd_code_any(code, len, 20);
}

static inline void
bd_get_dist_code(struct isal_hufftables *hufftables, uint32_t dist, uint64_t *code, uint64_t *len)
{
        __CPROVER_assert(hufftables == g_huff, "get_dist_code: the stream's table");
        __CPROVER_assert(1 <= dist && dist <= 32768 && dist <= g_dmask, "emitted distance in 1..dist_mask <= 32767");
        __CPROVER_assert(dist == w_it.dist, "emitted distance is the look-back distance that was compared");
        bd_code_any(code, len, 28);
}

static inline void
bd_get_lit_code(struct isal_hufftables *hufftables, uint32_t lit, uint64_t *code, uint64_t *len)
{
        __CPROVER_assert(hufftables == g_huff, "get_lit_code: the stream's table");
        __CPROVER_assert(lit == 256 || lit == g_lit, "emitted literal is the byte at next_in (or end-of-block)");
        bd_code_any(code, len, 15);
}

static inline void
bd_write_bits(struct BitBuf2 *me, uint64_t code, uint32_t count)
{
        uint32_t nbits;
        __CPROVER_assert(me == g_bb, "write_bits: the stream's bit buffer");
        __CPROVER_assert(me->m_bit_count <= 63 && count <= 63 - me->m_bit_count, "write_bits: the code fits below bit 63");
        __CPROVER_assert((me->m_bits >> me->m_bit_count) == 0, "write_bits: pending bits well formed");
        __CPROVER_assert(count == 0 ? code == 0 : (code >> count) == 0, "write_bits: code has at most count bits");
        __CPROVER_assert(__CPROVER_same_object(me->m_out_buf, g_out) &&
                                 __CPROVER_POINTER_OFFSET(me->m_out_buf) >= __CPROVER_POINTER_OFFSET(g_out) &&
                                 __CPROVER_POINTER_OFFSET(me->m_out_buf) + 8 <= __CPROVER_POINTER_OFFSET(g_out) + g_avout,
                         "write_bits: the 8-byte store lies inside [next_out, next_out + avail_out)");
        nbits = me->m_bit_count + count;
        me->m_out_buf += nbits >> 3;
        me->m_bit_count = nbits & 7;
        me->m_bits = nondet_bd_u64() & ((1ull << (nbits & 7)) - 1);
}
#endif /* ISAL_VERIF */

/* entry hooks of the callees (first statement of their bodies; the rest of the body becomes dead code) */
#define E_load_le_u32 return bd_load_le_u32(buf);
#define E_compute_hash return bd_compute_hash(data);
#define E_compare258 return bd_compare258(str1, str2, max_length);
#define E_get_len_code                                                                             \
        bd_get_len_code(hufftables, length, code, len);                                            \
        return;
#define E_get_dist_code                                                                            \
        bd_get_dist_code(hufftables, dist, code, len);                                             \
        return;
#define E_get_lit_code                                                                             \
        bd_get_lit_code(hufftables, lit, code, len);                                               \
        return;
#define E_write_bits                                                                               \
        bd_write_bits(me, code, count);                                                            \
        return;

#endif
