/* Callee contracts used when decode_huffman_code_block_stateless_base (igzip/igzip_inflate.c) is put
 * under contract (contracts/igzip_decode_loop.h, properties C02 stretch / C05 / C06 / C07).
 *
 *   PROVED here (enforced on the real bodies by harnesses dl_inflate_in_load, dl_inflate_in_read_bits,
 *   dl_byte_copy; then used by --replace-call-with-contract in the decode-loop harness):
 *       inflate_in_load, inflate_in_read_bits, byte_copy      -- pointer/bit accounting and frames only
 *   (the functional statements "which bits" / "LZ77 overlap semantics" are w-inflate's INF_BITS contracts;
 *   the decode-loop proof needs only the accounting below, which is weaker and has no ghost preconditions).
 *
 *   ASSUMED (never checked against the bodies, which index lookup tables built by
 *   make_inflate_huff_code_lit_len / _dist -- out of reach):
 *       decode_next_lit_len, decode_next_dist
 *   Their contracts say: at most the bit buffer and the input position change, bits are only consumed
 *   (at most 15 for a lit/len code), up to three packed symbols are returned, and a decoder that ran out
 *   of input leaves read_in_length < 0 (which happens only with avail_in == 0).  The returned symbols are
 *   otherwise ARBITRARY, i.e. the decode-loop proof holds for arbitrary table contents and input bytes.
 *
 * Ghost recording: with -DDL_RECORD the contracts additionally copy their results into w_* ghost
 * variables (ensures w_x == result; assigns w_x).  This is used only when the contracts REPLACE calls; the
 * enforced harnesses compile without DL_RECORD (the real bodies do not know the ghosts).
 *
 * The input window is described by __CPROVER_r_ok(next_in, avail_in) (objects are built by the
 * harnesses: exactly avail_in bytes, one byte beyond is a pointer-check failure). */
#ifndef STUBS_DECODE_H
#define STUBS_DECODE_H
#include "verif_common.h"
#include "igzip_lib.h"

/* ghost witnesses: ONE object (a single assigns target keeps the dfcc write-set checks small) */
struct dl_ghost {
        /* recorded by the replaced callee contracts (DL_RECORD) */
        uint32_t nl_lits, nl_cnt; /* last result of decode_next_lit_len */
        uint16_t dist;            /* last result of decode_next_dist */
        int dist_called;          /* decode_next_dist was called since the last reset */
        int32_t len_d;            /* read_in_length right after decode_next_dist */
        uint64_t extra;           /* last result of inflate_in_read_bits */
        int rb_called;
        uint8_t rb_n;             /* bit_count of that call */
        int32_t len_e;            /* read_in_length right after inflate_in_read_bits */
        /* bit-reader state right after the last inflate_in_load (= start of a symbol group) */
        uint64_t ld_read_in;
        int32_t ld_len;
        uint8_t *ld_next_in; /* compared only, never dereferenced */
        uint32_t ld_avail_in;
        /* recorded by the loop hooks of the decode loop (igzip_decode_loop.h) */
        uint8_t *s_next_out; /* compared only */
        uint32_t s_avail_out, s_total_out;
        int outer, in_inner;
        uint32_t lits, lit, cnt;
        uint8_t *out0;
        uint32_t avail0, total0;
};
extern struct dl_ghost W;
#define w_nl_lits W.nl_lits
#define w_nl_cnt W.nl_cnt
#define w_dist W.dist
#define w_dist_called W.dist_called
#define w_len_d W.len_d
#define w_extra W.extra
#define w_rb_called W.rb_called
#define w_rb_n W.rb_n
#define w_len_e W.len_e
#define w_ld_read_in W.ld_read_in
#define w_ld_len W.ld_len
#define w_ld_next_in W.ld_next_in
#define w_ld_avail_in W.ld_avail_in
extern int g_bc; /* ghost byte position for byte_copy */

#define DL_BITS(s) ((int64_t) (s)->read_in_length + 8 * (int64_t) (s)->avail_in)
#define DL_OLD_BITS(s)                                                                             \
        ((int64_t) __CPROVER_old((s)->read_in_length) + 8 * (int64_t) __CPROVER_old((s)->avail_in))
#define DL_IN_OK(s) __CPROVER_r_ok((s)->next_in, (s)->avail_in)
#define DL_LEN_OK(s) ((s)->read_in_length >= 0 && (s)->read_in_length <= 64)
/* the input position only advances, by exactly the number of bytes taken off avail_in */
#define DL_IN_ACCOUNT(s)                                                                           \
        ((s)->avail_in <= __CPROVER_old((s)->avail_in) &&                                          \
         (s)->next_in == __CPROVER_old((s)->next_in) + (__CPROVER_old((s)->avail_in) - (s)->avail_in))
#define DL_BITREADER_FRAME(s) (s)->read_in, (s)->read_in_length, (s)->next_in, (s)->avail_in

#ifdef DL_RECORD
#define DL_REC_ASSIGNS(...) __CPROVER_assigns(__VA_ARGS__)
#define DL_REC_ENSURES(c) __CPROVER_ensures(c)
#else
#define DL_REC_ASSIGNS(...)
#define DL_REC_ENSURES(c)
#endif

/* ---------------------------------------------------------------- inflate_in_load   (PROVED: dl_inflate_in_load)
 * refill: whole bytes move from next_in into read_in; the number of buffered bits grows by 8 per byte
 * taken, never beyond 64; nothing else changes; a negative length (out-of-input marker, only with
 * avail_in == 0) or a full buffer is left alone; the refill is maximal (>= 57 bits or input exhausted). */
#define C_inflate_in_load                                                                          \
        __CPROVER_requires(__CPROVER_rw_ok(state, sizeof(*state)) && DL_IN_OK(state))              \
        __CPROVER_requires(state->read_in_length <= 64 &&                                          \
                           (state->read_in_length >= 0 || state->avail_in == 0))                   \
        __CPROVER_assigns(DL_BITREADER_FRAME(state))                                               \
        DL_REC_ASSIGNS(w_ld_read_in, w_ld_len, w_ld_next_in, w_ld_avail_in)                        \
        __CPROVER_ensures(DL_IN_ACCOUNT(state))                                                    \
        __CPROVER_ensures(state->read_in_length >= __CPROVER_old(state->read_in_length) &&         \
                          state->read_in_length <= 64)                                             \
        __CPROVER_ensures((int64_t) state->read_in_length - __CPROVER_old(state->read_in_length) == \
                          8 * (int64_t) (__CPROVER_old(state->avail_in) - state->avail_in))        \
        __CPROVER_ensures(state->read_in_length >= 57 || state->avail_in == 0 ||                   \
                          __CPROVER_old(state->read_in_length) < 0)                                \
        __CPROVER_ensures(__CPROVER_old(state->read_in_length) < 0 ==>                             \
                          (state->read_in_length == __CPROVER_old(state->read_in_length) &&        \
                           state->read_in == __CPROVER_old(state->read_in)))                       \
        DL_REC_ENSURES(w_ld_read_in == state->read_in && w_ld_len == state->read_in_length &&      \
                       w_ld_next_in == state->next_in && w_ld_avail_in == state->avail_in)
/* byte-wise refill loop (fewer than 8 input bytes left) */
#define L_inflate_in_load_1                                                                        \
        __CPROVER_assigns(temp, DL_BITREADER_FRAME(state))                                         \
        __CPROVER_loop_invariant(state->read_in_length >= 0 && state->read_in_length <= 64 &&      \
                                 state->avail_in <= __CPROVER_loop_entry(state->avail_in) &&       \
                                 __CPROVER_same_object(state->next_in, __CPROVER_loop_entry(state->next_in)) && \
                                 state->next_in == __CPROVER_loop_entry(state->next_in) +          \
                                         (__CPROVER_loop_entry(state->avail_in) - state->avail_in) && \
                                 (int64_t) state->read_in_length - __CPROVER_loop_entry(state->read_in_length) == \
                                         8 * (int64_t) (__CPROVER_loop_entry(state->avail_in) - state->avail_in)) \
        __CPROVER_decreases(state->avail_in)
#define H_inflate_in_load_1 VCANARY();

/* ---------------------------------------------------------------- inflate_in_read_bits  (PROVED: dl_inflate_in_read_bits)
 * load + take bit_count <= 30 bits: length' = length - n + 8 * bytes taken; the result has at most n bits;
 * running out of input is signalled by length' < 0, which implies avail_in' == 0. */
#define C_inflate_in_read_bits                                                                     \
        __CPROVER_requires(__CPROVER_rw_ok(state, sizeof(*state)) && DL_IN_OK(state))              \
        __CPROVER_requires(DL_LEN_OK(state) && bit_count <= 30)                                    \
        __CPROVER_assigns(DL_BITREADER_FRAME(state))                                               \
        DL_REC_ASSIGNS(w_extra, w_rb_called, w_rb_n, w_len_e)                                      \
        __CPROVER_ensures(DL_IN_ACCOUNT(state))                                                    \
        __CPROVER_ensures(state->read_in_length <= 64 && state->read_in_length >= -30)             \
        __CPROVER_ensures((int64_t) state->read_in_length ==                                       \
                          (int64_t) __CPROVER_old(state->read_in_length) - (int64_t) bit_count +   \
                                  8 * (int64_t) (__CPROVER_old(state->avail_in) - state->avail_in)) \
        __CPROVER_ensures(state->read_in_length >= 0 || state->avail_in == 0)                      \
        __CPROVER_ensures(__CPROVER_return_value < (1ULL << bit_count))                            \
        DL_REC_ENSURES(w_extra == __CPROVER_return_value && w_rb_called == 1 &&                    \
                       w_rb_n == bit_count && w_len_e == state->read_in_length)

/* ---------------------------------------------------------------- byte_copy   (PROVED: dl_byte_copy)
 * writes exactly dest[0 .. repeat_length), reads only [dest - lookback_distance, dest + repeat_length);
 * overlapping-copy semantics at a ghost position (the full functional statement is w-inflate's). */
#define DL_MAX_MATCH 258 /* RFC 1951: longest match; the decode loop never asks for more */
#ifdef DL_BC_FUNC
/* LZ77 copy semantics at the ghost position: byte g equals the byte lookback_distance before it */
#define DL_BC_POST                                                                                 \
        __CPROVER_ensures((0 <= g_bc && g_bc < repeat_length) ==>                                  \
                          __CPROVER_old(dest)[g_bc] == (__CPROVER_old(dest) - lookback_distance)[g_bc])
#define DL_BC_INV                                                                                  \
        __CPROVER_loop_invariant((0 <= g_bc && g_bc < __CPROVER_loop_entry(repeat_length) - repeat_length) ==> \
                                 __CPROVER_loop_entry(dest)[g_bc] == __CPROVER_loop_entry(src)[g_bc])
/* value-set normalisation of the two walking pointers after the loop havoc (identity, asserted first;
 * see igzip_decode_loop.h DL_NORMALISE) */
extern uint8_t *dl_bc_d0;
#define DL_BC_GHOST_ASSIGNS __CPROVER_assigns(dl_bc_d0)
#define E_byte_copy dl_bc_d0 = dest;
#define DL_BC_NORM                                                                                 \
        {                                                                                          \
                size_t k__ = __CPROVER_POINTER_OFFSET(dest) - __CPROVER_POINTER_OFFSET(dl_bc_d0);  \
                __CPROVER_assert(dest == dl_bc_d0 + k__ && src == dl_bc_d0 - lookback_distance + k__, \
                                 "normalising dest/src is the identity");                          \
                dest = dl_bc_d0 + k__;                                                             \
                src = dl_bc_d0 - lookback_distance + k__;                                          \
        }
#else
#define DL_BC_GHOST_ASSIGNS
#define DL_BC_NORM
#define DL_BC_POST __CPROVER_ensures(__CPROVER_same_object(dest, __CPROVER_old(dest)))
#define DL_BC_INV
#endif
#define C_byte_copy                                                                                \
        __CPROVER_requires(repeat_length >= 0 && repeat_length <= DL_MAX_MATCH &&                  \
                           lookback_distance <= 0x7fffffff)                                        \
        __CPROVER_requires(__CPROVER_w_ok(dest, (size_t) repeat_length) &&                         \
                           __CPROVER_POINTER_OFFSET(dest) >= lookback_distance &&                  \
                           __CPROVER_r_ok(dest - lookback_distance, (size_t) repeat_length))       \
        __CPROVER_assigns(__CPROVER_object_upto(dest, (size_t) repeat_length))                     \
        DL_BC_GHOST_ASSIGNS                                                                        \
        DL_BC_POST
#define L_byte_copy_1                                                                              \
        __CPROVER_assigns(dest, src, repeat_length, __CPROVER_object_upto(dest, (size_t) repeat_length)) \
        __CPROVER_loop_invariant(0 <= repeat_length && repeat_length <= __CPROVER_loop_entry(repeat_length) && \
                                 __CPROVER_same_object(dest, __CPROVER_loop_entry(dest)) &&        \
                                 __CPROVER_same_object(src, __CPROVER_loop_entry(dest)) &&         \
                                 dest == __CPROVER_loop_entry(dest) +                              \
                                                 (__CPROVER_loop_entry(repeat_length) - repeat_length) && \
                                 src == __CPROVER_loop_entry(src) +                                \
                                                (__CPROVER_loop_entry(repeat_length) - repeat_length)) \
        DL_BC_INV                                                                                  \
        __CPROVER_decreases(repeat_length)
#define H_byte_copy_1 DL_BC_NORM VCANARY();

/* ---------------------------------------------------------------- decode_next_lit_len   (ASSUMED)
 * Packing (igzip_inflate.c, LARGE_* constants): *sym_count in 0..3 (two bits), *next_lits has 25 bits:
 * sym_count-1 literals of 8 bits followed by the last symbol; sym_count == 0 marks an invalid code
 * (then no bit need be consumed); a code is 1..15 bits long. */
#define C_decode_next_lit_len                                                                      \
        __CPROVER_requires(__CPROVER_rw_ok(state, sizeof(*state)) && DL_IN_OK(state) && DL_LEN_OK(state)) \
        __CPROVER_requires(__CPROVER_w_ok(next_lits, 4) && __CPROVER_w_ok(sym_count, 4))           \
        __CPROVER_assigns(*next_lits, *sym_count, DL_BITREADER_FRAME(state))                       \
        DL_REC_ASSIGNS(w_nl_lits, w_nl_cnt)                                                        \
        __CPROVER_ensures(*sym_count <= 3 && *next_lits < (1u << 25))                              \
        /* table well-formedness (ASSUMED): below the sym_count-1 packed literals sits ONE symbol of at \
         * most 10 bits (symbols are <= 512, INVALID_SYMBOL is reported through sym_count == 0) */      \
        __CPROVER_ensures(*sym_count != 0 ==> (*next_lits >> (8 * (*sym_count - 1))) < 1024)       \
        __CPROVER_ensures(DL_IN_ACCOUNT(state))                                                    \
        __CPROVER_ensures(state->read_in_length <= 64 && state->read_in_length >= -15 &&           \
                          (state->read_in_length >= 0 || state->avail_in == 0))                    \
        __CPROVER_ensures(DL_BITS(state) <= DL_OLD_BITS(state) && DL_BITS(state) >= DL_OLD_BITS(state) - 15) \
        __CPROVER_ensures(*sym_count != 0 ==> DL_BITS(state) < DL_OLD_BITS(state))                 \
        DL_REC_ENSURES(w_nl_lits == *next_lits && w_nl_cnt == *sym_count)

/* ---------------------------------------------------------------- decode_next_dist   (ASSUMED)
 * returns an arbitrary 16-bit value (the caller truncates it to uint8_t); an invalid code may subtract up
 * to 15 + 1023 from read_in_length (igzip_inflate.c: `read_in_length -= next_sym`). */
#define C_decode_next_dist                                                                         \
        __CPROVER_requires(__CPROVER_rw_ok(state, sizeof(*state)) && DL_IN_OK(state) && DL_LEN_OK(state)) \
        __CPROVER_assigns(DL_BITREADER_FRAME(state))                                               \
        DL_REC_ASSIGNS(w_dist, w_dist_called, w_len_d)                                             \
        __CPROVER_ensures(DL_IN_ACCOUNT(state))                                                    \
        __CPROVER_ensures(state->read_in_length <= 64 && state->read_in_length >= -1100)           \
        __CPROVER_ensures(DL_BITS(state) <= DL_OLD_BITS(state))                                    \
        DL_REC_ENSURES(w_dist == __CPROVER_return_value && w_dist_called == 1 &&                   \
                       w_len_d == state->read_in_length)

#endif
