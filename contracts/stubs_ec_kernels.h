/* ASSUMED contracts for the NASM erasure-code kernels called by erasure_code/ec_highlevel_func.c
 * (properties C03, C13).  Nothing in this file is proved: the kernels are assembly.  Every harness that
 * uses one of these stubs lists it under trusted=[...] in harness/reg_ecglue.py.
 *
 * What an N-row kernel is ASSUMED to do (the statement that is *proved* for the portable
 * gf_vect_dot_prod_base / gf_vect_mad_base, lifted to N rows):
 *   gf_Nvect_dot_prod_<isa>(len,k,T,data,C):  for i<N, j<len: C[i][j] = XOR_{s<k} data[s][j] * coef(T + i*k*STRIDE, s)
 *   gf_Nvect_mad_<isa>(len,k,vec_i,T,data,C): for i<N, j<len: C[i][j] ^= data[j] * coef(T + i*k*STRIDE, vec_i)
 *   (1-row kernels get the destination block itself instead of C), STRIDE = 32 (nibble tables) or 8 (GFNI
 *   affine matrices); they read N pointers at C, N*k*STRIDE table bytes at T and need len >= 16/32/64
 *   (sse,avx / avx2 / avx512: `sub len,VEC; jl .return_fail` in the .asm files; the *_gfni kernels take any len).
 *
 * What the stub *records* so that the glue can be verified (the data-level effect is not modelled: a
 * counterexample to the glue property is a call pattern, not data).  For the ghost row g_l:
 *   g_hits    += 1 iff this call produces row g_l, i.e.
 *                 N-row kernel: C == coding0 + b and b <= g_l < b+N    (b = slot index, from the pointer offset of C)
 *                 1-row kernel: dest == block g_l                       (the harness makes block r = g_arena + r)
 *   g_hit_tbl  = table pointer the kernel uses for that row  (T + (g_l-b)*k*STRIDE)
 *   g_hit_tbl2 = the same for row g_l+1 (the glue contract states the table stride between consecutive rows)
 * The `requires` clauses are CHECKED at every call site of the glue (that is the useful direction):
 *   same len, k, vec_i, data as the glue received; len >= VEC; C inside the caller's pointer array, aligned to a
 *   slot, all N slots among the caller's `rows` slots; the 1-row dest is one of the caller's `rows` blocks.
 * The stubs never dereference `coding`: after the loop-contract havoc its value set is unknown to CBMC and a
 * dereference fans out over every object of the program. */
#ifndef STUBS_EC_KERNELS_H
#define STUBS_EC_KERNELS_H
#include "verif_common.h"
#include "erasure_code.h"

#define EG_MAXROWS 255 /* GF(2^8): at most 255 distinct rows/columns make sense */

/* ghost state of the glue contracts (defined in harness/ec/ec_glue.c) */
extern int g_l;                         /* ghost row */
extern int g_len, g_k, g_rows, g_vec_i; /* ghost copies of the scalar arguments (tied by == in requires) */
extern unsigned char *g_t0;             /* g_tbls at entry (snapshot by assignment in the E_ hook) */
extern unsigned char **g_c0;            /* coding at entry (snapshot) */
extern void *g_data;                    /* data at entry   (snapshot) */
extern unsigned char *g_arena;          /* block r of the harness is g_arena + r (assigned by the harness) */
extern size_t g_tsize;                  /* size of the table object */
extern int g_hits;                      /* number of kernel calls that produced row g_l */
extern unsigned char *g_hit_tbl;        /* table pointer used for row g_l */
extern unsigned char *g_hit_tbl2;       /* table pointer used for row g_l+1 */
extern int g_base_calls;                /* calls of the portable fallback */

/* r*k for r,k in 0..255 (requires clauses): the value-preserving casts keep the multiplier 8x8 bit for the
 * SAT back end (a 64x64 multiplier with operands bounded only by assumptions does not close) */
#define EG_PROD(r, k) ((size_t) ((unsigned) (unsigned char) (r) * (unsigned) (unsigned char) (k)))

/* slot index of `coding` inside the caller's pointer array (shift, not '/': a divider circuit is a multiplier) */
_Static_assert(sizeof(unsigned char *) == 8, "LP64 model");
#define EGK_ROW0 ((long) (__CPROVER_POINTER_OFFSET(coding) >> 3))
#define EGK_REL (g_l - EGK_ROW0)
#define EGK_COV(N) (g_l < g_rows && EGK_ROW0 <= g_l && g_l < EGK_ROW0 + (N))
/* row of a destination block */
#define EGK_ROW1 ((long) __CPROVER_POINTER_OFFSET(dest))
#define EGK_COV1 (g_l < g_rows && EGK_ROW1 == g_l)
/* the same for the second ghost row g_l+1 */
#define EGK_COV2(N) (g_l + 1 < g_rows && EGK_ROW0 <= g_l + 1 && g_l + 1 < EGK_ROW0 + (N))
#define EGK_COV12 (g_l + 1 < g_rows && EGK_ROW1 == g_l + 1)
/* p == q + n without pointer arithmetic in the contract (no side checks, no object-size reasoning) */
#define EG_PTR_AT(p, q, n)                                                                         \
        (__CPROVER_same_object(p, q) && __CPROVER_POINTER_OFFSET(p) == __CPROVER_POINTER_OFFSET(q) + (n))

#define EGK_ARGS_DOT (len == g_len && k == g_k && (void *) data == g_data)
#define EGK_ARGS_MAD (len == g_len && k == g_k && (void *) data == g_data && vec_i == g_vec_i)

/* N-row kernel, N >= 2 */
#define EGK_N(N, STRIDE, THR, ARGS)                                                                \
        __CPROVER_requires(ARGS)                                                                   \
        __CPROVER_requires(len >= (THR))                                                           \
        __CPROVER_requires(__CPROVER_same_object(coding, g_c0) &&                                  \
                           (__CPROVER_POINTER_OFFSET(coding) & 7) == 0)                            \
        __CPROVER_requires(EGK_ROW0 + (N) <= g_rows)                                               \
        __CPROVER_assigns(g_hits, g_hit_tbl, g_hit_tbl2)                                           \
        __CPROVER_ensures(g_hits == __CPROVER_old(g_hits) + (EGK_COV(N) ? 1 : 0))                  \
        __CPROVER_ensures(EGK_COV(N) ==> EG_PTR_AT(g_hit_tbl, g_tbls, EG_PROD(EGK_REL, k) * (STRIDE))) \
        __CPROVER_ensures(!EGK_COV(N) ==> g_hit_tbl == __CPROVER_old(g_hit_tbl))                   \
        __CPROVER_ensures(EGK_COV2(N) ==>                                                          \
                          EG_PTR_AT(g_hit_tbl2, g_tbls, EG_PROD(EGK_REL + 1, k) * (STRIDE)))       \
        __CPROVER_ensures(!EGK_COV2(N) ==> g_hit_tbl2 == __CPROVER_old(g_hit_tbl2))

/* 1-row kernel: receives the destination block; the row is identified by the pointer value */
#define EGK_1(STRIDE, THR, ARGS)                                                                   \
        __CPROVER_requires(ARGS)                                                                   \
        __CPROVER_requires(len >= (THR))                                                           \
        __CPROVER_requires(__CPROVER_same_object(dest, g_arena) && EGK_ROW1 < g_rows)              \
        __CPROVER_assigns(g_hits, g_hit_tbl, g_hit_tbl2)                                           \
        __CPROVER_ensures(g_hits == __CPROVER_old(g_hits) + (EGK_COV1 ? 1 : 0))                    \
        __CPROVER_ensures(EGK_COV1 ==> g_hit_tbl == g_tbls)                                        \
        __CPROVER_ensures(!EGK_COV1 ==> g_hit_tbl == __CPROVER_old(g_hit_tbl))                     \
        __CPROVER_ensures(EGK_COV12 ==> g_hit_tbl2 == g_tbls)                                      \
        __CPROVER_ensures(!EGK_COV12 ==> g_hit_tbl2 == __CPROVER_old(g_hit_tbl2))

#define EGK_DOT_1(RET, ISA, STRIDE, THR)                                                           \
        RET gf_vect_dot_prod_##ISA(int len, int k, unsigned char *g_tbls, unsigned char **data,    \
                                   unsigned char *dest) EGK_1(STRIDE, THR, EGK_ARGS_DOT);
#define EGK_DOT_N(RET, N, ISA, STRIDE, THR)                                                        \
        RET gf_##N##vect_dot_prod_##ISA(int len, int k, unsigned char *g_tbls,                     \
                                        unsigned char **data, unsigned char **coding)              \
                EGK_N(N, STRIDE, THR, EGK_ARGS_DOT);
#define EGK_MAD_1(ISA, STRIDE, THR)                                                                \
        void gf_vect_mad_##ISA(int len, int k, int vec_i, unsigned char *g_tbls,                   \
                               unsigned char *data, unsigned char *dest)                           \
                EGK_1(STRIDE, THR, EGK_ARGS_MAD);
#define EGK_MAD_N(N, ISA, STRIDE, THR)                                                             \
        void gf_##N##vect_mad_##ISA(int len, int k, int vec_i, unsigned char *g_tbls,              \
                                    unsigned char *data, unsigned char **coding)                   \
                EGK_N(N, STRIDE, THR, EGK_ARGS_MAD);

#define EGK_DOT_1TO3(RET, ISA, STRIDE, THR)                                                        \
        EGK_DOT_1(RET, ISA, STRIDE, THR)                                                           \
        EGK_DOT_N(RET, 2, ISA, STRIDE, THR)                                                        \
        EGK_DOT_N(RET, 3, ISA, STRIDE, THR)
#define EGK_DOT_1TO6(RET, ISA, STRIDE, THR)                                                        \
        EGK_DOT_1TO3(RET, ISA, STRIDE, THR)                                                        \
        EGK_DOT_N(RET, 4, ISA, STRIDE, THR)                                                        \
        EGK_DOT_N(RET, 5, ISA, STRIDE, THR)                                                        \
        EGK_DOT_N(RET, 6, ISA, STRIDE, THR)
#define EGK_MAD_1TO5(ISA, STRIDE, THR)                                                             \
        EGK_MAD_1(ISA, STRIDE, THR)                                                                \
        EGK_MAD_N(2, ISA, STRIDE, THR)                                                             \
        EGK_MAD_N(3, ISA, STRIDE, THR)                                                             \
        EGK_MAD_N(4, ISA, STRIDE, THR)                                                             \
        EGK_MAD_N(5, ISA, STRIDE, THR)
#define EGK_MAD_1TO6(ISA, STRIDE, THR)                                                             \
        EGK_MAD_1TO5(ISA, STRIDE, THR)                                                             \
        EGK_MAD_N(6, ISA, STRIDE, THR)

/* 32-byte nibble-table kernels */
EGK_DOT_1TO6(void, sse, 32, 16)
EGK_DOT_1TO6(void, avx, 32, 16)
EGK_DOT_1TO6(void, avx2, 32, 32)
EGK_DOT_1TO6(int, avx512, 32, 64) /* declared `extern int` in ec_highlevel_func.c */
EGK_MAD_1TO6(sse, 32, 16)
EGK_MAD_1TO6(avx, 32, 16)
EGK_MAD_1TO6(avx2, 32, 32)
EGK_MAD_1TO6(avx512, 32, 64)
/* 8-byte GFNI affine-matrix kernels: masked tails, any len >= 0 */
EGK_DOT_1TO6(void, avx512_gfni, 8, 0)
EGK_DOT_1TO3(void, avx2_gfni, 8, 0)
EGK_MAD_1TO6(avx512_gfni, 8, 0)
EGK_MAD_1TO5(avx2_gfni, 8, 0)

/* portable fallbacks (their own contracts are proved in the ec_base family): here only the call is
 * recorded, and the requires clause checks that every argument is passed through unchanged */
void
ec_encode_data_base(int len, int k, int rows, unsigned char *g_tbls, unsigned char **data,
                    unsigned char **coding)
        /* clang-format off */
        __CPROVER_requires(len == g_len && k == g_k && rows == g_rows)
        __CPROVER_requires(g_tbls == g_t0 && (void *) data == g_data && coding == g_c0)
        __CPROVER_assigns(g_base_calls)
        __CPROVER_ensures(g_base_calls == __CPROVER_old(g_base_calls) + 1);
/* clang-format on */
void
ec_encode_data_update_base(int len, int k, int rows, int vec_i, unsigned char *g_tbls,
                           unsigned char *data, unsigned char **coding)
        /* clang-format off */
        __CPROVER_requires(len == g_len && k == g_k && rows == g_rows && vec_i == g_vec_i)
        __CPROVER_requires(g_tbls == g_t0 && (void *) data == g_data && coding == g_c0)
        __CPROVER_assigns(g_base_calls)
        __CPROVER_ensures(g_base_calls == __CPROVER_old(g_base_calls) + 1);
/* clang-format on */

#endif
