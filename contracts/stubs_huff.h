/* Contracts of callees that the igzip huff/lz harnesses replace (--replace-call-with-contract).
 *
 * include/unaligned.h loads/stores: the bodies are memcpy() of a constant size; CBMC's memcpy model on an
 * object of symbolic size at a symbolic offset is what made compare258/encode_deflate_icf_base time out, so
 * callers use these byte-wise contracts instead.  They are PROVED against the real bodies by the harnesses
 * load_le_u64 / load_le_u32 / store_le_u64 / store_native_u32 (UA_MEM = is_fresh there); where a caller
 * replaces the call, UA_MEM is r_ok/w_ok (an asserted precondition: the 8 (4) bytes must be inside the object).
 * Little-endian layout is the definition of load_le / store_le (x86-64 target: native == le). */
#ifndef STUBS_HUFF_H
#define STUBS_HUFF_H
#include "verif_common.h"

#ifdef UA_PROVE
#define UA_RMEM(p, n) __CPROVER_is_fresh(p, n)
#define UA_WMEM(p, n) __CPROVER_is_fresh(p, n)
#else
#define UA_RMEM(p, n) __CPROVER_r_ok(p, n)
#define UA_WMEM(p, n) __CPROVER_w_ok(p, n)
#endif

#define UA_LE32(b)                                                                                 \
        ((uint32_t) (b)[0] | ((uint32_t) (b)[1] << 8) | ((uint32_t) (b)[2] << 16) | ((uint32_t) (b)[3] << 24))
#define UA_LE64(b) ((uint64_t) UA_LE32(b) | ((uint64_t) UA_LE32((b) + 4) << 32))

#define C_load_le_u64                                                                              \
        __CPROVER_requires(UA_RMEM(buf, 8))                                                        \
        __CPROVER_assigns()                                                                        \
        __CPROVER_ensures(__CPROVER_return_value == UA_LE64(buf))
#define C_load_le_u32                                                                              \
        __CPROVER_requires(UA_RMEM(buf, 4))                                                        \
        __CPROVER_assigns()                                                                        \
        __CPROVER_ensures(__CPROVER_return_value == UA_LE32(buf))
#define C_load_native_u64 C_load_le_u64
#define C_load_native_u32 C_load_le_u32

#define UA_ST32(b, v)                                                                              \
        ((b)[0] == (uint8_t) (v) && (b)[1] == (uint8_t) ((v) >> 8) && (b)[2] == (uint8_t) ((v) >> 16) && \
         (b)[3] == (uint8_t) ((v) >> 24))
#define C_store_le_u64                                                                             \
        __CPROVER_requires(UA_WMEM(buf, 8))                                                        \
        __CPROVER_assigns(__CPROVER_object_upto(buf, 8))                                           \
        __CPROVER_ensures(UA_ST32(buf, val) && UA_ST32(buf + 4, val >> 32))
#define C_store_native_u32                                                                         \
        __CPROVER_requires(UA_WMEM(buf, 4))                                                        \
        __CPROVER_assigns(__CPROVER_object_upto(buf, 4))                                           \
        __CPROVER_ensures(UA_ST32(buf, val))
#define C_store_le_u32 C_store_native_u32

#endif
