/* Contracts of callees that the igzip huff/lz harnesses replace (--replace-call-with-contract).
 *
 * include/unaligned.h loads/stores: the bodies are memcpy() of a constant size; CBMC's memcpy model on an
 * object of symbolic size at a symbolic offset is what made compare258/encode_deflate_icf_base time out, so
 * callers use these byte-wise contracts instead.  They are PROVED against the real bodies by the harnesses
 * load_le_u64 / load_le_u32 / store_le_u64 / store_native_u32 (UA_MEM = is_fresh there); where a caller
 * replaces the call, UA_MEM is r_ok/w_ok (an asserted precondition: the 8 (4) bytes must be inside the object).
 * Little-endian layout is the definition of load_le / store_le (x86-64 target: native == le). */
#ifndef STUBS_HUFF_H
#define STUBS_HUFF_H
#include "verif_common.h"

#if defined(STUBS_UA) || defined(UA_PROVE)
#ifdef UA_PROVE
#define UA_RMEM(p, n) __CPROVER_is_fresh(p, n)
#define UA_WMEM(p, n) __CPROVER_is_fresh(p, n)
#else
#define UA_RMEM(p, n) __CPROVER_r_ok(p, n)
#define UA_WMEM(p, n) __CPROVER_w_ok(p, n)
#endif

#define UA_LE32(b)                                                                                 \
        ((uint32_t) (b)[0] | ((uint32_t) (b)[1] << 8) | ((uint32_t) (b)[2] << 16) | ((uint32_t) (b)[3] << 24))
#define UA_LE64(b) ((uint64_t) UA_LE32(b) | ((uint64_t) UA_LE32((b) + 4) << 32))

#define C_load_le_u64                                                                              \
        __CPROVER_requires(UA_RMEM(buf, 8))                                                        \
        __CPROVER_assigns()                                                                        \
        __CPROVER_ensures(__CPROVER_return_value == UA_LE64(buf))
#define C_load_le_u32                                                                              \
        __CPROVER_requires(UA_RMEM(buf, 4))                                                        \
        __CPROVER_assigns()                                                                        \
        __CPROVER_ensures(__CPROVER_return_value == UA_LE32(buf))
#define C_load_native_u64 C_load_le_u64
#define C_load_native_u32 C_load_le_u32

#define UA_ST32(b, v)                                                                              \
        ((b)[0] == (uint8_t) (v) && (b)[1] == (uint8_t) ((v) >> 8) && (b)[2] == (uint8_t) ((v) >> 16) && \
         (b)[3] == (uint8_t) ((v) >> 24))
#define C_store_le_u64                                                                             \
        __CPROVER_requires(UA_WMEM(buf, 8))                                                        \
        __CPROVER_assigns(__CPROVER_object_upto(buf, 8))                                           \
        __CPROVER_ensures(UA_ST32(buf, val) && UA_ST32(buf + 4, val >> 32))
#define C_store_native_u32                                                                         \
        __CPROVER_requires(UA_WMEM(buf, 4))                                                        \
        __CPROVER_assigns(__CPROVER_object_upto(buf, 4))                                           \
        __CPROVER_ensures(UA_ST32(buf, val))
#define C_store_le_u32 C_store_native_u32
#endif /* STUBS_UA || UA_PROVE */

#ifdef STUBS_HASH
/* ---- isal_deflate_hash_lvl0..3 (igzip_deflate_hash.asm through igzip_multibinary.asm): ASSUMED ----
 * Recorded uninterpreted routine: the stub records its arguments and which level entry was called.  The new
 * values of the hash heads are NOT modelled (no contract here states anything about the table after
 * hashing; a havoc of a symbolic-length slice inside struct isal_dict overflows CBMC's simplifier).  Its requires clauses are CHECKED at the call
 * sites: dictionary readable for dict_len bytes, table writable for hash_mask+1 heads, and every one of
 * those heads is 0xffff on entry (ghost index g_hi) -- "-1 = no previous occurrence" for the heads that
 * hashing does not set. */
extern uint16_t *w_h_table;
extern uint8_t *w_h_dict;
extern uint32_t w_h_mask, w_h_index, w_h_len, w_h_lvl, w_h_calls;
extern uint32_t g_hi;
#define HASH_STUB(NAME, LVL)                                                                       \
        void NAME(uint16_t *hash_table, uint32_t hash_mask, uint32_t current_index, uint8_t *dict, \
                  uint32_t dict_len)                                                               \
                __CPROVER_requires(hash_mask < 0x10000 && __CPROVER_r_ok(dict, dict_len))          \
                __CPROVER_requires(__CPROVER_w_ok(hash_table, ((size_t) hash_mask + 1) * 2))       \
                __CPROVER_requires(g_hi <= hash_mask ==> hash_table[g_hi] == 0xffff)               \
                __CPROVER_assigns(w_h_table, w_h_dict, w_h_mask, w_h_index, w_h_len, w_h_lvl, w_h_calls) \
                __CPROVER_ensures(w_h_table == hash_table && w_h_mask == hash_mask &&              \
                                  w_h_index == current_index && w_h_dict == dict && w_h_len == dict_len && \
                                  w_h_lvl == (LVL) && w_h_calls == __CPROVER_old(w_h_calls) + 1)
/* clang-format off */
HASH_STUB(isal_deflate_hash_lvl0, 0);
HASH_STUB(isal_deflate_hash_lvl1, 1);
HASH_STUB(isal_deflate_hash_lvl2, 2);
HASH_STUB(isal_deflate_hash_lvl3, 3);
/* clang-format on */
#endif

#ifdef STUBS_MEMCPY
/* ---- memcpy: TRUSTED recorded model of C11 7.24.2.1 ("copies n characters from s2 into s1").
 * CBMC's built-in model (and any contract that havocs a slice of symbolic length) overflows the simplifier /
 * runs out of memory for a symbolic n into the 64 KiB buffer inside struct isal_zstream.  This model
 *   - asserts that [dst,dst+n) is writable, [src,src+n) readable and that the ranges do not overlap,
 *   - records (dst, src, n) of call number k (k = 0, 1) in w_mc_dst[k], w_mc_src[k], w_mc_n[k] and counts
 *     the calls, so that the caller's contract can demand "exactly one copy, of exactly these n bytes, from
 *     exactly this source position to exactly this destination",
 *   - copies the byte at the unconstrained ghost position g_m0 (< n) -- every byte write of the real memcpy
 *     is represented, so the frame (assigns) check of the caller sees a write at an arbitrary offset < n, and
 *     a postcondition that observes the destination at a position tied to g_m0 sees the copied value.
 * It is NOT a model for postconditions about fixed positions; none of the contracts using it has one.
 * The harness TU redirects memcpy to this function with a macro around the #include of the source file. */
extern size_t g_m0;
extern void *w_mc_dst[2];
extern const void *w_mc_src[2];
extern size_t w_mc_n[2];
extern uint32_t w_mc_calls;
static inline void *
lz_memcpy(void *dst, const void *src, size_t n)
{
        __CPROVER_assert(__CPROVER_w_ok(dst, n), "memcpy: destination range writable");
        __CPROVER_assert(__CPROVER_r_ok(src, n), "memcpy: source range readable");
        __CPROVER_assert(n == 0 || !__CPROVER_same_object(dst, src) ||
                                 __CPROVER_POINTER_OFFSET(dst) + n <= __CPROVER_POINTER_OFFSET(src) ||
                                 __CPROVER_POINTER_OFFSET(src) + n <= __CPROVER_POINTER_OFFSET(dst),
                         "memcpy: ranges do not overlap");
        if (w_mc_calls < 2) {
                w_mc_dst[w_mc_calls] = dst;
                w_mc_src[w_mc_calls] = src;
                w_mc_n[w_mc_calls] = n;
        }
        w_mc_calls++;
#ifndef LZ_MEMCPY_NO_DATA
        if (g_m0 < n)
                ((uint8_t *) dst)[g_m0] = ((const uint8_t *) src)[g_m0];
#endif
        return dst;
}
#endif

#endif
