/* ASSUMED contracts for symbols of the compressor that CBMC cannot read (NASM kernels reached through
 * the multibinary dispatcher, libc functions without a CBMC model).  Always used through
 * --replace-call-with-contract and always listed in `trusted=[...]` of the registry entry.
 *
 * The checksum kernels are modelled as *recorded uninterpreted functions*: the stub records its
 * arguments in ghost globals (w_*), counts the call, and returns an unconstrained ghost value
 * (g_*_ret).  A caller's contract can then say "the routine selected by gzip_flag was called exactly
 * once, on exactly (running value, start, length), and its result became the running value".
 * What the kernels compute is C04 (their _base twins are proved there). */
#ifndef STUBS_IGZIP_H
#define STUBS_IGZIP_H
#include <stdint.h>
#include <stddef.h>
#include <wchar.h>

/* ---- crc32_gzip_refl (crc/crc32_gzip_refl_*.asm through crc_multibinary.asm) ---- */
extern uint32_t w_crc_init, w_crc_calls, g_crc_ret;
extern uint64_t w_crc_len;
extern const unsigned char *w_crc_buf;
uint32_t
crc32_gzip_refl(uint32_t init_crc, const unsigned char *buf, uint64_t len)
        /* clang-format off */
__CPROVER_assigns(w_crc_init, w_crc_len, w_crc_buf, w_crc_calls)
__CPROVER_ensures(w_crc_init == init_crc && w_crc_len == len && w_crc_buf == buf)
__CPROVER_ensures(w_crc_calls == __CPROVER_old(w_crc_calls) + 1)
__CPROVER_ensures(__CPROVER_return_value == g_crc_ret);
/* clang-format on */

/* ---- isal_adler32 (igzip/adler32_*.asm through igzip_multibinary.asm) ----
 * ASSUMED additionally: the result is a reduced Adler-32 (A < 65521), as proved for adler32_base. */
extern uint32_t w_ad_init, w_ad_calls, g_ad_ret;
extern uint64_t w_ad_len;
extern const unsigned char *w_ad_buf;
uint32_t
isal_adler32(uint32_t init, const unsigned char *buf, uint64_t len)
        /* clang-format off */
__CPROVER_assigns(w_ad_init, w_ad_len, w_ad_buf, w_ad_calls)
__CPROVER_ensures(w_ad_init == init && w_ad_len == len && w_ad_buf == buf)
__CPROVER_ensures(w_ad_calls == __CPROVER_old(w_ad_calls) + 1)
__CPROVER_ensures(__CPROVER_return_value == g_ad_ret && (g_ad_ret & 0xffff) < 65521);
/* clang-format on */

/* ---- wmemset: no CBMC model.  C11 7.29.4.2.5: copies c into each of the first n wide characters.
 * Stated for one ghost position g_wm_i (unconstrained, so for every position); wchar_t is 4 bytes. */
extern size_t g_wm_i;
wchar_t *
wmemset(wchar_t *s, wchar_t c, size_t n)
        /* clang-format off */
__CPROVER_requires(n <= 0x1000000 && __CPROVER_w_ok(s, n * sizeof(wchar_t)))
__CPROVER_assigns(__CPROVER_object_upto(s, n * sizeof(wchar_t)))
__CPROVER_ensures(g_wm_i < n ==> s[g_wm_i] == c)
__CPROVER_ensures(__CPROVER_return_value == s);
/* clang-format on */

#endif
