/* ASSUMED contracts for symbols of the compressor that CBMC cannot read (NASM kernels reached through
 * the multibinary dispatcher, libc functions without a CBMC model).  Always used through
 * --replace-call-with-contract and always listed in `trusted=[...]` of the registry entry.
 *
 * The checksum kernels are modelled as *recorded uninterpreted functions*: the stub records its
 * arguments in ghost globals (w_*), counts the call, and returns an unconstrained ghost value
 * (g_*_ret).  A caller's contract can then say "the routine selected by gzip_flag was called exactly
 * once, on exactly (running value, start, length), and its result became the running value".
 * What the kernels compute is C04 (their _base twins are proved there). */
#ifndef STUBS_IGZIP_H
#define STUBS_IGZIP_H
#include <stdint.h>
#include <stddef.h>
#include <wchar.h>
#include "igzip_lib.h"

/* ---- crc32_gzip_refl (crc/crc32_gzip_refl_*.asm through crc_multibinary.asm) ---- */
extern uint32_t w_crc_init, w_crc_calls, g_crc_ret;
extern uint64_t w_crc_len;
extern const unsigned char *w_crc_buf;
uint32_t
crc32_gzip_refl(uint32_t init_crc, const unsigned char *buf, uint64_t len)
        /* clang-format off */
__CPROVER_assigns(w_crc_init, w_crc_len, w_crc_buf, w_crc_calls)
__CPROVER_ensures(w_crc_init == init_crc && w_crc_len == len && w_crc_buf == buf)
__CPROVER_ensures(w_crc_calls == __CPROVER_old(w_crc_calls) + 1)
__CPROVER_ensures(__CPROVER_return_value == g_crc_ret);
/* clang-format on */

/* ---- isal_adler32 (igzip/adler32_*.asm through igzip_multibinary.asm) ----
 * ASSUMED additionally: the result is a reduced Adler-32 (A < 65521), as proved for adler32_base. */
extern uint32_t w_ad_init, w_ad_calls, g_ad_ret;
extern uint64_t w_ad_len;
extern const unsigned char *w_ad_buf;
uint32_t
isal_adler32(uint32_t init, const unsigned char *buf, uint64_t len)
        /* clang-format off */
__CPROVER_assigns(w_ad_init, w_ad_len, w_ad_buf, w_ad_calls)
__CPROVER_ensures(w_ad_init == init && w_ad_len == len && w_ad_buf == buf)
__CPROVER_ensures(w_ad_calls == __CPROVER_old(w_ad_calls) + 1)
__CPROVER_ensures(__CPROVER_return_value == g_ad_ret && (g_ad_ret & 0xffff) < 65521);
/* clang-format on */

/* ---- wmemset: no CBMC model.  C11 7.29.4.2.5: copies c into each of the first n wide characters.
 * Stated for one ghost position g_wm_i (unconstrained, so for every position); wchar_t is 4 bytes. */
extern size_t g_wm_i;
wchar_t *
wmemset(wchar_t *s, wchar_t c, size_t n)
        /* clang-format off */
__CPROVER_requires(n <= 0x1000000 && __CPROVER_w_ok(s, n * sizeof(wchar_t)))
__CPROVER_assigns(__CPROVER_object_upto(s, n * sizeof(wchar_t)))
__CPROVER_ensures(g_wm_i < n ==> s[g_wm_i] == c)
__CPROVER_ensures(__CPROVER_return_value == s);
/* clang-format on */

/* ---- level-0 compression kernels (igzip_body.asm / igzip_finish.asm through igzip_multibinary.asm) ----
 * ASSUMED (from update_state() and the exits of isal_deflate_body_base / isal_deflate_finish_base, the
 * portable twins): input and output counters move together and only forwards, the bit buffer is left
 * with fewer than 8 clean pending bits, has_hist becomes IGZIP_HIST when input was consumed, and the
 * state afterwards is one of those the portable code can leave.  The compressed *bytes* are not modelled
 * (no clause that uses these stubs reads them); the hash table is outside what the callers read. */
#define STUB_K_IN (__CPROVER_old(stream->avail_in) - stream->avail_in)
#define STUB_K_OUT (__CPROVER_old(stream->avail_out) - stream->avail_out)
#define STUB_PASS_FRAME                                                                            \
        stream->next_in, stream->avail_in, stream->total_in, stream->next_out, stream->avail_out,  \
                stream->total_out, stream->internal_state.state, stream->internal_state.has_hist,  \
                stream->internal_state.has_eob, stream->internal_state.bitbuf
#define STUB_PASS_POST                                                                             \
        __CPROVER_ensures(stream->avail_in <= __CPROVER_old(stream->avail_in) &&                   \
                          stream->next_in == __CPROVER_old(stream->next_in) + STUB_K_IN &&         \
                          stream->total_in == __CPROVER_old(stream->total_in) + STUB_K_IN)         \
        __CPROVER_ensures(stream->avail_out <= __CPROVER_old(stream->avail_out) &&                 \
                          stream->next_out == __CPROVER_old(stream->next_out) + STUB_K_OUT &&      \
                          stream->total_out == __CPROVER_old(stream->total_out) + STUB_K_OUT)      \
        __CPROVER_ensures(stream->internal_state.bitbuf.m_bit_count < 8 &&                         \
                          (stream->internal_state.bitbuf.m_bits >>                                 \
                           stream->internal_state.bitbuf.m_bit_count) == 0)                        \
        __CPROVER_ensures(stream->internal_state.has_hist ==                                       \
                          (STUB_K_IN > 0 ? IGZIP_HIST : __CPROVER_old(stream->internal_state.has_hist)))
void
isal_deflate_body(struct isal_zstream *stream)
        /* clang-format off */
__CPROVER_requires(stream->internal_state.state == ZSTATE_BODY)
__CPROVER_assigns(STUB_PASS_FRAME)
STUB_PASS_POST
__CPROVER_ensures(stream->internal_state.state == ZSTATE_BODY ||
                  stream->internal_state.state == ZSTATE_FLUSH_READ_BUFFER)
__CPROVER_ensures(stream->internal_state.has_eob == __CPROVER_old(stream->internal_state.has_eob));
/* clang-format on */
void
isal_deflate_finish(struct isal_zstream *stream)
        /* clang-format off */
__CPROVER_requires(stream->internal_state.state == ZSTATE_FLUSH_READ_BUFFER)
__CPROVER_assigns(STUB_PASS_FRAME)
STUB_PASS_POST
__CPROVER_ensures(stream->internal_state.state == ZSTATE_FLUSH_READ_BUFFER ||
                  stream->internal_state.state == ZSTATE_SYNC_FLUSH ||
                  stream->internal_state.state == ZSTATE_TRL)
__CPROVER_ensures(stream->internal_state.state != ZSTATE_FLUSH_READ_BUFFER ==>
                  (stream->internal_state.has_eob == 1 && stream->avail_in == 0));
/* clang-format on */

#endif
