/* ASSUMED contracts for symbols the decompressor calls but CBMC cannot read (NASM kernels reached through
 * the multibinary dispatcher) or that live in another translation unit.  Always used through
 * --replace-call-with-contract and always listed in `trusted=[...]` of the registry entry.
 *
 * Checksum routines are *recorded uninterpreted functions*: the stub records its arguments in ghost
 * globals (w_*), counts the call and returns an unconstrained ghost value (g_*_ret), so that a caller's
 * contract can say "the routine selected by crc_flag was called exactly once on exactly (running value,
 * start, length) and its result became the running value".  What they compute is property C04
 * (crc32_gzip_refl_base / adler32_base are proved there against the definitions). */
#ifndef STUBS_INFLATE_H
#define STUBS_INFLATE_H
#include <stdint.h>
#include <stddef.h>
#include "igzip_lib.h"

/* ---- crc32_gzip_refl (crc/crc32_gzip_refl_*.asm through crc_multibinary.asm) ---- */
extern uint32_t w_crc_init, w_crc_calls, g_crc_ret;
extern uint64_t w_crc_len;
extern const unsigned char *w_crc_buf;
uint32_t
crc32_gzip_refl(uint32_t init_crc, const unsigned char *buf, uint64_t len)
        /* clang-format off */
__CPROVER_assigns(w_crc_init, w_crc_len, w_crc_buf, w_crc_calls)
__CPROVER_ensures(w_crc_init == init_crc && w_crc_len == len && w_crc_buf == buf)
__CPROVER_ensures(w_crc_calls == __CPROVER_old(w_crc_calls) + 1)
__CPROVER_ensures(__CPROVER_return_value == g_crc_ret);
/* clang-format on */

/* ---- isal_adler32_bam1 (igzip/igzip.c; Adler-32 kept as B<<16 | (A-1) mod 65521; it wraps the
 * dispatched NASM kernel isal_adler32).  ASSUMED additionally: the low half of the result is reduced
 * (< 65521), which finalize_adler32 needs; isal_adler32_bam1's body guarantees it whenever isal_adler32
 * returns a reduced A, as adler32_base is proved to (C04). */
extern uint32_t w_ad_init, w_ad_calls, g_ad_ret;
extern uint64_t w_ad_len;
extern const unsigned char *w_ad_buf;
uint32_t
isal_adler32_bam1(uint32_t init_crc, const unsigned char *buf, uint64_t len)
        /* clang-format off */
__CPROVER_assigns(w_ad_init, w_ad_len, w_ad_buf, w_ad_calls)
__CPROVER_ensures(w_ad_init == init_crc && w_ad_len == len && w_ad_buf == buf)
__CPROVER_ensures(w_ad_calls == __CPROVER_old(w_ad_calls) + 1)
__CPROVER_ensures(__CPROVER_return_value == g_ad_ret && (g_ad_ret & 0xffff) < 65521);
/* clang-format on */

#endif
