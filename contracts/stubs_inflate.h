/* ASSUMED contracts for symbols the decompressor calls but CBMC cannot read (NASM kernels reached through
 * the multibinary dispatcher) or that live in another translation unit.  Always used through
 * --replace-call-with-contract and always listed in `trusted=[...]` of the registry entry.
 *
 * Checksum routines are *recorded uninterpreted functions*: the stub records its arguments in ghost
 * globals (w_*), counts the call and returns an unconstrained ghost value (g_*_ret), so that a caller's
 * contract can say "the routine selected by crc_flag was called exactly once on exactly (running value,
 * start, length) and its result became the running value".  What they compute is property C04
 * (crc32_gzip_refl_base / adler32_base are proved there against the definitions). */
#ifndef STUBS_INFLATE_H
#define STUBS_INFLATE_H
#include <stdint.h>
#include <stddef.h>
#include "igzip_lib.h"

/* ---- crc32_gzip_refl (crc/crc32_gzip_refl_*.asm through crc_multibinary.asm) ---- */
extern uint32_t w_crc_init, w_crc_calls, g_crc_ret;
extern uint64_t w_crc_len;
extern const unsigned char *w_crc_buf;
uint32_t
crc32_gzip_refl(uint32_t init_crc, const unsigned char *buf, uint64_t len)
        /* clang-format off */
__CPROVER_assigns(w_crc_init, w_crc_len, w_crc_buf, w_crc_calls)
__CPROVER_ensures(w_crc_init == init_crc && w_crc_len == len && w_crc_buf == buf)
__CPROVER_ensures(w_crc_calls == __CPROVER_old(w_crc_calls) + 1)
__CPROVER_ensures(__CPROVER_return_value == g_crc_ret);
/* clang-format on */

/* ---- isal_adler32_bam1 (igzip/igzip.c; Adler-32 kept as B<<16 | (A-1) mod 65521; it wraps the
 * dispatched NASM kernel isal_adler32).  ASSUMED additionally: the low half of the result is reduced
 * (< 65521), which finalize_adler32 needs; isal_adler32_bam1's body guarantees it whenever isal_adler32
 * returns a reduced A, as adler32_base is proved to (C04). */
extern uint32_t w_ad_init, w_ad_calls, g_ad_ret;
extern uint64_t w_ad_len;
extern const unsigned char *w_ad_buf;
uint32_t
isal_adler32_bam1(uint32_t init_crc, const unsigned char *buf, uint64_t len)
        /* clang-format off */
__CPROVER_assigns(w_ad_init, w_ad_len, w_ad_buf, w_ad_calls)
__CPROVER_ensures(w_ad_init == init_crc && w_ad_len == len && w_ad_buf == buf)
__CPROVER_ensures(w_ad_calls == __CPROVER_old(w_ad_calls) + 1)
__CPROVER_ensures(__CPROVER_return_value == g_ad_ret && (g_ad_ret & 0xffff) < 65521);
/* clang-format on */

/* ---- memcpy as seen from isal_inflate_set_dict (-DINF_MEMCPY_REC) ----
 * A symbolic-length memcpy into the 87 KB struct inflate_state is beyond CBMC 6.11 (built-in model: > 10 GB;
 * a contract that havocs [dst, dst+n): no result in 5 min).  The copy is therefore treated like the checksum
 * kernels: a *recording* stub.  At the call site CBMC proves the stub's precondition -- destination
 * writable and source readable for exactly n bytes (that is the memory-safety statement of the copy) --
 * and the caller's contract states the exact (dst, src, n) of the one call.  That those arguments make
 * tmp_out_buffer[0..n) equal to the last n dictionary bytes is memcpy's C11 7.24.2.1 semantics: ASSUMED.
 * The stub writes nothing, so the caller's frame for [dst, dst+n) is not checked by dfcc. */
#if defined(INF_MEMCPY_REC)
#include <string.h>
extern uint32_t w_mc_calls;          /* number of memcpy calls so far */
extern const void *w_mc_dst[2], *w_mc_src[2]; /* arguments of call 0 and call 1 */
extern size_t w_mc_n[2];
void *
memcpy(void *dst, const void *src, size_t n)
        /* clang-format off */
__CPROVER_requires(w_mc_calls < 2 && __CPROVER_w_ok(dst, n) && __CPROVER_r_ok(src, n))
__CPROVER_assigns(w_mc_calls, __CPROVER_object_whole(w_mc_dst), __CPROVER_object_whole(w_mc_src), __CPROVER_object_whole(w_mc_n))
__CPROVER_ensures(w_mc_calls == __CPROVER_old(w_mc_calls) + 1)
__CPROVER_ensures(w_mc_dst[w_mc_calls - 1] == dst && w_mc_src[w_mc_calls - 1] == src && w_mc_n[w_mc_calls - 1] == n)
__CPROVER_ensures(w_mc_calls == 2 ==> (w_mc_dst[0] == __CPROVER_old(w_mc_dst[0]) && w_mc_src[0] == __CPROVER_old(w_mc_src[0]) && w_mc_n[0] == __CPROVER_old(w_mc_n[0])))
__CPROVER_ensures(__CPROVER_return_value == dst);
/* clang-format on */
#endif

/* ---- read_header as seen from read_header_stateful (-DINF_HDRS): ASSUMED interface contract.
 * read_header_stateful points next_in into state->tmp_in_buffer, so the proved contract C_read_header
 * (harnesses read_header_*; separate input buffer) cannot be instantiated literally.  Assumed here:
 *  - the frame and the return codes of the proved contract;
 *  - input is consumed monotonically inside [next_in, next_in+avail_in); k = bytes consumed is recorded;
 *  - ISAL_END_INPUT only after all input has been taken (proved for BTYPE 0/early end; for BTYPE 2 it is
 *    setup_dynamic_header's return path `read_in_length < 0`, which needs avail_in == 0);
 *  - ISAL_END_INPUT is impossible when ISAL_DEF_MAX_HDR_SIZE (328) bytes were available: a dynamic header
 *    is at most 14 + 19*3 + 316*7 = 2283 bits = 286 bytes (each code-length symbol costs <= 7 bits per table
 *    entry it defines; repeat codes cost <= 14 bits for >= 3 entries). */
#if defined(INF_HDRS)
extern uint32_t w_rh_calls, w_rh_k, w_rh_avail;
extern uint8_t *w_rh_next_in;
extern int g_rh_ret;
#define C_read_header                                                                              \
        __CPROVER_assigns(w_rh_calls, w_rh_k, w_rh_avail, w_rh_next_in, state->read_in,            \
                          state->read_in_length, state->next_in, state->avail_in, state->bfinal,   \
                          state->type0_block_len, state->block_state, state->lit_huff_code,        \
                          state->dist_huff_code)                                                   \
        __CPROVER_ensures(w_rh_calls == __CPROVER_old(w_rh_calls) + 1 &&                           \
                          w_rh_avail == __CPROVER_old(state->avail_in) &&                          \
                          w_rh_next_in == __CPROVER_old(state->next_in))                           \
        __CPROVER_ensures(w_rh_k <= __CPROVER_old(state->avail_in) &&                              \
                          state->avail_in == __CPROVER_old(state->avail_in) - w_rh_k &&            \
                          state->next_in == __CPROVER_old(state->next_in) + w_rh_k)                \
        __CPROVER_ensures(__CPROVER_return_value == g_rh_ret &&                                    \
                          (g_rh_ret == 0 || g_rh_ret == ISAL_END_INPUT ||                          \
                           g_rh_ret == ISAL_INVALID_BLOCK))                                        \
        __CPROVER_ensures(g_rh_ret == ISAL_END_INPUT ==>                                           \
                          (state->avail_in == 0 &&                                                 \
                           __CPROVER_old(state->avail_in) < ISAL_DEF_MAX_HDR_SIZE))                \
        __CPROVER_ensures(g_rh_ret == 0 ==> (state->block_state == ISAL_BLOCK_TYPE0 ||             \
                                             state->block_state == ISAL_BLOCK_CODED))
#endif

/* ---- setup_static_header / setup_dynamic_header (igzip/igzip_inflate.c, C) as seen from read_header ----
 * Frame-only ASSUMED contracts used when read_header is enforced (-DINF_HDR): they say which fields the
 * table builders may touch, which codes they return, and record the accumulator/input position at the
 * call, so that read_header's contract can state "the Huffman header parser starts exactly 3 bits after
 * the block start".  What setup_dynamic_header itself does is covered (partly) by its own harnesses. */
#if defined(INF_HDR)
extern uint32_t w_st_calls, w_dy_calls;
extern uint64_t w_dy_read_in;
extern int32_t w_dy_len;
extern uint32_t w_dy_avail;
extern uint8_t *w_dy_next_in;
extern int g_dy_ret;
#define C_setup_static_header                                                                      \
        __CPROVER_assigns(w_st_calls, state->lit_huff_code, state->dist_huff_code,                 \
                          state->block_state)                                                      \
        __CPROVER_ensures(w_st_calls == __CPROVER_old(w_st_calls) + 1)                             \
        __CPROVER_ensures(__CPROVER_return_value == 0 && state->block_state == ISAL_BLOCK_CODED)
#define C_setup_dynamic_header                                                                     \
        __CPROVER_assigns(w_dy_calls, w_dy_read_in, w_dy_len, w_dy_avail, w_dy_next_in,            \
                          state->read_in, state->read_in_length, state->next_in, state->avail_in,  \
                          state->lit_huff_code, state->dist_huff_code, state->block_state)         \
        __CPROVER_ensures(w_dy_calls == __CPROVER_old(w_dy_calls) + 1 &&                           \
                          w_dy_read_in == __CPROVER_old(state->read_in) &&                         \
                          w_dy_len == __CPROVER_old(state->read_in_length) &&                      \
                          w_dy_avail == __CPROVER_old(state->avail_in) &&                          \
                          w_dy_next_in == __CPROVER_old(state->next_in))                           \
        __CPROVER_ensures(state->avail_in <= __CPROVER_old(state->avail_in) &&                     \
                          state->next_in == __CPROVER_old(state->next_in) +                        \
                                                    (__CPROVER_old(state->avail_in) - state->avail_in)) \
        __CPROVER_ensures(__CPROVER_return_value == g_dy_ret &&                                    \
                          (g_dy_ret == 0 || g_dy_ret == ISAL_END_INPUT ||                          \
                           g_dy_ret == ISAL_INVALID_BLOCK))                                        \
        __CPROVER_ensures(g_dy_ret == 0 ? state->block_state == ISAL_BLOCK_CODED                   \
                                        : state->block_state == __CPROVER_old(state->block_state))
#endif

/* ---- callees of setup_dynamic_header as seen from its prefix harness (-DINF_DYN): frame-only ASSUMED
 * contracts (table builders), a recording stub for set_codes (its verdict g_sc_ret[call] is unconstrained;
 * the proved contract is C_set_codes in harnesses set_codes_*), and a *bounded* stand-in for
 * decode_next_header: it returns an arbitrary 9-bit symbol, consumes input like the real one, and after
 * DYN_MAX_SYMS calls reports exhausted input (read_in_length < 0) -- so the code-length decoding loop is
 * explored for at most DYN_MAX_SYMS code-length symbols (B). */
#if defined(INF_DYN)
#ifndef DYN_MAX_SYMS
#define DYN_MAX_SYMS 2
#endif
extern uint32_t w_sc_calls, w_dnh_calls, w_mk_calls, w_sc_len[2];
extern int g_sc_ret[2];
extern uint16_t g_dnh_sym;
#define C_header_matches_pregen __CPROVER_assigns() __CPROVER_ensures(__CPROVER_return_value == 0)
#define C_setup_pregen_header __CPROVER_assigns() __CPROVER_ensures(__CPROVER_return_value == 0)
#define C_set_codes                                                                                \
        __CPROVER_requires(w_sc_calls < 2 && table_length >= 0 &&                                  \
                           __CPROVER_rw_ok(huff_code_table, table_length * sizeof(struct huff_code)) && \
                           __CPROVER_r_ok(count, 16 * sizeof(uint16_t)))                           \
        __CPROVER_assigns(w_sc_calls, __CPROVER_object_whole(w_sc_len),                            \
                          __CPROVER_object_upto(huff_code_table, table_length * sizeof(struct huff_code))) \
        __CPROVER_ensures(w_sc_calls == __CPROVER_old(w_sc_calls) + 1 &&                           \
                          w_sc_len[w_sc_calls - 1] == (uint32_t) table_length &&                   \
                          __CPROVER_return_value == g_sc_ret[w_sc_calls - 1] &&                    \
                          (g_sc_ret[w_sc_calls - 1] == 0 ||                                        \
                           g_sc_ret[w_sc_calls - 1] == ISAL_INVALID_BLOCK))
#define C_set_and_expand_lit_len_huffcode                                                          \
        __CPROVER_requires(__CPROVER_rw_ok(lit_len_huff, LIT_LEN_ELEMS * sizeof(struct huff_code)) && \
                           __CPROVER_rw_ok(count, MAX_LIT_LEN_COUNT * sizeof(uint16_t)) &&         \
                           __CPROVER_rw_ok(expand_count, MAX_LIT_LEN_COUNT * sizeof(uint16_t)) &&  \
                           __CPROVER_w_ok(code_list, (LIT_LEN_ELEMS + 2) * sizeof(uint32_t)))      \
        __CPROVER_assigns(__CPROVER_object_upto(lit_len_huff, LIT_LEN_ELEMS * sizeof(struct huff_code)), \
                          __CPROVER_object_upto(count, MAX_LIT_LEN_COUNT * sizeof(uint16_t)),      \
                          __CPROVER_object_upto(expand_count, MAX_LIT_LEN_COUNT * sizeof(uint16_t)), \
                          __CPROVER_object_upto(code_list, (LIT_LEN_ELEMS + 2) * sizeof(uint32_t))) \
        __CPROVER_ensures(__CPROVER_return_value == 0 || __CPROVER_return_value == ISAL_INVALID_BLOCK)
#define C_make_inflate_huff_code_header                                                            \
        __CPROVER_requires(__CPROVER_w_ok(result, sizeof(*result)))                                \
        __CPROVER_assigns(w_mk_calls, __CPROVER_object_whole(result),                              \
                          __CPROVER_object_upto(huff_code_table, table_length * sizeof(struct huff_code))) \
        __CPROVER_ensures(w_mk_calls == __CPROVER_old(w_mk_calls) + 1)
#define C_make_inflate_huff_code_dist                                                              \
        __CPROVER_requires(__CPROVER_w_ok(result, sizeof(*result)))                                \
        __CPROVER_assigns(w_mk_calls, *result,                                                     \
                          __CPROVER_object_upto(huff_code_table, table_length * sizeof(struct huff_code))) \
        __CPROVER_ensures(w_mk_calls == __CPROVER_old(w_mk_calls) + 1)
#define C_make_inflate_huff_code_lit_len                                                           \
        __CPROVER_requires(__CPROVER_w_ok(result, sizeof(*result)))                                \
        __CPROVER_assigns(w_mk_calls, *result,                                                     \
                          __CPROVER_object_upto(huff_code_table, table_length * sizeof(struct huff_code))) \
        __CPROVER_ensures(w_mk_calls == __CPROVER_old(w_mk_calls) + 1)
#define C_decode_next_header                                                                       \
        __CPROVER_assigns(w_dnh_calls, state->read_in, state->read_in_length, state->next_in,      \
                          state->avail_in)                                                         \
        __CPROVER_ensures(w_dnh_calls == __CPROVER_old(w_dnh_calls) + 1 &&                         \
                          __CPROVER_return_value < 512)                                            \
        __CPROVER_ensures(state->read_in_length <= 64 && state->read_in_length >= -64 &&           \
                          (state->read_in_length >= 0 || state->avail_in == 0) &&                  \
                          state->avail_in <= __CPROVER_old(state->avail_in) &&                     \
                          state->next_in == __CPROVER_old(state->next_in) +                        \
                                                    (__CPROVER_old(state->avail_in) - state->avail_in)) \
        __CPROVER_ensures(w_dnh_calls > DYN_MAX_SYMS ==> state->read_in_length < 0)
#endif

#endif
